"""Rooted trees (canonical nested tuples), density gamma, symmetry-free enumeration up to a given order."""
import functools
import itertools


@functools.lru_cache(maxsize=None)
def trees_of_order(n):
    """All rooted trees with n vertices, each a sorted tuple of child trees."""
    if n == 1:
        return ((),)
    out = []
    for forest in _forests(n - 1, n - 1):
        out.append(tuple(sorted(forest, key=_key)))
    # deduplicate (forests are generated as multisets already, canonical by construction)
    return tuple(sorted(set(out), key=_key))


def _key(t):
    return (order(t), t)


@functools.lru_cache(maxsize=None)
def order(t):
    return 1 + sum(order(c) for c in t)


@functools.lru_cache(maxsize=None)
def gamma(t):
    g = order(t)
    for c in t:
        g *= gamma(c)
    return g


def _forests(total, max_part):
    """Multisets of trees whose orders sum to `total`, largest tree order <= max_part."""
    if total == 0:
        yield ()
        return
    for k in range(min(total, max_part), 0, -1):
        ts = trees_of_order(k)
        # choose m >= 1 trees of order k (multiset), then the rest with strictly smaller orders
        for m in range(1, total // k + 1):
            for combo in itertools.combinations_with_replacement(range(len(ts)), m):
                for rest in _forests(total - m * k, k - 1):
                    yield tuple(ts[i] for i in combo) + rest


def trees_up_to(p):
    out = []
    for n in range(1, p + 1):
        out.extend(trees_of_order(n))
    return out


COUNTS = [1, 1, 2, 4, 9, 20, 48, 115, 286, 719, 1842, 4766, 12486, 32973]   # A000081
