"""Exact-arithmetic order conditions on the dumped coefficient tables (ground obligations of C01).

All table entries are float64 values, i.e. dyadic rationals; elementary weights are evaluated in exact integer
arithmetic on a common dyadic scale.  A condition  sum_i b_i Phi_i(t) = 1/gamma(t)  is accepted when its exact
residual is below a *derived* slack: ord(t) * 2^-50 * (Phi(|A|,|b|)(t) + 1/gamma(t)), the first-order effect of
rounding each of the <= ord(t) coefficient factors of every term by a few units in the last place.
"""
from fractions import Fraction
import time

from . import trees as T

ULP_SLACK = Fraction(1, 2 ** 50)


def frac_table(hex_rows):
    return [[Fraction(float.fromhex(x)) for x in row] for row in hex_rows]


def _scale_bits(entries):
    s = 0
    for x in entries:
        d = x.denominator
        s = max(s, d.bit_length() - 1)
    return s


class RK(object):
    """Butcher table A (s x s), weights b, nodes c as Fractions."""

    def __init__(self, A, b, c):
        self.A, self.b, self.c = A, b, c
        self.s = len(b)
        flat = [x for row in A for x in row] + list(b)
        self.S = _scale_bits(flat)
        sc = 1 << self.S
        self.Ai = [[(j, int(x * sc)) for j, x in enumerate(row) if x != 0] for row in A]
        self.bi = [int(x * sc) for x in b]
        self.Aabs = [[(j, abs(v)) for j, v in row] for row in self.Ai]
        self.babs = [abs(v) for v in self.bi]
        self._u = {}
        self._uabs = {}

    @staticmethod
    def from_tables(tab_int, tab_final_row):
        A = [row[1:] for row in tab_int]
        c = [row[0] for row in tab_int]
        b = list(tab_final_row[1:])
        return RK(A, b, c)

    def _phi(self, t, absolute):
        """integer vector phi(t) at scale S*(order(t)-1)"""
        memo = self._uabs if absolute else self._u
        vec = [1] * self.s
        for ch in t:
            u = memo.get(ch)
            if u is None:
                u = self._matvec(self._phi(ch, absolute), absolute)
                memo[ch] = u
            vec = [x * y for x, y in zip(vec, u)]
        return vec

    def _matvec(self, v, absolute):
        rows = self.Aabs if absolute else self.Ai
        return [sum(a * v[j] for j, a in row) for row in rows]

    def weight(self, t, absolute=False, b=None):
        """Fraction sum_i b_i phi_i(t)"""
        phi = self._phi(t, absolute)
        bb = (self.babs if absolute else self.bi) if b is None else b
        num = sum(x * y for x, y in zip(bb, phi))
        return Fraction(num, 1 << (self.S * T.order(t)))

    def residual(self, t, b=None):
        r = self.weight(t, b=b) - Fraction(1, T.gamma(t))
        slack = T.order(t) * ULP_SLACK * (self.weight(t, absolute=True, b=[abs(x) for x in b] if b is not None else None) + Fraction(1, T.gamma(t)))
        return r, slack

    def order_report(self, p, b=None, stop_at_first_failing_order=False):
        """-> list per order k: dict(order, conditions, failing, worst_ratio, worst_tree, worst_residual)"""
        out = []
        for k in range(1, p + 1):
            worst = (Fraction(0), None, None, None)
            failing = 0
            ts = T.trees_of_order(k)
            for t in ts:
                r, sl = self.residual(t, b=b)
                ratio = abs(r) / sl if sl else (Fraction(0) if r == 0 else Fraction(10 ** 9))
                if ratio > 1:
                    failing += 1
                if ratio >= worst[0]:
                    worst = (ratio, t, r, sl)
            out.append(dict(order=k, conditions=len(ts), failing=failing, worst_ratio=float(worst[0]),
                            worst_tree=repr(worst[1]), worst_residual=float(worst[2]) if worst[2] is not None else 0.0,
                            slack_at_worst=float(worst[3]) if worst[3] is not None else 0.0))
            if failing and stop_at_first_failing_order:
                break
        return out

    def attained_order(self, pmax, b=None):
        q = 0
        for k in range(1, pmax + 1):
            ok = True
            for t in T.trees_of_order(k):
                r, sl = self.residual(t, b=b)
                if abs(r) > sl:
                    ok = False
                    break
            if not ok:
                break
            q = k
        return q

    def row_sums(self):
        """c_i == sum_j a_ij up to s * 2^-50 * (sum_j |a_ij| + |c_i|)"""
        out = []
        for i in range(self.s):
            r = self.c[i] - sum(self.A[i])
            sl = self.s * ULP_SLACK * (sum(abs(x) for x in self.A[i]) + abs(self.c[i]))
            out.append((i, r, sl))
        return out

    # ---- simplifying assumptions (collocation-type methods; Butcher's theorem A8) ------------------------------------
    def simplifying(self, p, eta, zeta):
        """-> dict(B=[(k,res,slack)], C=[(k,i,res,slack)], D=[(k,j,res,slack)])"""
        A, b, c, s = self.A, self.b, self.c, self.s
        res = dict(B=[], C=[], D=[])
        for k in range(1, p + 1):
            val = sum(b[i] * c[i] ** (k - 1) for i in range(s))
            ab = sum(abs(b[i]) * abs(c[i]) ** (k - 1) for i in range(s))
            res["B"].append((k, val - Fraction(1, k), (k + 1) * ULP_SLACK * (ab + Fraction(1, k))))
        for k in range(1, eta + 1):
            for i in range(s):
                val = sum(A[i][j] * c[j] ** (k - 1) for j in range(s))
                ab = sum(abs(A[i][j]) * abs(c[j]) ** (k - 1) for j in range(s))
                rhs = c[i] ** k / k
                res["C"].append((k, i, val - rhs, (k + 1) * ULP_SLACK * (ab + abs(rhs))))
        for k in range(1, zeta + 1):
            for j in range(s):
                val = sum(b[i] * c[i] ** (k - 1) * A[i][j] for i in range(s))
                ab = sum(abs(b[i]) * abs(c[i]) ** (k - 1) * abs(A[i][j]) for i in range(s))
                rhs = b[j] * (1 - c[j] ** k) / k
                res["D"].append((k, j, val - rhs, (k + 2) * ULP_SLACK * (ab + abs(b[j]) * (1 + abs(c[j]) ** k) / k)))
        return res

    def max_simplifying(self, limit=25):
        """Largest (p, eta, zeta) such that B(p), C(eta), D(zeta) hold within slack."""
        def holds(kind, k):
            r = self.simplifying(k if kind == "B" else 0, k if kind == "C" else 0, k if kind == "D" else 0)[kind]
            return all(abs(x[-2]) <= x[-1] for x in r if x[0] == k)
        out = {}
        for kind in "BCD":
            m = 0
            for k in range(1, limit + 1):
                if holds(kind, k):
                    m = k
                else:
                    break
            out[kind] = m
        return out
