"""Exact stability analysis of an implicit Runge-Kutta table: R(z) = N(z)/D(z),
N = det(I - z(A - 1 b^T)), D = det(I - zA) by Faddeev-LeVerrier over Fractions;
|R(iy)| <= 1 for all real y by a Sturm-sequence root count of E(w) = |D(iy)|^2 - (1-delta)|N(iy)|^2, w = y^2;
poles in the open right half-plane by the Routh-Hurwitz minors of D(-z)."""
from fractions import Fraction

DELTA = Fraction(1, 2 ** 40)


def charpoly(M):
    """coefficients [1, p1, ..., pn] of det(lambda I - M) (Faddeev-LeVerrier)"""
    n = len(M)
    I = [[Fraction(int(i == j)) for j in range(n)] for i in range(n)]
    coeffs = [Fraction(1)]
    Mk = [row[:] for row in I]
    for k in range(1, n + 1):
        AM = matmul(M, Mk)
        c = -sum(AM[i][i] for i in range(n)) / k
        coeffs.append(c)
        Mk = [[AM[i][j] + c * I[i][j] for j in range(n)] for i in range(n)]
    return coeffs


def matmul(X, Y):
    n, m, p = len(X), len(Y), len(Y[0])
    return [[sum(X[i][k] * Y[k][j] for k in range(m) if X[i][k] != 0) for j in range(p)] for i in range(n)]


def det_I_minus_zM(M):
    """ascending coefficients of det(I - zM): [1, p1, ..., pn]"""
    return charpoly(M)


def trim(p):
    p = list(p)
    while len(p) > 1 and p[-1] == 0:
        p.pop()
    return p


def stability_polys(A, b):
    s = len(b)
    D = trim(det_I_minus_zM(A))
    M2 = [[A[i][j] - b[j] for j in range(s)] for i in range(s)]
    N = trim(det_I_minus_zM(M2))
    return N, D


def abs2_on_imag_axis(P):
    """|P(iy)|^2 as ascending coefficients in w = y^2"""
    re = {}
    im = {}
    for k, c in enumerate(P):
        if c == 0:
            continue
        if k % 2 == 0:
            re[k // 2] = re.get(k // 2, 0) + c * (-1) ** (k // 2)            # (iy)^k = (-1)^(k/2) y^k
        else:
            im[(k - 1) // 2] = im.get((k - 1) // 2, 0) + c * (-1) ** ((k - 1) // 2)   # i * (-1)^((k-1)/2) y^k
    out = {}
    for a, ca in re.items():
        for bb, cb in re.items():
            out[a + bb] = out.get(a + bb, 0) + ca * cb
    for a, ca in im.items():
        for bb, cb in im.items():
            out[a + bb + 1] = out.get(a + bb + 1, 0) + ca * cb          # y^(2a+1) y^(2b+1) = w^(a+b+1)
    n = max(out) if out else 0
    return trim([Fraction(out.get(k, 0)) for k in range(n + 1)])


def poly_sub(p, q, scale_q=Fraction(1)):
    n = max(len(p), len(q))
    return trim([(p[k] if k < len(p) else 0) - scale_q * (q[k] if k < len(q) else 0) for k in range(n)])


def poly_eval(p, x):
    r = Fraction(0)
    for c in reversed(p):
        r = r * x + c
    return r


def poly_deriv(p):
    return trim([k * p[k] for k in range(1, len(p))]) if len(p) > 1 else [Fraction(0)]


def poly_rem(a, b):
    a = list(a)
    while len(a) >= len(b) and any(a):
        q = a[-1] / b[-1]
        for i in range(len(b)):
            a[len(a) - len(b) + i] -= q * b[i]
        a.pop()
        a = trim(a) if a else [Fraction(0)]
        if len(a) < len(b):
            break
    return trim(a) if a else [Fraction(0)]


def poly_gcd(a, b):
    a, b = trim(a), trim(b)
    while any(b):
        a, b = b, poly_rem(a, b)
    return a


def poly_div_exact(a, b):
    a = list(a)
    q = [Fraction(0)] * (len(a) - len(b) + 1)
    for k in range(len(q) - 1, -1, -1):
        q[k] = a[k + len(b) - 1] / b[-1]
        for i in range(len(b)):
            a[k + i] -= q[k] * b[i]
    return trim(q)


def sturm_count_positive_roots(p):
    """number of distinct real roots of p in (0, +inf)"""
    p = trim(p)
    if len(p) == 1:
        return 0
    g = poly_gcd(p, poly_deriv(p))
    if len(g) > 1:
        p = poly_div_exact(p, g)
    seq = [p, poly_deriv(p)]
    while any(seq[-1]) and len(seq[-1]) > 1:
        r = poly_rem(seq[-2], seq[-1])
        seq.append([-c for c in r])
        if not any(seq[-1]):
            seq.pop()
            break
    def changes(vals):
        vals = [v for v in vals if v != 0]
        return sum(1 for x, y in zip(vals, vals[1:]) if (x > 0) != (y > 0))
    at0 = [poly_eval(q, Fraction(0)) for q in seq]
    atinf = [q[-1] for q in seq]            # sign at +inf = sign of leading coefficient
    return changes(at0) - changes(atinf)


def hurwitz_minors(q):
    """q ascending coefficients, degree n, leading coefficient made positive; returns leading principal minors"""
    q = trim(q)
    n = len(q) - 1
    if n == 0:
        return []
    a = list(reversed(q))          # a0 z^n + a1 z^(n-1) + ...
    if a[0] < 0:
        a = [-x for x in a]
    def coef(k):
        return a[k] if 0 <= k <= n else Fraction(0)
    H = [[coef(2 * (j + 1) - (i + 1)) for j in range(n)] for i in range(n)]
    return [det([row[:k] for row in H[:k]]) for k in range(1, n + 1)]


def det(M):
    M = [row[:] for row in M]
    n = len(M)
    d = Fraction(1)
    for c in range(n):
        piv = None
        for r in range(c, n):
            if M[r][c] != 0:
                piv = r
                break
        if piv is None:
            return Fraction(0)
        if piv != c:
            M[c], M[piv] = M[piv], M[c]
            d = -d
        d *= M[c][c]
        for r in range(c + 1, n):
            f = M[r][c] / M[c][c]
            if f != 0:
                for k in range(c, n):
                    M[r][k] -= f * M[c][k]
    return d


def analyse(A, b):
    N, D = stability_polys(A, b)
    E = poly_sub(abs2_on_imag_axis(D), abs2_on_imag_axis(N), scale_q=1 - DELTA)
    roots = sturm_count_positive_roots(E)
    Dm = [c * (-1) ** k for k, c in enumerate(D)]      # D(-z): poles of R in C+  <=>  roots of D(-z) in C-
    minors = hurwitz_minors(Dm)
    return dict(N=N, D=D, E=E, E_at_0=poly_eval(E, Fraction(0)), E_lead=E[-1], positive_roots_of_E=roots,
                hurwitz_minors=minors, degN=len(N) - 1, degD=len(D) - 1)
