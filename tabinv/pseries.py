"""P-series order conditions of a partitioned Runge-Kutta method applied to a separable system
q' = f_q(p), p' = f_p(q): bicoloured rooted trees whose colours alternate with depth (A8)."""
from fractions import Fraction
from . import trees as T
from .order import ULP_SLACK


class PRK(object):
    def __init__(self, Aq, bq, Ap, bp):
        self.A = {"q": Aq, "p": Ap}
        self.b = {"q": bq, "p": bp}
        self.s = len(bq)
        self._memo = {}

    def _phi(self, t, colour, absolute):
        """vector phi_i(t) for a tree whose root has `colour`"""
        key = (t, colour, absolute)
        if key in self._memo:
            return self._memo[key]
        other = "p" if colour == "q" else "q"
        vec = [Fraction(1)] * self.s
        A = self.A[other]
        for ch in t:
            sub = self._phi(ch, other, absolute)
            u = [sum((abs(A[i][j]) if absolute else A[i][j]) * sub[j] for j in range(self.s) if A[i][j] != 0) for i in range(self.s)]
            vec = [x * y for x, y in zip(vec, u)]
        self._memo[key] = vec
        return vec

    def residual(self, t, colour):
        phi = self._phi(t, colour, False)
        pa = self._phi(t, colour, True)
        b = self.b[colour]
        val = sum(b[i] * phi[i] for i in range(self.s))
        ab = sum(abs(b[i]) * pa[i] for i in range(self.s))
        g = Fraction(1, T.gamma(t))
        return val - g, T.order(t) * ULP_SLACK * (ab + g)

    def report(self, p):
        out = []
        for k in range(1, p + 1):
            worst = (Fraction(0), None, None, None)
            failing = 0
            n = 0
            for t in T.trees_of_order(k):
                for col in ("q", "p"):
                    n += 1
                    r, sl = self.residual(t, col)
                    ratio = abs(r) / sl
                    if ratio > 1:
                        failing += 1
                    if ratio >= worst[0]:
                        worst = (ratio, (col, t), r, sl)
            out.append(dict(order=k, conditions=n, failing=failing, worst_ratio=float(worst[0]), worst_tree=repr(worst[1]),
                            worst_residual=float(worst[2])))
        return out

    def attained_order(self, pmax):
        q = 0
        for r in self.report(pmax):
            if r["failing"]:
                break
            q = r["order"]
        return q


def from_splitting_table(tab):
    """Partitioned RK method realised by ExplicitSymplecticIntegrator.step for a table with rows (unused, drift, kick):
    stage s sees q0 + h*sum_{j<s} T[j,1] k^q_j and p0 + h*sum_{j<s} T[j,2] k^p_j; weights are the columns themselves.
    (This reading of `step` is itself an obligation of C02: step == fold of drift/kick sub-steps.)"""
    n = len(tab)
    Aq = [[tab[j][1] if j < i else Fraction(0) for j in range(n)] for i in range(n)]
    Ap = [[tab[j][2] if j < i else Fraction(0) for j in range(n)] for i in range(n)]
    bq = [tab[j][1] for j in range(n)]
    bp = [tab[j][2] for j in range(n)]
    return PRK(Aq, bq, Ap, bp)
