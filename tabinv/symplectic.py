"""Ground obligations of C10 on the coefficient tables: symplecticity condition M = 0, symmetry of the scheme,
and the structural invariants of the splitting tables (pure drift/kick rows, coefficient sums, palindromy)."""
from fractions import Fraction
from .order import ULP_SLACK


def m_matrix(A, b):
    s = len(b)
    out = []
    for i in range(s):
        for j in range(s):
            r = b[i] * A[i][j] + b[j] * A[j][i] - b[i] * b[j]
            sl = 3 * ULP_SLACK * (abs(b[i] * A[i][j]) + abs(b[j] * A[j][i]) + abs(b[i] * b[j]))
            out.append((i, j, r, sl))
    return out


def symmetric(A, b, c):
    """a_{s+1-i,s+1-j} + a_ij == b_j,  b_{s+1-i} == b_i,  c_{s+1-i} == 1 - c_i"""
    s = len(b)
    out = []
    for i in range(s):
        out.append(("b", i, b[s - 1 - i] - b[i], 2 * ULP_SLACK * (abs(b[i]) + abs(b[s - 1 - i]))))
        out.append(("c", i, c[s - 1 - i] - (1 - c[i]), 2 * ULP_SLACK * (abs(c[i]) + abs(c[s - 1 - i]) + 1)))
        for j in range(s):
            r = A[s - 1 - i][s - 1 - j] + A[i][j] - b[j]
            out.append(("a", (i, j), r, 3 * ULP_SLACK * (abs(A[s - 1 - i][s - 1 - j]) + abs(A[i][j]) + abs(b[j]))))
    return out


def splitting_invariants(tab):
    """tab rows: (unused, drift coefficient, kick coefficient)"""
    n = len(tab)
    res = {}
    res["pure_rows"] = [i for i in range(n) if tab[i][1] != 0 and tab[i][2] != 0]
    sd = sum(r[1] for r in tab)
    sk = sum(r[2] for r in tab)
    sl_d = n * ULP_SLACK * (sum(abs(r[1]) for r in tab) + 1)
    sl_k = n * ULP_SLACK * (sum(abs(r[2]) for r in tab) + 1)
    res["drift_sum"] = (sd - 1, sl_d)
    res["kick_sum"] = (sk - 1, sl_k)
    res["not_palindromic"] = [i for i in range(n) if tab[i][1] != tab[n - 1 - i][1] or tab[i][2] != tab[n - 1 - i][2]]
    return res
