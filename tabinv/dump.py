"""Runs under /venv/bin/python: import the real desolver.integrators from the working tree and dump every shipped
method's coefficient tables (exact: float.hex()), declared order and flags."""
import json
import sys
import numpy as np


def hx(a):
    a = np.asarray(a, dtype=np.float64)
    return [[float(x).hex() for x in row] for row in np.atleast_2d(a)]


def main():
    import desolver
    from desolver import integrators as I
    out = dict(module_file=I.__file__, explicit=[], implicit=[], methods={})
    for group, lst in (("explicit", I.explicit_methods()), ("implicit", I.implicit_methods())):
        for cls in lst:
            name = cls.__name__
            out[group].append(name)
            kind = "splitting" if issubclass(cls, I.ExplicitSymplecticIntegrator) else "rk"
            d = dict(name=name, kind=kind, order=float(cls.__order__), symplectic=bool(cls.symplectic),
                     tableau_intermediate=hx(cls.tableau_intermediate), module=cls.__module__,
                     overrides=[m for m in ("get_error_estimate", "update_timestep", "step", "__call__", "dense_output") if m in cls.__dict__])
            if kind == "rk":
                d["tableau_final"] = hx(cls.tableau_final)
                # the flags the integrator derives at construction (what the code will actually do)
                inst = cls((2,), dtype=np.float64)
                d["derived"] = dict(adaptive=bool(inst._adaptive), fsal=bool(inst._fsal), explicit=bool(inst._explicit),
                                    stages=int(inst.stages), is_adaptive=bool(inst.is_adaptive))
                # weights of the error estimator *as the code computes it*: get_error_estimate() is linear in the stage
                # slopes, so probing it with unit stage vectors yields its weight vector exactly (linearity is re-checked)
                s = inst.stages
                wts = []
                for i in range(s):
                    inst.stage_values[...] = 0.0
                    inst.stage_values[0, i] = 1.0
                    wts.append(float(np.asarray(inst.get_error_estimate()).reshape(-1)[0]))
                inst.stage_values[...] = 0.0
                inst.stage_values[0, :] = np.arange(1, s + 1) * 0.5
                comb = float(np.asarray(inst.get_error_estimate()).reshape(-1)[0])
                d["estimator_weights"] = [float(x).hex() for x in wts]
                d["estimator_linear"] = bool(abs(comb - sum(w * (i + 1) * 0.5 for i, w in enumerate(wts))) <= 1e-12 * (1 + sum(abs(w) for w in wts) * s))
            out["methods"][name] = d
    print(json.dumps(out))


if __name__ == "__main__":
    main()
