"""Read the real source text of /repo on every run; index functions and classes by qualified name."""
import ast
import hashlib
import os

REPO = os.environ.get("VERIF_REPO", "/repo")


class FuncInfo(object):
    def __init__(self, file, qualname, node, cls, text):
        self.file = file
        self.qualname = qualname
        self.node = node
        self.cls = cls            # ClassInfo or None
        self.text = text
        self.sha256 = hashlib.sha256(text.encode()).hexdigest()
        self.lines = (node.lineno, node.end_lineno)
        self.is_property = any(isinstance(d, ast.Name) and d.id == "property" for d in node.decorator_list)
        self.is_setter = any(isinstance(d, ast.Attribute) and d.attr == "setter" for d in node.decorator_list)
        self.is_deleter = any(isinstance(d, ast.Attribute) and d.attr == "deleter" for d in node.decorator_list)
        self.is_classmethod = any(isinstance(d, ast.Name) and d.id == "classmethod" for d in node.decorator_list)


class ClassInfo(object):
    def __init__(self, file, name, node, outer=None):
        self.file = file
        self.name = name
        self.node = node
        self.bases = [ast.unparse(b) for b in node.bases]
        self.methods = {}        # name -> FuncInfo (getter for properties)
        self.setters = {}        # name -> FuncInfo
        self.class_attrs = {}    # name -> ast expr
        self.outer = outer


class Sources(object):
    def __init__(self, repo=None):
        self.repo = repo or REPO
        self.files = {}          # relpath -> (text, ast.Module)
        self.funcs = {}          # (relpath, qualname) -> FuncInfo
        self.classes = {}        # class name -> ClassInfo   (first definition wins; names are unique in desolver)

    def load(self, relpath):
        if relpath in self.files:
            return self.files[relpath]
        path = os.path.join(self.repo, relpath)
        with open(path, "r") as f:
            text = f.read()
        tree = ast.parse(text, filename=path)
        self.files[relpath] = (text, tree)
        self._index(relpath, text, tree.body, prefix="", cls=None)
        return self.files[relpath]

    def _index(self, relpath, text, body, prefix, cls):
        for node in body:
            if isinstance(node, (ast.FunctionDef,)):
                q = prefix + node.name
                seg = ast.get_source_segment(text, node) or ""
                fi = FuncInfo(relpath, q, node, cls, seg)
                if cls is not None and fi.is_setter:
                    cls.setters[node.name] = fi
                    self.funcs[(relpath, q + ".setter")] = fi
                elif cls is not None and fi.is_deleter:
                    # `@x.deleter`: must not shadow the property getter of the same name
                    self.funcs[(relpath, q + ".deleter")] = fi
                else:
                    self.funcs[(relpath, q)] = fi
                    if cls is not None:
                        cls.methods[node.name] = fi
                # nested defs / classes
                self._index(relpath, text, node.body, q + ".", None)
            elif isinstance(node, ast.ClassDef):
                ci = ClassInfo(relpath, node.name, node)
                self.classes.setdefault(node.name, ci)
                for st in node.body:
                    if isinstance(st, ast.Assign) and len(st.targets) == 1 and isinstance(st.targets[0], ast.Name):
                        ci.class_attrs[st.targets[0].id] = st.value
                self._index(relpath, text, node.body, prefix + node.name + ".", ci)
            elif isinstance(node, (ast.If, ast.Try, ast.With, ast.For, ast.While)):
                for sub in ("body", "orelse", "finalbody"):
                    self._index(relpath, text, getattr(node, sub, []) or [], prefix, cls)

    def func(self, relpath, qualname):
        self.load(relpath)
        try:
            return self.funcs[(relpath, qualname)]
        except KeyError:
            raise KeyError("function %s not found in %s" % (qualname, relpath))

    def cls(self, name):
        return self.classes.get(name)

    def mro(self, clsname):
        """Linearised list of ClassInfo (simple depth-first, enough for desolver's single-inheritance chains)."""
        out = []
        seen = set()

        def go(n):
            ci = self.classes.get(n.split(".")[-1])
            if ci is None or ci.name in seen:
                return
            seen.add(ci.name)
            out.append(ci)
            for b in ci.bases:
                go(b)
        go(clsname)
        return out

    def find_method(self, clsname, name):
        for ci in self.mro(clsname):
            if name in ci.methods:
                return ci.methods[name]
        return None

    def find_setter(self, clsname, name):
        for ci in self.mro(clsname):
            if name in ci.setters:
                return ci.setters[name]
        return None

    def find_class_attr(self, clsname, name):
        for ci in self.mro(clsname):
            if name in ci.class_attrs:
                return ci, ci.class_attrs[name]
        return None, None


ALL_FILES = [
    "desolver/utilities/utilities.py",
    "desolver/utilities/interpolation.py",
    "desolver/utilities/optimizer.py",
    "desolver/integrators/integrator_template.py",
    "desolver/integrators/integrator_types.py",
    "desolver/integrators/utilities.py",
    "desolver/integrators/components/runge_kutta_methods.py",
    "desolver/differential_system.py",
]


def load_all(repo=None):
    s = Sources(repo)
    for f in ALL_FILES:
        s.load(f)
    return s
