"""Value domains of the pyvc symbolic executor.

Scalars   : python int/bool/Fraction (concrete), z3 Int/Real/Bool terms (symbolic), Poly (exact
            polynomial over named real symbols with Fraction coefficients; used with LinComb).
Arrays    : SeqVal (z3 Array Int->Real|Int plus a z3 Int length), PyList heap objects.
Vectors   : LinComb -- formal linear combination  sum_k coeff_k * atom_k  (coeff = Poly), atoms are
            input symbols or applications of uninterpreted callables to (Poly | LinComb) arguments.
Objects   : Ref (heap reference), Closure, UFunc, ModuleRef, Opaque.
"""
from fractions import Fraction
import itertools
import z3

_fresh_counter = itertools.count()


def fresh_name(prefix):
    return "%s!%d" % (prefix, next(_fresh_counter))


# ----------------------------------------------------------------------------------------------
# exact polynomials over named symbols
# ----------------------------------------------------------------------------------------------
class Poly(object):
    """Multivariate polynomial with Fraction coefficients; canonical, hashable."""
    __slots__ = ("terms", "_key")

    def __init__(self, terms=None):
        # terms: dict { monomial(tuple of (sym, power) sorted) : Fraction }
        t = {}
        if terms:
            for m, c in terms.items():
                if c != 0:
                    t[m] = Fraction(c)
        self.terms = t
        self._key = None

    @staticmethod
    def const(c):
        return Poly({(): Fraction(c)})

    @staticmethod
    def sym(name):
        return Poly({((name, 1),): Fraction(1)})

    def key(self):
        if self._key is None:
            self._key = tuple(sorted(self.terms.items()))
        return self._key

    def __hash__(self):
        return hash(self.key())

    def __eq__(self, other):
        other = to_poly(other)
        if other is None:
            return NotImplemented
        return self.terms == other.terms

    def is_const(self):
        return all(m == () for m in self.terms)

    def const_value(self):
        return self.terms.get((), Fraction(0))

    def is_zero(self):
        return not self.terms

    def __add__(self, o):
        o = to_poly(o)
        if o is None:
            return NotImplemented
        t = dict(self.terms)
        for m, c in o.terms.items():
            t[m] = t.get(m, 0) + c
        return Poly(t)

    __radd__ = __add__

    def __neg__(self):
        return Poly({m: -c for m, c in self.terms.items()})

    def __sub__(self, o):
        o = to_poly(o)
        if o is None:
            return NotImplemented
        return self + (-o)

    def __rsub__(self, o):
        return to_poly(o) - self

    def __mul__(self, o):
        o = to_poly(o)
        if o is None:
            return NotImplemented
        t = {}
        for m1, c1 in self.terms.items():
            for m2, c2 in o.terms.items():
                d = dict(m1)
                for s, p in m2:
                    d[s] = d.get(s, 0) + p
                m = tuple(sorted(d.items()))
                t[m] = t.get(m, 0) + c1 * c2
        return Poly(t)

    __rmul__ = __mul__

    def div_const(self, c):
        c = Fraction(c)
        return Poly({m: v / c for m, v in self.terms.items()})

    def try_div(self, o):
        """Exact division by a monomial polynomial (single term); None if not possible."""
        o = to_poly(o)
        if len(o.terms) != 1:
            return None
        (m2, c2), = o.terms.items()
        t = {}
        for m1, c1 in self.terms.items():
            d = dict(m1)
            for s, p in m2:
                if d.get(s, 0) < p:
                    return None
                d[s] -= p
                if d[s] == 0:
                    del d[s]
            t[tuple(sorted(d.items()))] = c1 / c2
        return Poly(t)

    def symbols(self):
        return {s for m in self.terms for s, _ in m}

    def to_z3(self, symmap=None):
        tot = z3.RealVal(0)
        first = True
        for m, c in sorted(self.terms.items()):
            term = z3.Q(c.numerator, c.denominator)
            for s, p in m:
                v = symmap[s] if symmap and s in symmap else z3.Real(s)
                for _ in range(p):
                    term = term * v
            tot = term if first else tot + term
            first = False
        return tot

    def subs(self, mapping):
        """Substitute Fractions for symbols."""
        tot = Fraction(0)
        for m, c in self.terms.items():
            v = c
            for s, p in m:
                v *= Fraction(mapping[s]) ** p
            tot += v
        return tot

    def __repr__(self):
        if not self.terms:
            return "0"
        out = []
        for m, c in sorted(self.terms.items()):
            mono = "*".join(s if p == 1 else "%s^%d" % (s, p) for s, p in m)
            if mono:
                out.append(("%s*%s" % (c, mono)) if c != 1 else mono)
            else:
                out.append(str(c))
        return " + ".join(out)


def to_poly(v):
    if isinstance(v, Poly):
        return v
    if isinstance(v, bool):
        return Poly.const(int(v))
    if isinstance(v, (int, Fraction)):
        return Poly.const(v)
    if isinstance(v, float):
        return Poly.const(Fraction(v))
    return None


# ----------------------------------------------------------------------------------------------
# formal linear combinations
# ----------------------------------------------------------------------------------------------
class Atom(object):
    """Hash-consed (interned) atom: ('sym', name) or ('app', fname, args...) with canonical args.
    Interning makes equality an identity test and hashing O(1), whatever the nesting depth of the arguments."""
    __slots__ = ("key", "id")
    _intern = {}
    _ids = itertools.count()

    def __new__(cls, key):
        a = cls._intern.get(key)
        if a is None:
            a = object.__new__(cls)
            a.key = key
            a.id = next(cls._ids)
            cls._intern[key] = a
        return a

    def __hash__(self):
        return self.id

    def __eq__(self, o):
        return self is o

    def __repr__(self):
        if self.key[0] == "sym":
            return self.key[1]
        return "%s#%d(...)" % (self.key[1], self.id)      # arguments elided: nesting depth is unbounded

    def __lt__(self, o):
        return self.id < o.id


class LinComb(object):
    __slots__ = ("terms", "_key")

    def __init__(self, terms=None):
        t = {}
        if terms:
            for a, c in terms.items():
                c = to_poly(c)
                if not c.is_zero():
                    t[a] = c
        self.terms = t
        self._key = None

    @staticmethod
    def sym(name):
        return LinComb({Atom(("sym", name)): Poly.const(1)})

    @staticmethod
    def zero():
        return LinComb()

    @staticmethod
    def app(fname, *args):
        """Application of an uninterpreted vector-valued callable."""
        return LinComb({Atom(("app", fname) + tuple(canon(a) for a in args)): Poly.const(1)})

    def key(self):
        if self._key is None:
            self._key = frozenset((a.id, c.key()) for a, c in self.terms.items())
        return self._key

    def __hash__(self):
        return hash(self.key())

    def __eq__(self, o):
        if not isinstance(o, LinComb):
            if isinstance(o, (int, Fraction)) and not isinstance(o, bool) and o == 0:
                return not self.terms
            return NotImplemented
        return self.terms == o.terms

    def is_zero(self):
        return not self.terms

    def __add__(self, o):
        if isinstance(o, LinComb):
            t = dict(self.terms)
            for a, c in o.terms.items():
                t[a] = t.get(a, Poly()) + c
            return LinComb(t)
        p = to_poly(o)
        if p is not None and p.is_zero():
            return self
        return NotImplemented

    __radd__ = __add__

    def __neg__(self):
        return LinComb({a: -c for a, c in self.terms.items()})

    def __sub__(self, o):
        if isinstance(o, LinComb):
            return self + (-o)
        p = to_poly(o)
        if p is not None and p.is_zero():
            return self
        return NotImplemented

    def __rsub__(self, o):
        return (-self) + o

    def scale(self, s):
        s = to_poly(s)
        return LinComb({a: c * s for a, c in self.terms.items()})

    def coeff(self, atom):
        return self.terms.get(atom, Poly())

    def atoms(self):
        return list(self.terms)

    def __repr__(self):
        if not self.terms:
            return "<0>"
        return "<" + " + ".join("(%r)*%r" % (c, a) for a, c in sorted(self.terms.items(), key=lambda x: x[0].id)) + ">"


def canon(v):
    """Canonical hashable form of an argument of an uninterpreted callable."""
    if isinstance(v, LinComb):
        return v
    p = to_poly(v)
    if p is not None:
        return p
    if isinstance(v, tuple):
        return tuple(canon(x) for x in v)
    if isinstance(v, (str, type(None))):
        return v
    if isinstance(v, BlockVec):
        return v
    # arguments the polynomial domain cannot express (a z3 term such as min(c*h, h), a value the executor does not model): kept as
    # symbols of their own -- an application to them is then simply a *different* application from the one the specification names
    if isinstance(v, Opaque):
        return ("opaque", v.tag)
    try:
        import z3 as _z3
        if _z3.is_expr(v):
            return ("z3", v.sexpr())
    except Exception:
        pass
    raise TypeError("cannot canonicalise %r" % (v,))


class BlockVec(object):
    """A vector made of named blocks, each a LinComb (used for (q, p) split states)."""
    __slots__ = ("blocks",)

    def __init__(self, blocks):
        self.blocks = tuple(blocks)

    def __hash__(self):
        return hash(self.blocks)

    def __eq__(self, o):
        return isinstance(o, BlockVec) and self.blocks == o.blocks

    def _zip(self, o, f):
        if isinstance(o, BlockVec):
            return BlockVec(f(a, b) for a, b in zip(self.blocks, o.blocks))
        return NotImplemented

    def __add__(self, o):
        if isinstance(o, BlockVec):
            return BlockVec(a + b for a, b in zip(self.blocks, o.blocks))
        p = to_poly(o)
        if p is not None and p.is_zero():
            return self
        return NotImplemented

    __radd__ = __add__

    def __sub__(self, o):
        if isinstance(o, BlockVec):
            return BlockVec(a - b for a, b in zip(self.blocks, o.blocks))
        return NotImplemented

    def __neg__(self):
        return BlockVec(-a for a in self.blocks)

    def scale(self, s):
        if isinstance(s, BlockVec):      # element-wise product with a block mask of scalars
            return BlockVec(a.scale(b) if isinstance(a, LinComb) else b.scale(a) for a, b in zip(self.blocks, s.blocks))
        return BlockVec(a.scale(s) if isinstance(a, LinComb) else a * to_poly(s) for a in self.blocks)

    def __repr__(self):
        return "[" + " | ".join(repr(b) for b in self.blocks) + "]"


# ----------------------------------------------------------------------------------------------
# arrays, references, callables
# ----------------------------------------------------------------------------------------------
class SeqVal(object):
    """Immutable symbolic sequence: z3 array + z3 Int length."""
    __slots__ = ("arr", "length", "elem")

    def __init__(self, arr, length, elem="Real"):
        self.arr = arr
        self.length = length
        self.elem = elem

    @staticmethod
    def fresh(prefix, elem="Real"):
        srt = z3.RealSort() if elem == "Real" else z3.IntSort()
        return SeqVal(z3.Const(fresh_name(prefix), z3.ArraySort(z3.IntSort(), srt)), z3.Int(fresh_name(prefix + "_len")), elem)

    def __repr__(self):
        return "Seq(%s,len=%s)" % (self.arr, self.length)


class Ref(object):
    """Reference to a heap object."""
    __slots__ = ("oid",)

    def __init__(self, oid):
        self.oid = oid

    def __hash__(self):
        return hash(("Ref", self.oid))

    def __eq__(self, o):
        return isinstance(o, Ref) and o.oid == self.oid

    def __repr__(self):
        return "Ref(%d)" % self.oid


class HeapObj(object):
    __slots__ = ("cls", "fields", "items", "kind")

    def __init__(self, cls, kind="object", fields=None, items=None):
        self.cls = cls
        self.kind = kind          # 'object' | 'list' | 'dict'
        self.fields = fields if fields is not None else {}
        self.items = items        # python list (kind list) / dict (kind dict)

    def copy(self):
        it = self.items
        if isinstance(it, list):
            it = [list(r) for r in it] if self.kind == "matrix" else list(it)
        elif isinstance(it, dict):
            it = dict(it)
        f = dict(self.fields)
        if self.kind == "symlist":
            f["cols"] = dict(f["cols"])
        return HeapObj(self.cls, self.kind, f, it)


class Closure(object):
    __slots__ = ("node", "env", "cls", "selfval", "module")

    def __init__(self, node, env, cls=None, selfval=None, module=None):
        self.node = node      # ast.FunctionDef | ast.Lambda
        self.env = env        # enclosing env dict (shared: closures read enclosing locals late)
        self.cls = cls
        self.selfval = selfval
        self.module = module


class UFunc(object):
    """Uninterpreted user callable."""
    __slots__ = ("name", "mode", "may_raise", "attrs")

    def __init__(self, name, mode="real", may_raise=False, attrs=None):
        self.name = name
        self.mode = mode      # 'real' (z3 Real^n -> Real) | 'lincomb' | 'opaque'
        self.may_raise = may_raise
        self.attrs = attrs or {}

    def __repr__(self):
        return "UFunc(%s)" % self.name


class ModuleRef(object):
    __slots__ = ("path",)

    def __init__(self, path):
        self.path = path

    def __repr__(self):
        return "ModuleRef(%s)" % self.path


class BoundMethod(object):
    __slots__ = ("selfval", "name")

    def __init__(self, selfval, name):
        self.selfval = selfval
        self.name = name


class RangeIdx(object):
    """numpy.arange(lo, hi) used as an index array: the integers lo <= i < hi."""
    __slots__ = ("lo", "hi")

    def __init__(self, lo, hi):
        self.lo = lo
        self.hi = hi


class SuperProxy(object):
    """`super()` inside a method of class `after` on instance `selfval`: attribute lookup continues in the MRO after that class."""
    __slots__ = ("selfval", "after")

    def __init__(self, selfval, after):
        self.selfval = selfval
        self.after = after


class BoundFunc(object):
    """A specific function of the real source bound to a receiver (result of `super().name`): its real body is executed at the call."""
    __slots__ = ("selfval", "finfo")

    def __init__(self, selfval, finfo):
        self.selfval = selfval
        self.finfo = finfo


class Opaque(object):
    """A value the executor knows nothing about (havoc).  `deps`: when the value was produced by a pure (numpy) operation the executor
    does not interpret, the names of the input symbols it was computed from (None: unknown) -- enough for frame / data-flow clauses of
    the form "this quantity is a function of the arguments of this call only"."""
    __slots__ = ("tag", "deps")

    def __init__(self, tag="?", deps=None):
        self.tag = fresh_name(tag)
        self.deps = deps

    def __repr__(self):
        return "Opaque(%s)" % self.tag


class ExcVal(object):
    __slots__ = ("cls", "args", "cause", "tag")

    def __init__(self, cls, args=(), cause=None, tag=None):
        self.cls = cls
        self.args = args
        self.cause = cause
        self.tag = tag

    def __repr__(self):
        return "Exc(%s)" % self.cls


# ----------------------------------------------------------------------------------------------
# z3 helpers
# ----------------------------------------------------------------------------------------------
def is_z3(v):
    return isinstance(v, z3.ExprRef)


def is_symbolic_scalar(v):
    return is_z3(v) and not z3.is_array(v)


def is_concrete_num(v):
    return isinstance(v, (int, Fraction)) and not isinstance(v, bool) or isinstance(v, bool)


def to_z3(v):
    """Concrete or z3 scalar -> z3 term."""
    if is_z3(v):
        return v
    if isinstance(v, bool):
        return z3.BoolVal(v)
    if isinstance(v, int):
        return z3.IntVal(v)
    if isinstance(v, Fraction):
        return z3.Q(v.numerator, v.denominator)
    if isinstance(v, float):
        f = Fraction(v)
        return z3.Q(f.numerator, f.denominator)
    if isinstance(v, Poly):
        return v.to_z3()
    raise TypeError("not a scalar: %r" % (v,))


def to_real(v):
    t = to_z3(v)
    if z3.is_int(t):
        return z3.ToReal(t)
    if z3.is_bool(t):
        return z3.If(t, z3.RealVal(1), z3.RealVal(0))
    return t


def to_bool(v):
    if isinstance(v, bool):
        return z3.BoolVal(v)
    if is_z3(v):
        if z3.is_bool(v):
            return v
        return v != 0
    if isinstance(v, (int, Fraction)):
        return z3.BoolVal(v != 0)
    if v is None:
        return z3.BoolVal(False)
    raise TypeError("not a truth value: %r" % (v,))


def float_literal(x):
    """Python float literal -> exact Fraction of its shortest decimal repr (0.1 -> 1/10)."""
    if isinstance(x, float):
        if x != x or x in (float("inf"), float("-inf")):
            raise ValueError("non-finite literal")
        return Fraction(repr(x))
    return x


# ----------------------------------------------------------------------------------------------
# concrete-length vectors and coefficient tables (stage arrays, Butcher tables)
# ----------------------------------------------------------------------------------------------
class ConcVec(object):
    """Immutable vector of known length; items are scalars (Fraction/Poly/bool) or LinComb/BlockVec."""
    __slots__ = ("items",)

    def __init__(self, items):
        self.items = tuple(items)

    def __len__(self):
        return len(self.items)

    def __hash__(self):
        return hash(self.items)

    def __eq__(self, o):
        return isinstance(o, ConcVec) and self.items == o.items

    def __repr__(self):
        return "Vec[" + ", ".join(repr(x) for x in self.items) + "]"


class TabVal(object):
    """Concrete 2-D coefficient table (rows of Fractions)."""
    __slots__ = ("rows",)

    def __init__(self, rows):
        self.rows = tuple(tuple(r) for r in rows)

    @property
    def shape(self):
        return (len(self.rows), len(self.rows[0]) if self.rows else 0)

    def __repr__(self):
        return "Tab%dx%d" % self.shape


def deps_of(v, _depth=0):
    """Names of the symbols a value is built from, or None when that is not known."""
    if v is None or isinstance(v, (bool, int, Fraction, str, float)):
        return frozenset()
    if isinstance(v, Opaque):
        return v.deps if v.deps is not None else (frozenset([v.tag.split("!")[0]]) if v.tag.startswith(("stale", "sym:")) else None)
    if isinstance(v, Poly):
        return frozenset(sym for mono in v.terms for sym, _ in mono)
    if isinstance(v, LinComb):
        out = set()
        for a, c in v.terms.items():
            d = deps_of(c, _depth + 1)
            if d is None:
                return None
            out |= d
            if a.key[0] == "sym":
                out.add(a.key[1])
            else:
                for x in a.key[2:]:
                    d = deps_of(x, _depth + 1)
                    if d is None:
                        return None
                    out |= d
        return frozenset(out)
    if isinstance(v, BlockVec):
        return _union(deps_of(b, _depth + 1) for b in v.blocks)
    if isinstance(v, ConcVec):
        return _union(deps_of(b, _depth + 1) for b in v.items)
    if isinstance(v, tuple):
        return _union(deps_of(b, _depth + 1) for b in v)
    if is_z3(v):
        out, stack, seen = set(), [v], set()
        while stack:
            x = stack.pop()
            if x.get_id() in seen:
                continue
            seen.add(x.get_id())
            if z3.is_const(x) and x.decl().kind() == z3.Z3_OP_UNINTERPRETED:
                out.add(x.decl().name().split("!")[0])
            stack.extend(x.children())
        return frozenset(out)
    return None


def _union(ds):
    out = set()
    for d in ds:
        if d is None:
            return None
        out |= d
    return frozenset(out)
