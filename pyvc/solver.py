"""Obligation registry and SMT discharge (z3 python API first, z3 nlsat tactic and cvc5 CLI as fall-backs)."""
import os
import sys
import subprocess
import tempfile
import time
import z3

QUICK_TIMEOUT_MS = 10000
THOROUGH_TIMEOUT_MS = 60000


class Obligation(object):
    def __init__(self, name, kind, func, lineno=None):
        self.name = name
        self.kind = kind
        self.func = func
        self.lineno = lineno
        self.result = None        # 'unsat' (discharged) | 'sat' (refuted) | 'unknown'
        self.backend = None
        self.ms = 0.0
        self.model = None         # dict name -> str for 'sat'
        self.z3model = None
        self.smt2 = None
        self.detail = None
        self.expect = "unsat"     # cover obligations expect 'sat'
        self.region = None        # known-finding region this obligation was restricted by

    @property
    def discharged(self):
        return self.result == self.expect

    def to_json(self, with_smt=False):
        d = dict(id=self.name, kind=self.kind, function=self.func, result=self.result, expected=self.expect,
                 backend=self.backend, ms=round(self.ms, 2))
        if self.lineno is not None:
            d["line"] = self.lineno
        if self.region:
            d["restricted_to_complement_of"] = self.region
        if self.model is not None and self.result != self.expect:
            d["model"] = self.model
        if self.detail:
            d["detail"] = self.detail
        if with_smt and self.smt2:
            d["smt2"] = self.smt2
        return d


def _model_to_dict(m):
    out = {}
    for d in m.decls():
        try:
            v = str(m[d])
            out[d.name()] = v if len(v) <= 300 else v[:300] + '...'
        except Exception:
            pass
    return out


def _run_cvc5(smt2, timeout_ms):
    exe = "/usr/bin/cvc5"
    if not os.path.exists(exe):
        return "unknown"
    import re
    for name in _CVC5_RENAMES:
        smt2 = re.sub(r"(?<![\w.!])%s(?![\w.!])" % name, "uf_" + name, smt2)     # user-declared symbols that shadow cvc5's theory symbols
    with tempfile.NamedTemporaryFile("w", suffix=".smt2", delete=False) as f:
        f.write("(set-logic ALL)\n" + smt2 + "\n(check-sat)\n")
        path = f.name
    try:
        r = subprocess.run([exe, "--tlimit=%d" % timeout_ms, path], capture_output=True, text=True,
                           timeout=timeout_ms / 1000.0 + 5)
        out = r.stdout.strip().splitlines()
        return out[0].strip() if out else "unknown"
    except Exception:
        return "unknown"
    finally:
        os.unlink(path)


def _z3_cli():
    import shutil
    for exe in ("z3-new", "/usr/bin/z3", "z3"):
        p = shutil.which(exe) if not os.path.isabs(exe) else (exe if os.path.exists(exe) else None)
        if p:
            return p
    return None


_CVC5_RENAMES = ("arctan", "exp", "pow", "sin", "cos", "sqrt")


def _portfolio(smt2, wall_ms, seeds=(1, 2, 3, 4, 5, 6)):
    """The same query on several z3 processes that differ only in their random seed, plus cvc5: first definite answer wins.  Quantifier
    instantiation is sensitive to the seed (the same VC: 1 s with one seed, > 60 s with another), so a portfolio turns an `unknown`
    that depends on luck or on a busy machine into a stable verdict.  -> (result, backend)"""
    exe = _z3_cli()
    procs = []
    tmp = tempfile.mkdtemp(prefix="pyvc_portfolio_")
    try:
        path = os.path.join(tmp, "q.smt2")
        with open(path, "w") as f:
            f.write(smt2 + "\n(check-sat)\n")
        if exe:
            for sd in seeds:
                procs.append(("z3-cli(seed=%d)" % sd, subprocess.Popen([exe, "-T:%d" % max(1, int(wall_ms / 1000)), "smt.random_seed=%d" % sd, "sat.random_seed=%d" % sd, path],
                                                                        stdout=subprocess.PIPE, stderr=subprocess.DEVNULL, text=True)))
        if os.path.exists("/usr/bin/cvc5") and "pbeq" not in smt2:
            import re
            c5 = smt2
            for name in _CVC5_RENAMES:
                c5 = re.sub(r"(?<![\w.!])%s(?![\w.!])" % name, "uf_" + name, c5)
            cpath = os.path.join(tmp, "c.smt2")
            with open(cpath, "w") as f:
                f.write("(set-logic ALL)\n" + c5 + "\n(check-sat)\n")
            procs.append(("cvc5-cli", subprocess.Popen(["/usr/bin/cvc5", "--tlimit=%d" % int(wall_ms), cpath], stdout=subprocess.PIPE, stderr=subprocess.DEVNULL, text=True)))
        deadline = time.time() + wall_ms / 1000.0 + 2
        answer = ("unknown", None)
        live = list(procs)
        while live and time.time() < deadline and answer[0] == "unknown":
            for item in list(live):
                name, pr = item
                if pr.poll() is not None:
                    live.remove(item)
                    out = (pr.stdout.read() or "").strip().splitlines()
                    first = out[0].strip() if out else ""
                    if first in ("sat", "unsat"):
                        answer = (first, name)
                        break
            if answer[0] == "unknown" and live:
                time.sleep(0.05)
        return answer
    finally:
        for _, pr in procs:
            if pr.poll() is None:
                pr.kill()
            try:
                pr.stdout.close()
            except Exception:
                pass
        import shutil
        shutil.rmtree(tmp, ignore_errors=True)


def check_sat(assumptions, timeout_ms=QUICK_TIMEOUT_MS, want_model=True, try_fallbacks=True):
    """Return (result, backend, model, ms, smt2)."""
    t0 = time.time()
    s = z3.Solver()
    # a first, short in-process attempt (most obligations take milliseconds); what it leaves open goes to the seed portfolio below, which
    # has the full budget -- a hard query is then not paid for twice
    s.set("timeout", int(min(timeout_ms, 8000)) if try_fallbacks else int(timeout_ms))
    for a in assumptions:
        s.add(a)
    r = s.check()
    res = str(r)
    if os.environ.get("VERIF_DUMP_SLOW") and (time.time() - t0) > 4.0:
        try:
            os.makedirs(os.environ["VERIF_DUMP_SLOW"], exist_ok=True)
            with open(os.path.join(os.environ["VERIF_DUMP_SLOW"], "q%d_%s_%d.smt2" % (os.getpid(), res, int((time.time() - t0) * 1000))), "w") as f:
                f.write(s.to_smt2())
        except Exception:
            pass
    backend = "z3-%s" % z3.get_version_string()
    model = None
    if r == z3.sat and want_model:
        model = s.model()
    smt2 = None
    if res == "unknown" and try_fallbacks:
        # first fall-back: seed portfolio (parallel processes, first definite answer wins)
        smt2 = s.to_smt2().replace("(check-sat)", "")
        r0, b0 = _portfolio(smt2, int(timeout_ms) * 3)
        if r0 in ("sat", "unsat"):
            res, backend = r0, b0
            if r0 == "sat" and want_model:
                # a model for the replay: the same query in-process with the seed that answered (best effort)
                try:
                    sd = int(b0.split("seed=")[1].rstrip(")")) if "seed=" in b0 else 0
                    sm = z3.Solver()
                    sm.set("timeout", int(timeout_ms) * 2)
                    sm.set("random_seed", sd)
                    for a in assumptions:
                        sm.add(a)
                    if sm.check() == z3.sat:
                        model = sm.model()
                except Exception:
                    pass
    if res == "unknown" and try_fallbacks:
        # second opinion 1: nlsat tactic
        try:
            g = z3.Goal()
            for a in assumptions:
                g.add(a)
            t = z3.TryFor(z3.Then("simplify", "qfnra-nlsat"), int(timeout_ms))
            s2 = t.solver()
            for a in assumptions:
                s2.add(a)
            r2 = s2.check()
            if str(r2) != "unknown":
                res = str(r2)
                backend = "z3-nlsat"
                if r2 == z3.sat and want_model:
                    model = s2.model()
        except z3.Z3Exception:
            pass
    if res == "unknown" and try_fallbacks:
        smt2 = s.to_smt2().replace("(check-sat)", "")
        r3 = _run_cvc5(smt2, timeout_ms)
        if r3 in ("sat", "unsat"):
            res = r3
            backend = "cvc5-cli"
    if res == "unknown" and try_fallbacks:
        # last resort: the same query again with another random seed and three times the budget (verdicts must not flip to
        # 'undecided' because all cores happened to be busy)
        s4 = z3.Solver()
        s4.set("timeout", int(timeout_ms) * 3)
        s4.set("random_seed", 7)
        for a in assumptions:
            s4.add(a)
        r4 = s4.check()
        if str(r4) != "unknown":
            res = str(r4)
            backend = "z3-%s (retry)" % z3.get_version_string()
            if r4 == z3.sat and want_model:
                model = s4.model()
    ms = (time.time() - t0) * 1000.0
    return res, backend, model, ms, smt2


def _has_quantifier(e):
    seen = set()
    stack = [e]
    while stack:
        x = stack.pop()
        if x.get_id() in seen:
            continue
        seen.add(x.get_id())
        if z3.is_quantifier(x):
            return True
        stack.extend(x.children())
    return False


class FailFast(Exception):
    pass


class Registry(object):
    """Collects named obligations of one check run."""

    def __init__(self, timeout_ms=QUICK_TIMEOUT_MS):
        self.obligations = []
        self.timeout_ms = timeout_ms
        self.names = set()
        self.notes = []
        self.unmodelled = []      # (func, what) -- constructs havocked by the executor
        self.joint = True         # clauses of one path are first tried as one conjunction
        self.fail_fast = None     # (n_refuted, n_undischarged): stop generating obligations once that many have failed (set by jobs that
        #                           expect none to fail; a verdict needs one named failing obligation, not all of them)

    def unique(self, name):
        base = name
        k = 2
        while name in self.names:
            name = "%s~%d" % (base, k)
            k += 1
        self.names.add(name)
        return name

    def _check_fail_fast(self):
        if self.fail_fast:
            bad = [o for o in self.obligations if not o.discharged and o.kind != "cover"]
            if sum(1 for o in bad if o.result == "sat") >= self.fail_fast[0] or len(bad) >= self.fail_fast[1]:
                raise FailFast("stopped after %d refuted / %d undischarged obligations (fail-fast; the remaining obligations of this job were not generated)" % (
                    sum(1 for o in bad if o.result == "sat"), len(bad)))

    def _trace(self, ob):
        if os.environ.get("VERIF_TRACE"):
            sys.stderr.write("[ob] %-8s %-7s %6s ms  %s\n" % (ob.kind, ob.result, getattr(ob, "ms", "-"), ob.name))
            sys.stderr.flush()

    def prove(self, name, kind, func, pc, goal, lineno=None, region=None, keep_smt=False):
        ob = Obligation(self.unique(name), kind, func, lineno)
        ob.region = region
        res, backend, model, ms, smt2 = check_sat(list(pc) + [z3.Not(goal)], self.timeout_ms)
        ob.result, ob.backend, ob.ms = res, backend, ms
        if model is not None:
            ob.z3model = model
            ob.model = _model_to_dict(model)
        if keep_smt or res != "unsat":
            s = z3.Solver()
            for a in pc:
                s.add(a)
            s.add(z3.Not(goal))
            ob.smt2 = s.to_smt2()
        self._trace(ob)
        self.obligations.append(ob)
        if not ob.discharged:
            self._check_fail_fast()
        return ob

    def prove_all(self, items, func, pc):
        """items: [(name, kind, goal, lineno)].  One query for the conjunction first: if it is discharged every clause is (each gets its
        own obligation record, marked 'jointly'); otherwise each clause is asked on its own so that the failing one is named."""
        if len(items) <= 1 or not self.joint:
            return [self.prove(n, k, func, pc, g, lineno=ln) for (n, k, g, ln) in items]
        res, backend, model, ms, smt2 = check_sat(list(pc) + [z3.Not(z3.And(*[g for (_, _, g, _) in items]))], self.timeout_ms, want_model=False)
        if res != "unsat":
            return [self.prove(n, k, func, pc, g, lineno=ln) for (n, k, g, ln) in items]
        out = []
        for (n, k, g, ln) in items:
            ob = Obligation(self.unique(n), k, func, ln)
            ob.result, ob.backend, ob.ms = "unsat", backend + " (jointly with %d clauses of the same path)" % (len(items) - 1), ms / len(items)
            self._trace(ob)
            self.obligations.append(ob)
            out.append(ob)
        return out

    def cover(self, name, func, pc, lineno=None):
        """Reachability (vacuity) obligation: pc must be satisfiable."""
        ob = Obligation(self.unique(name), "cover", func, lineno)
        ob.expect = "sat"
        res, backend, model, ms, _ = check_sat(list(pc), min(self.timeout_ms, 5000), want_model=False, try_fallbacks=False)
        if res == "unknown":
            # model finding under quantified hypotheses is incomplete: fall back to the quantifier-free part of the path condition
            qf = [a for a in pc if not _has_quantifier(a)]
            res2, backend2, _, ms2, _ = check_sat(qf, self.timeout_ms, want_model=False, try_fallbacks=False)
            res, backend, ms = res2, backend2 + " (quantifier-free part)", ms + ms2
            ob.detail = "full path condition: unknown within 5 s; quantifier-free part: %s" % res2
        ob.result, ob.backend, ob.ms = res, backend, ms
        self._trace(ob)
        self.obligations.append(ob)
        return ob

    def ground(self, name, kind, func, ok, backend="exact-rational", detail=None, ms=0.0, model=None):
        """Obligation decided by exact arithmetic outside the SMT solver."""
        ob = Obligation(self.unique(name), kind, func)
        ob.result = "unsat" if ok else "sat"
        ob.backend = backend
        ob.detail = detail
        ob.ms = ms
        ob.model = model
        self._trace(ob)
        self.obligations.append(ob)
        return ob

    def undecided(self, name, kind, func, why):
        ob = Obligation(self.unique(name), kind, func)
        ob.result = "unknown"
        ob.backend = "executor"
        ob.detail = why
        self._trace(ob)
        self.obligations.append(ob)
        return ob

    def summary(self):
        tot = len(self.obligations)
        ok = sum(1 for o in self.obligations if o.discharged)
        refuted = [o for o in self.obligations if not o.discharged and o.result in ("sat", "unsat")]
        unknown = [o for o in self.obligations if o.result == "unknown"]
        return tot, ok, refuted, unknown
