"""Obligation registry and SMT discharge (z3 python API first, z3 nlsat tactic and cvc5 CLI as fall-backs)."""
import os
import sys
import subprocess
import tempfile
import time
import z3

QUICK_TIMEOUT_MS = 10000
THOROUGH_TIMEOUT_MS = 60000


class Obligation(object):
    def __init__(self, name, kind, func, lineno=None):
        self.name = name
        self.kind = kind
        self.func = func
        self.lineno = lineno
        self.result = None        # 'unsat' (discharged) | 'sat' (refuted) | 'unknown'
        self.backend = None
        self.ms = 0.0
        self.model = None         # dict name -> str for 'sat'
        self.z3model = None
        self.smt2 = None
        self.detail = None
        self.expect = "unsat"     # cover obligations expect 'sat'
        self.region = None        # known-finding region this obligation was restricted by

    @property
    def discharged(self):
        return self.result == self.expect

    def to_json(self, with_smt=False):
        d = dict(id=self.name, kind=self.kind, function=self.func, result=self.result, expected=self.expect,
                 backend=self.backend, ms=round(self.ms, 2))
        if self.lineno is not None:
            d["line"] = self.lineno
        if self.region:
            d["restricted_to_complement_of"] = self.region
        if self.model is not None and self.result != self.expect:
            d["model"] = self.model
        if self.detail:
            d["detail"] = self.detail
        if with_smt and self.smt2:
            d["smt2"] = self.smt2
        return d


def _model_to_dict(m):
    out = {}
    for d in m.decls():
        try:
            v = str(m[d])
            out[d.name()] = v if len(v) <= 300 else v[:300] + '...'
        except Exception:
            pass
    return out


def _run_cvc5(smt2, timeout_ms):
    exe = "/usr/bin/cvc5"
    if not os.path.exists(exe):
        return "unknown"
    with tempfile.NamedTemporaryFile("w", suffix=".smt2", delete=False) as f:
        f.write("(set-logic ALL)\n" + smt2 + "\n(check-sat)\n")
        path = f.name
    try:
        r = subprocess.run([exe, "--tlimit=%d" % timeout_ms, path], capture_output=True, text=True,
                           timeout=timeout_ms / 1000.0 + 5)
        out = r.stdout.strip().splitlines()
        return out[0].strip() if out else "unknown"
    except Exception:
        return "unknown"
    finally:
        os.unlink(path)


def check_sat(assumptions, timeout_ms=QUICK_TIMEOUT_MS, want_model=True, try_fallbacks=True):
    """Return (result, backend, model, ms, smt2)."""
    t0 = time.time()
    s = z3.Solver()
    s.set("timeout", int(timeout_ms))
    for a in assumptions:
        s.add(a)
    r = s.check()
    res = str(r)
    backend = "z3-%s" % z3.get_version_string()
    model = None
    if r == z3.sat and want_model:
        model = s.model()
    smt2 = None
    if res == "unknown" and try_fallbacks:
        # second opinion 1: nlsat tactic
        try:
            g = z3.Goal()
            for a in assumptions:
                g.add(a)
            t = z3.TryFor(z3.Then("simplify", "qfnra-nlsat"), int(timeout_ms))
            s2 = t.solver()
            for a in assumptions:
                s2.add(a)
            r2 = s2.check()
            if str(r2) != "unknown":
                res = str(r2)
                backend = "z3-nlsat"
                if r2 == z3.sat and want_model:
                    model = s2.model()
        except z3.Z3Exception:
            pass
    if res == "unknown" and try_fallbacks:
        smt2 = s.to_smt2().replace("(check-sat)", "")
        r3 = _run_cvc5(smt2, timeout_ms)
        if r3 in ("sat", "unsat"):
            res = r3
            backend = "cvc5-cli"
    if res == "unknown" and try_fallbacks:
        # last resort: the same query again with another random seed and three times the budget (verdicts must not flip to
        # 'undecided' because all cores happened to be busy)
        s4 = z3.Solver()
        s4.set("timeout", int(timeout_ms) * 3)
        s4.set("random_seed", 7)
        for a in assumptions:
            s4.add(a)
        r4 = s4.check()
        if str(r4) != "unknown":
            res = str(r4)
            backend = "z3-%s (retry)" % z3.get_version_string()
            if r4 == z3.sat and want_model:
                model = s4.model()
    ms = (time.time() - t0) * 1000.0
    return res, backend, model, ms, smt2


def _has_quantifier(e):
    seen = set()
    stack = [e]
    while stack:
        x = stack.pop()
        if x.get_id() in seen:
            continue
        seen.add(x.get_id())
        if z3.is_quantifier(x):
            return True
        stack.extend(x.children())
    return False


class FailFast(Exception):
    pass


class Registry(object):
    """Collects named obligations of one check run."""

    def __init__(self, timeout_ms=QUICK_TIMEOUT_MS):
        self.obligations = []
        self.timeout_ms = timeout_ms
        self.names = set()
        self.notes = []
        self.unmodelled = []      # (func, what) -- constructs havocked by the executor
        self.joint = True         # clauses of one path are first tried as one conjunction
        self.fail_fast = None     # (n_refuted, n_undischarged): stop generating obligations once that many have failed (set by jobs that
        #                           expect none to fail; a verdict needs one named failing obligation, not all of them)

    def unique(self, name):
        base = name
        k = 2
        while name in self.names:
            name = "%s~%d" % (base, k)
            k += 1
        self.names.add(name)
        return name

    def _check_fail_fast(self):
        if self.fail_fast:
            bad = [o for o in self.obligations if not o.discharged and o.kind != "cover"]
            if sum(1 for o in bad if o.result == "sat") >= self.fail_fast[0] or len(bad) >= self.fail_fast[1]:
                raise FailFast("stopped after %d refuted / %d undischarged obligations (fail-fast; the remaining obligations of this job were not generated)" % (
                    sum(1 for o in bad if o.result == "sat"), len(bad)))

    def _trace(self, ob):
        if os.environ.get("VERIF_TRACE"):
            sys.stderr.write("[ob] %-8s %-7s %6s ms  %s\n" % (ob.kind, ob.result, getattr(ob, "ms", "-"), ob.name))
            sys.stderr.flush()

    def prove(self, name, kind, func, pc, goal, lineno=None, region=None, keep_smt=False):
        ob = Obligation(self.unique(name), kind, func, lineno)
        ob.region = region
        res, backend, model, ms, smt2 = check_sat(list(pc) + [z3.Not(goal)], self.timeout_ms)
        ob.result, ob.backend, ob.ms = res, backend, ms
        if model is not None:
            ob.z3model = model
            ob.model = _model_to_dict(model)
        if keep_smt or res != "unsat":
            s = z3.Solver()
            for a in pc:
                s.add(a)
            s.add(z3.Not(goal))
            ob.smt2 = s.to_smt2()
        self._trace(ob)
        self.obligations.append(ob)
        if not ob.discharged:
            self._check_fail_fast()
        return ob

    def prove_all(self, items, func, pc):
        """items: [(name, kind, goal, lineno)].  One query for the conjunction first: if it is discharged every clause is (each gets its
        own obligation record, marked 'jointly'); otherwise each clause is asked on its own so that the failing one is named."""
        if len(items) <= 1 or not self.joint:
            return [self.prove(n, k, func, pc, g, lineno=ln) for (n, k, g, ln) in items]
        res, backend, model, ms, smt2 = check_sat(list(pc) + [z3.Not(z3.And(*[g for (_, _, g, _) in items]))], self.timeout_ms, want_model=False)
        if res != "unsat":
            return [self.prove(n, k, func, pc, g, lineno=ln) for (n, k, g, ln) in items]
        out = []
        for (n, k, g, ln) in items:
            ob = Obligation(self.unique(n), k, func, ln)
            ob.result, ob.backend, ob.ms = "unsat", backend + " (jointly with %d clauses of the same path)" % (len(items) - 1), ms / len(items)
            self._trace(ob)
            self.obligations.append(ob)
            out.append(ob)
        return out

    def cover(self, name, func, pc, lineno=None):
        """Reachability (vacuity) obligation: pc must be satisfiable."""
        ob = Obligation(self.unique(name), "cover", func, lineno)
        ob.expect = "sat"
        res, backend, model, ms, _ = check_sat(list(pc), min(self.timeout_ms, 5000), want_model=False, try_fallbacks=False)
        if res == "unknown":
            # model finding under quantified hypotheses is incomplete: fall back to the quantifier-free part of the path condition
            qf = [a for a in pc if not _has_quantifier(a)]
            res2, backend2, _, ms2, _ = check_sat(qf, self.timeout_ms, want_model=False, try_fallbacks=False)
            res, backend, ms = res2, backend2 + " (quantifier-free part)", ms + ms2
            ob.detail = "full path condition: unknown within 5 s; quantifier-free part: %s" % res2
        ob.result, ob.backend, ob.ms = res, backend, ms
        self._trace(ob)
        self.obligations.append(ob)
        return ob

    def ground(self, name, kind, func, ok, backend="exact-rational", detail=None, ms=0.0, model=None):
        """Obligation decided by exact arithmetic outside the SMT solver."""
        ob = Obligation(self.unique(name), kind, func)
        ob.result = "unsat" if ok else "sat"
        ob.backend = backend
        ob.detail = detail
        ob.ms = ms
        ob.model = model
        self._trace(ob)
        self.obligations.append(ob)
        return ob

    def undecided(self, name, kind, func, why):
        ob = Obligation(self.unique(name), kind, func)
        ob.result = "unknown"
        ob.backend = "executor"
        ob.detail = why
        self._trace(ob)
        self.obligations.append(ob)
        return ob

    def summary(self):
        tot = len(self.obligations)
        ok = sum(1 for o in self.obligations if o.discharged)
        refuted = [o for o in self.obligations if not o.discharged and o.result in ("sat", "unsat")]
        unknown = [o for o in self.obligations if o.result == "unknown"]
        return tot, ok, refuted, unknown
