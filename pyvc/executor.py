"""pyvc: forward symbolic executor / verification-condition generator over the Python AST of the real source.

One function at a time.  Calls to functions with a contract are replaced by
assert-requires / havoc / assume-ensures; loops are cut by sidecar invariants or unrolled when their
trip count is concrete; user callables are uninterpreted functions.  Every assert is a named obligation
in the Registry.  Anything not understood is havocked (recorded in registry.unmodelled) or, in strict
positions, raises Unsupported (the check then answers UNDECIDED, never VIOLATION).
"""
import ast
import os
import sys
import time
from fractions import Fraction
import z3

from .values import (Poly, LinComb, BlockVec, SeqVal, Ref, HeapObj, Closure, UFunc, ModuleRef, BoundMethod, Opaque, SuperProxy, BoundFunc, deps_of,
                     ExcVal, ConcVec, TabVal, fresh_name, is_z3, to_z3, to_real, to_bool, to_poly, float_literal)
from . import builtins as B


class Unsupported(Exception):
    pass


class Raised(object):
    """Marker value: evaluation raised."""
    __slots__ = ("exc",)

    def __init__(self, exc):
        self.exc = exc


class Contract(object):
    def __init__(self, file, func, sorts=None, requires=(), ensures=(), ensures_exc=(), loops=None, result=None,
                 lifted=False, may_raise=False, modifies=(), abstract=(), inline=False, assumed=False, serves=(),
                 short=None, ghost=None, exc_kinds=("Exception",), pure=False, param_names=None):
        self.file = file
        self.func = func
        self.short = short or func.split(".")[-1]
        self.sorts = sorts or {}
        self.requires = list(requires)
        self.ensures = list(ensures)
        self.ensures_exc = list(ensures_exc)
        self.loops = loops or {}
        self.result = result
        self.lifted = lifted
        self.may_raise = may_raise
        self.modifies = list(modifies)
        self.abstract = set(abstract)
        self.inline = inline
        self.assumed = assumed
        self.serves = list(serves)
        self.ghost = ghost
        self.exc_kinds = exc_kinds
        self.pure = pure
        self.param_names = param_names


class State(object):
    __slots__ = ("env", "heap", "pc", "ghost", "next_oid", "trace")

    def __init__(self):
        self.env = {}
        self.heap = {}
        self.pc = []
        self.ghost = {}
        self.next_oid = [1]
        self.trace = []

    def fork(self):
        s = State()
        s.env = dict(self.env)
        s.heap = {k: v.copy() for k, v in self.heap.items()}
        s.pc = list(self.pc)
        s.ghost = {k: (list(v) if isinstance(v, list) else v) for k, v in self.ghost.items()}
        s.next_oid = self.next_oid
        s.trace = list(self.trace)
        return s

    def new_obj(self, cls, kind="object", fields=None, items=None):
        oid = self.next_oid[0]
        self.next_oid[0] += 1
        self.heap[oid] = HeapObj(cls, kind, fields or {}, items)
        return Ref(oid)

    def obj(self, ref):
        return self.heap[ref.oid]

    def assume(self, f):
        if isinstance(f, bool):
            if not f:
                self.pc.append(z3.BoolVal(False))
            return
        self.pc.append(f)


class Ctx(object):
    """Per-activation context."""

    def __init__(self, finfo, contract=None, cls=None, lifted=False, spec=False, depth=0, entry=None, tag=None):
        self.finfo = finfo
        self.contract = contract
        self.cls = cls
        self.lifted = lifted
        self.spec = spec
        self.depth = depth
        self.entry = entry
        self.loop_counter = [0]
        self.tag = tag or (finfo.qualname if finfo else "?")
        self.globals = None

    def child_spec(self):
        c = Ctx(self.finfo, self.contract, self.cls, self.lifted, True, self.depth, self.entry, self.tag)
        c.loop_counter = self.loop_counter
        return c


def _has_quantifier(e):
    seen = set()
    stack = [e]
    while stack:
        x = stack.pop()
        if x.get_id() in seen:
            continue
        seen.add(x.get_id())
        if z3.is_quantifier(x):
            return True
        stack.extend(x.children())
    return False


_EXC_BASE = {"KeyboardInterrupt": "BaseException", "Exception": "BaseException", "ValueError": "Exception",
             "TypeError": "Exception", "IndexError": "LookupError", "KeyError": "LookupError",
             "LookupError": "Exception", "AssertionError": "Exception", "MemoryError": "Exception",
             "RecursionError": "RuntimeError", "RuntimeError": "Exception", "ArithmeticError": "Exception",
             "ZeroDivisionError": "ArithmeticError", "FailedIntegration": "Exception",
             "FailedToMeetTolerances": "FailedIntegration", "LinAlgError": "ValueError",
             "AnyException": "Exception", "AttributeError": "Exception", "NotImplementedError": "RuntimeError"}


def exc_is_subclass(name, base):
    while name is not None:
        if name == base:
            return True
        name = _EXC_BASE.get(name)
    return False


class Executor(object):
    MAX_DEPTH = 12

    def __init__(self, sources, registry, contracts=None, prop="C??", strict=False):
        self.src = sources
        self.reg = registry
        self.contracts = contracts or {}      # short callee name -> Contract
        self.prop = prop
        self.strict = strict
        self.eps = z3.Real("eps")             # D.epsilon(dtype): symbolic machine epsilon, > 0
        self.global_axioms = [self.eps > 0, self.eps < 1]
        self.inline = set()                   # short names of repo functions that may be inlined
        self.handlers = dict(B.TABLE)         # dotted name -> handler
        self.aliases = dict(B.ALIASES)
        self.uf_cache = {}
        self.call_hooks = {}                  # short name -> python callable(ex, st, ctx, args, kwargs) -> value | [(st,val)]
        self.path_limit = 4000
        self.paths_seen = 0
        self.feas_timeout = 2000
        self._hasq_cache = {}
        self.feas_quantified = True
        self.modular_loops = False
        self.opaque_nondet = False
        self._for_covers = {}
        self._loops_done = set()
        self.stats = dict(feasibility_checks=0, paths=0)
        self._module_state_cache = {}
        self.module_reads = []                # (container name, key value) of reads from module-level containers
        self.module_stores = []               # (container name, key value, stored value)
        self.inline_private_methods = False   # opt-in: private methods without a contract are executed in place
        self.local_classes = False            # opt-in: class statements inside functions bind a record of the class and its closure
        self.annihilations = None             # opt-in: list of (array operand, line) multiplied by the constant zero
        self.cmp_log = {}                     # name of the fresh boolean of an unmodelled comparison -> (op, left, right)
        self.dtype_tags = {}                  # id(value) -> (tag, value): opt-in provenance of an array's dtype (`x.dtype` then names the tag)
        self.borrowed = {}                    # id(value object) -> description: arrays the caller of the verified function still holds

    # ------------------------------------------------------------------------------------------
    # helpers
    # ------------------------------------------------------------------------------------------
    def note_unmodelled(self, ctx, what):
        self.reg.unmodelled.append((ctx.tag, what))
        if self.strict:
            raise Unsupported("%s: %s" % (ctx.tag, what))

    def feasible(self, st, cond=None):
        """May the path be feasible?  `unsat` prunes the path; anything else keeps it (sound: a kept infeasible path only adds
        obligations that hold vacuously).  Quantified hypotheses make `sat` answers slow and rare, so the quantifier-free
        part is asked first and the full path condition only briefly."""
        self.stats["feasibility_checks"] += 1
        t0 = time.time()
        pcs = list(self.global_axioms) + list(st.pc) + ([cond] if cond is not None else [])
        qf, quantified = [], False
        for a in pcs:
            k = a.get_id()
            hq = self._hasq_cache.get(k)
            if hq is None:
                hq = self._hasq_cache[k] = _has_quantifier(a)
            if hq:
                quantified = True
            else:
                qf.append(a)
        s = z3.Solver()
        s.set("timeout", self.feas_timeout)
        for a in qf:
            s.add(a)
        r = s.check()
        if r != z3.unsat and quantified and self.feas_quantified:
            s = z3.Solver()
            s.set("timeout", min(self.feas_timeout, 400))
            for a in pcs:
                s.add(a)
            r = s.check()
        dt = time.time() - t0
        self.stats["feasibility_s"] = self.stats.get("feasibility_s", 0.0) + dt
        if dt > 1.0 and os.environ.get("VERIF_TRACE"):
            sys.stderr.write("[feas] %s %.1f s\n" % (r, dt))
        return r != z3.unsat

    def entailed_branch(self, st, g):
        """(may g hold, may not-g hold) on this path, for deciding the guard of an unrolled loop.  The small quantifier-free facts that
        share a variable with the guard are asked first (fast, and immune to a busy machine); the full path condition only if they leave
        both outcomes open."""
        def names(e, acc):
            stack, seen = [e], set()
            while stack:
                x = stack.pop()
                if x.get_id() in seen:
                    continue
                seen.add(x.get_id())
                if z3.is_const(x) and x.decl().kind() == z3.Z3_OP_UNINTERPRETED:
                    acc.add(x.decl().name())
                stack.extend(x.children())
            return acc
        gv = names(g, set())
        small = []
        for a in list(self.global_axioms) + list(st.pc):
            k = a.get_id()
            hq = self._hasq_cache.get(k)
            if hq is None:
                hq = self._hasq_cache[k] = _has_quantifier(a)
            if not hq and len(a.sexpr()) < 600 and (names(a, set()) & gv):
                small.append(a)
        res = []
        for goal in (g, z3.Not(g)):
            s = z3.Solver()
            s.set("timeout", 5000)
            for a in small:
                s.add(a)
            s.add(goal)
            r = s.check()
            if r != z3.unsat:
                r = z3.sat if self.feasible(st, goal) else z3.unsat
            res.append(r != z3.unsat)
        return tuple(res)

    def mangle(self, name, ctx):
        if name.startswith("__") and not name.endswith("__") and ctx.cls is not None:
            return "_%s%s" % (ctx.cls.name.lstrip("_"), name)
        return name

    def uf(self, name, arity, rng="Real"):
        key = (name, arity, rng)
        if key not in self.uf_cache:
            srt = z3.RealSort() if rng == "Real" else (z3.IntSort() if rng == "Int" else z3.BoolSort())
            self.uf_cache[key] = z3.Function(name, *([z3.RealSort()] * arity + [srt]))
        return self.uf_cache[key]

    def fresh(self, sort, prefix="v"):
        if sort == "Int":
            return z3.Int(fresh_name(prefix))
        if sort == "Real":
            return z3.Real(fresh_name(prefix))
        if sort == "Bool":
            return z3.Bool(fresh_name(prefix))
        if sort in ("Seq[Real]", "Seq"):
            return SeqVal.fresh(prefix, "Real")
        if sort == "Seq[Int]":
            return SeqVal.fresh(prefix, "Int")
        if sort == "Opaque":
            return Opaque(prefix)
        raise Unsupported("fresh of sort %r" % (sort,))

    def havoc_like(self, v, prefix="h"):
        if isinstance(v, ExcVal):
            return v          # exception objects are only ever replaced, never mutated
        if isinstance(v, bool):
            return z3.Bool(fresh_name(prefix))
        if isinstance(v, int):
            return z3.Int(fresh_name(prefix))
        if isinstance(v, Fraction):
            return z3.Real(fresh_name(prefix))
        if is_z3(v):
            if z3.is_bool(v):
                return z3.Bool(fresh_name(prefix))
            if z3.is_int(v):
                return z3.Int(fresh_name(prefix))
            if z3.is_real(v):
                return z3.Real(fresh_name(prefix))
        if isinstance(v, SeqVal):
            return SeqVal.fresh(prefix, v.elem)
        if isinstance(v, ConcVec):
            return ConcVec(self.havoc_like(x, prefix) for x in v.items)
        return Opaque(prefix)

    def prove_many(self, st, ctx, items):
        """items: [(goal, kind, label, lineno)] -- all on the same state; tried as one conjunction first (pyvc/solver.Registry.prove_all)."""
        pc = self.global_axioms + st.pc
        obs = self.reg.prove_all([("%s/%s/%s" % (self.prop, ctx.tag, label), kind, to_bool(goal), lineno) for (goal, kind, label, lineno) in items], ctx.tag, pc)
        for ob in obs:
            ob.state = st
        return obs

    def prove(self, st, ctx, goal, kind, label, lineno=None, region=None):
        name = "%s/%s/%s" % (self.prop, ctx.tag, label)
        pc = self.global_axioms + st.pc
        if region is not None:
            pc = pc + [z3.Not(region[1])]
        g = to_bool(goal)
        ob = self.reg.prove(name, kind, ctx.tag, pc, g, lineno=lineno, region=region[0] if region else None)
        ob.state = st
        return ob

    # ------------------------------------------------------------------------------------------
    # spec expressions
    # ------------------------------------------------------------------------------------------
    def eval_spec(self, text, st, ctx, extra=None):
        """Evaluate a contract clause (python expression text) to a z3 Bool / value, no forking."""
        node = ast.parse(text, mode="eval").body
        sctx = ctx.child_spec()
        saved = st.env
        if extra:
            st.env = dict(st.env)
            st.env.update(extra)
        try:
            res = self.eval(node, st, sctx)
        except Exception as e:
            if not getattr(e, "_spec_noted", False):
                e._spec_noted = True
                e.args = (("%s [while evaluating the clause: %s]" % (e.args[0] if e.args else "", text)),) + tuple(e.args[1:])
            raise
        finally:
            st.env = saved
        if len(res) != 1:
            raise Unsupported("spec expression forked: %s" % text)
        v = res[0][1]
        if isinstance(v, Raised):
            raise Unsupported("spec expression raised: %s" % text)
        return v

    # ------------------------------------------------------------------------------------------
    # expressions
    # ------------------------------------------------------------------------------------------
    def eval(self, node, st, ctx):
        """-> list of (state, value | Raised)"""
        m = getattr(self, "e_" + type(node).__name__, None)
        if m is None:
            raise Unsupported("expression %s at line %s" % (type(node).__name__, getattr(node, "lineno", "?")))
        return m(node, st, ctx)

    def eval1(self, node, st, ctx):
        """Evaluate an expression that must not fork."""
        r = self.eval(node, st, ctx)
        if len(r) != 1:
            raise Unsupported("unexpected fork in %s" % ast.unparse(node))
        return r[0][1]

    def eval_list(self, nodes, st, ctx):
        """Evaluate expressions left-to-right -> list of (state, [values] | Raised)."""
        results = [(st, [])]
        for n in nodes:
            nxt = []
            for s, vals in results:
                if isinstance(vals, Raised):
                    nxt.append((s, vals))
                    continue
                for s2, v in self.eval(n, s, ctx):
                    if isinstance(v, Raised):
                        nxt.append((s2, v))
                    else:
                        nxt.append((s2, vals + [v]))
            results = nxt
        return results

    def e_Constant(self, node, st, ctx):
        v = node.value
        if isinstance(v, float):
            v = float_literal(v)
        return [(st, v)]

    def e_Name(self, node, st, ctx):
        name = node.id
        if name in st.env:
            return [(st, st.env[name])]
        if name in ("True", "False", "None"):
            return [(st, {"True": True, "False": False, "None": None}[name])]
        if ctx.spec and name == "eps":
            return [(st, self.eps)]
        # closure environments are resolved by call(); module-level names become ModuleRefs
        return [(st, ModuleRef(self.aliases.get(name, name)))]

    def e_JoinedStr(self, node, st, ctx):
        return [(st, "<fstring>")]

    def e_Tuple(self, node, st, ctx):
        out = []
        if any(isinstance(e, ast.Starred) for e in node.elts):
            return self._starred_seq(node.elts, st, ctx, tuple)
        for s, vals in self.eval_list(node.elts, st, ctx):
            out.append((s, vals if isinstance(vals, Raised) else tuple(vals)))
        return out

    def _starred_seq(self, elts, st, ctx, mk):
        res = [(st, [])]
        for e in elts:
            nxt = []
            for s, vals in res:
                if isinstance(vals, Raised):
                    nxt.append((s, vals))
                    continue
                if isinstance(e, ast.Starred):
                    for s2, v in self.eval(e.value, s, ctx):
                        if isinstance(v, Raised):
                            nxt.append((s2, v))
                        else:
                            nxt.append((s2, vals + list(self.iterate(v, s2, ctx))))
                else:
                    for s2, v in self.eval(e, s, ctx):
                        nxt.append((s2, v if isinstance(v, Raised) else vals + [v]))
            res = nxt
        out = []
        for s, vals in res:
            if isinstance(vals, Raised):
                out.append((s, vals))
            elif mk is tuple:
                out.append((s, tuple(vals)))
            else:
                out.append((s, s.new_obj("list", "list", items=list(vals))))
        return out

    def e_List(self, node, st, ctx):
        if any(isinstance(e, ast.Starred) for e in node.elts):
            return self._starred_seq(node.elts, st, ctx, list)
        out = []
        for s, vals in self.eval_list(node.elts, st, ctx):
            if isinstance(vals, Raised):
                out.append((s, vals))
            else:
                out.append((s, s.new_obj("list", "list", items=list(vals))))
        return out

    def e_Dict(self, node, st, ctx):
        out = []
        keys = [k for k in node.keys]
        for s, kv in self.eval_list([k for k in keys if k is not None] + list(node.values), st, ctx):
            if isinstance(kv, Raised):
                out.append((s, kv))
                continue
            n = len([k for k in keys if k is not None])
            ks, vs = kv[:n], kv[n:]
            d = {}
            ki = 0
            for k, v in zip(keys, vs):
                if k is None:
                    d.update(s.obj(v).items)
                else:
                    d[ks[ki]] = v
                    ki += 1
            out.append((s, s.new_obj("dict", "dict", items=d)))
        return out

    def e_Set(self, node, st, ctx):
        out = []
        for s, vals in self.eval_list(node.elts, st, ctx):
            out.append((s, vals if isinstance(vals, Raised) else frozenset(vals)))
        return out

    def e_Lambda(self, node, st, ctx):
        return [(st, Closure(node, st.env, ctx.cls, None, ctx.finfo))]

    def e_Attribute(self, node, st, ctx):
        out = []
        for s, v in self.eval(node.value, st, ctx):
            if isinstance(v, Raised):
                out.append((s, v))
                continue
            out.extend(self.getattr(v, self.mangle(node.attr, ctx), s, ctx, node))
        return out

    def getattr(self, v, attr, st, ctx, node=None):
        if isinstance(v, SuperProxy):
            inst_cls = st.obj(v.selfval).cls if isinstance(v.selfval, Ref) else v.after
            mro = self.src.mro(inst_cls)
            names = [c.name for c in mro]
            rest = mro[names.index(v.after) + 1:] if v.after in names else []
            for ci in rest:
                if attr in ci.methods:
                    return [(st, BoundFunc(v.selfval, ci.methods[attr]))]
            raise Unsupported("super().%s: no definition after %s in the MRO of %s" % (attr, v.after, inst_cls))
        if isinstance(v, ModuleRef):
            path = v.path + "." + attr
            path = self.aliases.get(path, path)
            c = B.CONSTANTS.get(path)
            if c is not None:
                return [(st, c(self) if callable(c) else c)]
            return [(st, ModuleRef(path))]
        if isinstance(v, Ref):
            o = st.obj(v)
            if o.kind == "stages" and attr == "shape":
                return [(st, ("state_shape", len(o.items)))]
            if o.kind == "dictview":
                return [(st, BoundMethod(v, attr))]
            if o.kind == "object":
                if attr in o.fields:
                    return [(st, o.fields[attr])]
                if attr == "__class__":
                    return [(st, ModuleRef("class:" + o.cls))]
                if attr == "__dict__":
                    return [(st, st.new_obj("dictview", "dictview", fields={"target": v}))]
                fi = self.src.find_method(o.cls, attr)
                if fi is None and attr.startswith("_") and "__" in attr[1:]:
                    un = attr[attr.index("__", 1):]
                    fi = self.src.find_method(o.cls, un)
                    if fi is not None:
                        attr = un
                if fi is not None:
                    if fi.is_property:
                        return self.call_function(fi, [v], {}, st, ctx, node)
                    return [(st, BoundMethod(v, attr))]
                if "%s.%s" % (o.cls, attr) in self.call_hooks:
                    return [(st, BoundMethod(v, attr))]
                ci, expr = self.src.find_class_attr(o.cls, attr)
                if expr is None and attr.startswith("_") and "__" in attr[1:]:
                    ci, expr = self.src.find_class_attr(o.cls, attr[attr.index("__", 1):])
                if expr is not None:
                    return self.eval(expr, st, Ctx(None, None, ci, tag=ctx.tag))
                ga = self.src.find_method(o.cls, "__getattr__")
                if ga is not None and not ctx.spec:
                    return self.call_function(ga, [v, attr], {}, st, ctx, node)
                hook = self.call_hooks.get("getattr:" + o.cls)
                if hook is not None:
                    return [(st, hook(self, st, ctx, v, attr))]
                self.note_unmodelled(ctx, "attribute %s.%s unknown" % (o.cls, attr))
                val = Opaque(attr)
                o.fields[attr] = val
                return [(st, val)]
            return [(st, BoundMethod(v, attr))]
        if isinstance(v, slice) and attr in ("start", "stop", "step"):
            return [(st, getattr(v, attr))]
        if isinstance(v, TabVal) and attr == "shape":
            return [(st, v.shape)]
        if isinstance(v, ConcVec) and attr == "shape":
            return [(st, (len(v),))]
        if isinstance(v, UFunc):
            if attr in v.attrs:
                return [(st, v.attrs[attr])]
            return [(st, BoundMethod(v, attr))]
        if isinstance(v, SeqVal):
            if attr == "shape":
                return [(st, (v.length,))]
            if attr == "dtype":
                return [(st, "dtype:" + self.dtype_tags[id(v)][0] if id(v) in self.dtype_tags else "dtype")]
            return [(st, BoundMethod(v, attr))]
        if attr == "dtype":
            return [(st, "dtype:" + self.dtype_tags[id(v)][0] if id(v) in self.dtype_tags else "dtype")]
        if attr == "shape" and (is_z3(v) or isinstance(v, (int, Fraction, LinComb, BlockVec))):
            # element-wise lifting: the element is slot 0 of a length-1 view of the vector
            return [(st, (1,) if ctx.lifted else ())]
        if isinstance(v, ExcVal) and attr == "__cause__":
            return [(st, v.cause)]
        if attr == "mT" or attr == "T":
            return [(st, v)]
        return [(st, BoundMethod(v, attr))]

    def e_BoolOp(self, node, st, ctx):
        is_and = isinstance(node.op, ast.And)
        # python semantics: value of the deciding operand; fork on symbolic operands unless in spec mode
        def go(i, s):
            rs = []
            for s1, v in self.eval(node.values[i], s, ctx):
                if not isinstance(v, Raised):
                    v = self.cond(v, s1)
                if isinstance(v, Raised) or i == len(node.values) - 1:
                    rs.append((s1, v))
                    continue
                if is_z3(v):
                    b = to_bool(v)
                    if ctx.spec or ctx.lifted or not _has_call(node.values[i + 1:]):
                        for s2, rest in go(i + 1, s1):
                            if isinstance(rest, Raised):
                                rs.append((s2, rest))
                            else:
                                rb = to_bool(rest)
                                rs.append((s2, z3.And(b, rb) if is_and else z3.Or(b, rb)))
                        continue
                    # fork
                    dec = z3.Not(b) if is_and else b       # operand decides
                    sd = s1.fork()
                    sd.assume(dec)
                    if self.feasible(sd):
                        rs.append((sd, z3.BoolVal(not is_and)))
                    sc = s1
                    sc.assume(z3.Not(dec))
                    if self.feasible(sc):
                        rs.extend(go(i + 1, sc))
                    continue
                truth = self.truth(v, s1)
                if truth == (not is_and):
                    rs.append((s1, v))
                else:
                    rs.extend(go(i + 1, s1))
            return rs
        return go(0, st)

    def cond(self, v, st):
        """Truth value of a python object that may be symbolic: a symbolic-length list is true iff its length is positive."""
        if isinstance(v, Ref) and st.obj(v).kind == "symlist":
            return st.obj(v).fields["len"] > 0
        if isinstance(v, Opaque) and self.opaque_nondet:
            # a condition computed from values the executor does not model: either outcome (the same one whenever it is tested again)
            return z3.Bool("nondet_" + v.tag)
        return v

    def truth(self, v, st):
        """Concrete python truthiness (caller guarantees v is not a z3 term)."""
        if isinstance(v, Ref):
            o = st.obj(v)
            if o.kind in ("list", "dict"):
                return len(o.items) > 0
            return True
        if isinstance(v, (Closure, UFunc, ModuleRef, BoundMethod)):
            return True
        if isinstance(v, Opaque):
            raise Unsupported("truth value of opaque %r" % v)
        if isinstance(v, LinComb):
            raise Unsupported("truth value of LinComb")
        if isinstance(v, Poly):
            if v.is_const():
                return v.const_value() != 0
            raise Unsupported("truth of symbolic Poly %r" % v)
        return bool(v)

    def e_UnaryOp(self, node, st, ctx):
        out = []
        for s, v in self.eval(node.operand, st, ctx):
            if isinstance(v, Raised):
                out.append((s, v))
            elif isinstance(v, ConcVec) and isinstance(node.op, (ast.Invert, ast.USub)):
                out.append((s, ConcVec((not x) if isinstance(node.op, ast.Invert) else B.neg(x) for x in v.items)))
            elif isinstance(node.op, ast.Not):
                v = self.cond(v, s)
                out.append((s, z3.Not(to_bool(v)) if is_z3(v) else (not self.truth(v, s))))
            elif isinstance(node.op, ast.USub):
                out.append((s, B.neg(v)))
            elif isinstance(node.op, ast.UAdd):
                out.append((s, v))
            elif isinstance(node.op, ast.Invert):
                out.append((s, z3.Not(to_bool(v)) if is_z3(v) else (not v if isinstance(v, bool) else ~v)))
            else:
                raise Unsupported("unary op")
        return out

    def e_BinOp(self, node, st, ctx):
        out = []
        for s, vals in self.eval_list([node.left, node.right], st, ctx):
            if isinstance(vals, Raised):
                out.append((s, vals))
                continue
            out.append((s, self.binop(node.op, vals[0], vals[1], s, ctx, node)))
        return out

    def is_module_state(self, name, ctx):
        """Is `name` a module-level variable of the file under verification that is bound to a mutable container literal / constructor?"""
        if ctx.finfo is None or "." in name:
            return False
        key = (ctx.finfo.file, name)
        if key not in self._module_state_cache:
            found = False
            tree = self.src.load(ctx.finfo.file)[1]
            for node in (tree.body if tree is not None else []):
                if isinstance(node, ast.Assign) and any(isinstance(t, ast.Name) and t.id == name for t in node.targets):
                    v = node.value
                    found = isinstance(v, (ast.Dict, ast.List, ast.Set)) or (isinstance(v, ast.Call) and isinstance(v.func, ast.Name) and v.func.id in ("dict", "list", "set", "OrderedDict", "defaultdict"))
            self._module_state_cache[key] = found
        return self._module_state_cache[key]

    def binop(self, op, a, b, st, ctx, node=None):
        if self.annihilations is not None and type(op).__name__ == "Mult":
            # `x * 0` equals 0 over the reals (A1) but not in IEEE arithmetic (nan * 0 = inf * 0 = nan): harnesses that hand in buffers left
            # by earlier calls ask which array-valued operands were "cleared" this way
            for x, z in ((a, b), (b, a)):
                zero = (isinstance(z, (int, float, Fraction)) and not isinstance(z, bool) and z == 0) or (isinstance(z, Poly) and z.is_const() and z.const_value() == 0)
                if zero and isinstance(x, (LinComb, BlockVec, ConcVec, SeqVal)):
                    self.annihilations.append((x, getattr(node, "lineno", 0)))
        try:
            return B.binop(self, type(op).__name__, a, b, st, ctx)
        except B.Havoc as h:
            self.note_unmodelled(ctx, "binop %s on %r, %r (%s)" % (type(op).__name__, _short(a), _short(b), h))
            return Opaque("binop")

    def e_Compare(self, node, st, ctx):
        out = []
        for s, vals in self.eval_list([node.left] + list(node.comparators), st, ctx):
            if isinstance(vals, Raised):
                out.append((s, vals))
                continue
            parts = []
            for i, op in enumerate(node.ops):
                parts.append(B.compare(self, type(op).__name__, vals[i], vals[i + 1], s, ctx))
            if len(parts) == 1:
                out.append((s, parts[0]))
            elif all(isinstance(p, bool) for p in parts):
                out.append((s, all(parts)))
            else:
                out.append((s, z3.And(*[to_bool(p) for p in parts])))
        return out

    def e_IfExp(self, node, st, ctx):
        out = []
        for s, c in self.eval(node.test, st, ctx):
            if isinstance(c, Raised):
                out.append((s, c))
                continue
            if is_z3(c):
                cb = to_bool(c)
                if ctx.spec:
                    a = self.eval1(node.body, s, ctx)
                    b = self.eval1(node.orelse, s, ctx)
                    out.append((s, B.ite(cb, a, b)))
                    continue
                s1 = s.fork()
                s1.assume(cb)
                if self.feasible(s1):
                    out.extend(self.eval(node.body, s1, ctx))
                s.assume(z3.Not(cb))
                if self.feasible(s):
                    out.extend(self.eval(node.orelse, s, ctx))
            else:
                out.extend(self.eval(node.body if self.truth(c, s) else node.orelse, s, ctx))
        return out

    def e_Subscript(self, node, st, ctx):
        out = []
        for s, v in self.eval(node.value, st, ctx):
            if isinstance(v, Raised):
                out.append((s, v))
                continue
            for s2, idx in self.eval_index(node.slice, s, ctx):
                if isinstance(idx, Raised):
                    out.append((s2, idx))
                    continue
                if isinstance(v, Ref) and s2.obj(v).kind == "object" and ("getitem:" + s2.obj(v).cls) not in self.call_hooks and \
                        (self.src.find_method(s2.obj(v).cls, "__getitem__") is not None or ("%s.__getitem__" % s2.obj(v).cls) in self.contracts):
                    out.extend(self.call_method(BoundMethod(v, "__getitem__"), [idx], {}, s2, ctx, node))
                    continue
                try:
                    out.append((s2, self.subscript(v, idx, s2, ctx, node)))
                except B.OutOfBounds as oob:
                    sr = s2.fork()
                    sr.assume(z3.Not(oob.cond))
                    if self.feasible(sr):
                        out.append((sr, Raised(ExcVal("IndexError", tag="numpy-index"))))
                    s2.assume(oob.cond)
                    if self.feasible(s2):
                        out.append((s2, self.subscript(v, idx, s2, ctx, node)))
        return out

    def eval_index(self, sl, st, ctx):
        if isinstance(sl, ast.Slice):
            parts = [sl.lower, sl.upper, sl.step]
            res = [(st, [])]
            for p in parts:
                nxt = []
                for s, vals in res:
                    if p is None:
                        nxt.append((s, vals + [None]))
                    else:
                        for s2, v in self.eval(p, s, ctx):
                            nxt.append((s2, v if isinstance(v, Raised) else vals + [v]))
                res = nxt
            return [(s, v if isinstance(v, Raised) else slice(*v)) for s, v in res]
        if isinstance(sl, ast.Tuple):
            res = [(st, [])]
            for e in sl.elts:
                nxt = []
                for s, vals in res:
                    for s2, v in self.eval_index(e, s, ctx):
                        nxt.append((s2, v if isinstance(v, Raised) else vals + [v]))
                res = nxt
            return [(s, v if isinstance(v, Raised) else tuple(v)) for s, v in res]
        return self.eval(sl, st, ctx)

    def subscript(self, v, idx, st, ctx, node=None):
        if isinstance(v, ModuleRef):
            # an entry of a module-level container: state that survives calls (and systems) -- whatever an earlier call stored there
            self.module_reads.append((v.path, idx))
            return Opaque("module_state")
        try:
            return B.subscript(self, v, idx, st, ctx, node)
        except B.Havoc as h:
            self.note_unmodelled(ctx, "subscript %r[%r] (%s)" % (_short(v), _short(idx), h))
            return Opaque("sub")

    def e_ListComp(self, node, st, ctx):
        if len(node.generators) != 1:
            raise Unsupported("nested comprehension")
        gen = node.generators[0]
        out = []
        for s, itv in self.eval(gen.iter, st, ctx):
            if isinstance(itv, Raised):
                out.append((s, itv))
                continue
            items = self.iterate(itv, s, ctx)
            results = [(s, [])]
            for it in items:
                nxt = []
                for s1, acc in results:
                    if isinstance(acc, Raised):
                        nxt.append((s1, acc))
                        continue
                    saved = dict(s1.env)
                    self.assign_target(gen.target, it, s1, ctx)
                    keep_paths = [(s1, True)]
                    for cond in gen.ifs:
                        kp = []
                        for s2, k in keep_paths:
                            if not k:
                                kp.append((s2, k))
                                continue
                            for s3, c in self.eval(cond, s2, ctx):
                                if is_z3(c):
                                    raise Unsupported("symbolic comprehension filter")
                                kp.append((s3, self.truth(c, s3)))
                        keep_paths = kp
                    for s2, k in keep_paths:
                        if not k:
                            nxt.append((s2, acc))
                            continue
                        for s3, v in self.eval(node.elt, s2, ctx):
                            nxt.append((s3, v if isinstance(v, Raised) else acc + [v]))
                results = nxt
            for s1, acc in results:
                if isinstance(acc, Raised):
                    out.append((s1, acc))
                else:
                    out.append((s1, s1.new_obj("list", "list", items=acc)))
        return out

    e_GeneratorExp = e_ListComp

    def e_DictComp(self, node, st, ctx):
        gen = node.generators[0]
        out = []
        for s, itv in self.eval(gen.iter, st, ctx):
            items = self.iterate(itv, s, ctx)
            d = {}
            for it in items:
                self.assign_target(gen.target, it, s, ctx)
                ok = True
                for cond in gen.ifs:
                    c = self.eval1(cond, s, ctx)
                    if is_z3(c):
                        raise Unsupported("symbolic dict comprehension filter")
                    ok = ok and self.truth(c, s)
                if ok:
                    d[self.eval1(node.key, s, ctx)] = self.eval1(node.value, s, ctx)
            out.append((s, s.new_obj("dict", "dict", items=d)))
        return out

    def iterate(self, v, st, ctx):
        """Concrete iteration -> python list of values."""
        if isinstance(v, Ref):
            o = st.obj(v)
            if o.kind == "list":
                return list(o.items)
            if o.kind == "dict":
                return list(o.items.keys())
        if isinstance(v, (tuple, list, range, frozenset)):
            return list(v)
        if isinstance(v, B.PyIter):
            return list(v.items)
        if isinstance(v, ConcVec):
            return list(v.items)
        if isinstance(v, TabVal):
            return [ConcVec(r) for r in v.rows]
        raise Unsupported("iteration over %r" % (_short(v),))

    def e_Starred(self, node, st, ctx):
        raise Unsupported("starred expression")

    # ------------------------------------------------------------------------------------------
    # calls
    # ------------------------------------------------------------------------------------------
    def e_Call(self, node, st, ctx):
        out = []
        for s, f in self.eval(node.func, st, ctx):
            if isinstance(f, Raised):
                out.append((s, f))
                continue
            # spec helpers taking lambdas (quantifiers) are evaluated lazily
            if isinstance(f, ModuleRef) and f.path in ("forall", "exists") and ctx.spec:
                out.append((s, self.quantifier(f.path, node, s, ctx)))
                continue
            if isinstance(f, ModuleRef) and f.path == "defined" and ctx.spec:
                out.append((s, all(n.value in s.env for n in node.args)))
                continue
            if isinstance(f, ModuleRef) and f.path == "implies" and ctx.spec and len(node.args) == 2:
                a = self.eval1(node.args[0], s, ctx)
                if isinstance(a, bool) and not a:
                    out.append((s, True))
                    continue
                b = self.eval1(node.args[1], s, ctx)
                out.append((s, to_bool(b) if (isinstance(a, bool) and a) else z3.Implies(to_bool(a), to_bool(b))))
                continue
            if isinstance(f, ModuleRef) and f.path == "old" and ctx.spec:
                es = ctx.entry
                if es is None:
                    raise Unsupported("old() without entry state")
                tmp = es.fork()
                out.append((s, self.eval1(node.args[0], tmp, ctx)))
                continue
            arg_nodes = []
            star_flags = []
            for a in node.args:
                if isinstance(a, ast.Starred):
                    arg_nodes.append(a.value)
                    star_flags.append(True)
                else:
                    arg_nodes.append(a)
                    star_flags.append(False)
            kw_nodes = [k.value for k in node.keywords]
            for s2, vals in self.eval_list(arg_nodes + kw_nodes, s, ctx):
                if isinstance(vals, Raised):
                    out.append((s2, vals))
                    continue
                args = []
                for v, star in zip(vals[:len(arg_nodes)], star_flags):
                    if star:
                        args.extend(self.iterate(v, s2, ctx))
                    else:
                        args.append(v)
                kwargs = {}
                for k, v in zip(node.keywords, vals[len(arg_nodes):]):
                    if k.arg is None:
                        if isinstance(v, Ref) and s2.obj(v).kind == "dict":
                            kwargs.update(s2.obj(v).items)
                        elif isinstance(v, Opaque) or v is None:
                            pass
                        else:
                            raise Unsupported("**kwargs of %r" % (_short(v),))
                    else:
                        kwargs[k.arg] = v
                out.extend(self.call(f, args, kwargs, s2, ctx, node))
        return out

    def quantifier(self, which, node, st, ctx):
        lam = node.args[0]
        if not isinstance(lam, ast.Lambda):
            raise Unsupported("quantifier needs a lambda")
        names = [a.arg for a in lam.args.args]
        vs = [z3.Int(fresh_name(n)) for n in names]
        saved = st.env
        st.env = dict(st.env)
        for n, v in zip(names, vs):
            st.env[n] = v
        try:
            body = to_bool(self.eval1(lam.body, st, ctx))
        finally:
            st.env = saved
        return z3.ForAll(vs, body) if which == "forall" else z3.Exists(vs, body)

    def call(self, f, args, kwargs, st, ctx, node=None):
        """-> list of (state, value | Raised)"""
        if isinstance(f, Closure):
            return self.call_closure(f, args, kwargs, st, ctx, node)
        if isinstance(f, UFunc):
            return self.call_ufunc(f, args, kwargs, st, ctx, node)
        if isinstance(f, BoundMethod):
            return self.call_method(f, args, kwargs, st, ctx, node)
        if isinstance(f, Ref) and st.obj(f).kind == "object":
            return self.call_method(BoundMethod(f, "__call__"), args, kwargs, st, ctx, node)
        if isinstance(f, BoundFunc):
            return self.call_function(f.finfo, [f.selfval] + list(args), kwargs, st, ctx, node)
        if isinstance(f, ModuleRef) and f.path == "super" and not args and not kwargs and ctx.finfo is not None and ctx.finfo.cls is not None \
                and ctx.finfo.node.args.args and ctx.finfo.node.args.args[0].arg in st.env:
            return [(st, SuperProxy(st.env[ctx.finfo.node.args.args[0].arg], ctx.finfo.cls.name))]
        if isinstance(f, ModuleRef) and f.path.endswith(".__new__") and len(args) == 1 and isinstance(args[0], ModuleRef) \
                and args[0].path.split(".")[-1] in self.src.classes and f.path.split(".")[-2] == args[0].path.split(".")[-1]:
            # Cls.__new__(Cls): a bare instance, __init__ not run
            return [(st, st.new_obj(args[0].path.split(".")[-1]))]
        if isinstance(f, ModuleRef):
            path = f.path
            short = path.split(".")[-1]
            if "." in path and short in ("get", "setdefault", "pop", "copy", "items", "values", "keys") and self.is_module_state(path.rsplit(".", 1)[0], ctx):
                # a method of a module-level mutable container of the file under verification: state that survives calls
                if short in ("get", "setdefault", "pop") and args:
                    self.module_reads.append((path.rsplit(".", 1)[0], args[0]))
                return [(st, Opaque("module_state"))]
            if path in self.call_hooks or short in self.call_hooks:
                r = self.call_hooks.get(path, self.call_hooks.get(short))(self, st, ctx, args, kwargs)
                return r if isinstance(r, list) else [(st, r)]
            h = self.handlers.get(path)
            if h is None and path.startswith("class:"):
                return self.instantiate(path[6:], args, kwargs, st, ctx, node)
            if h is None:
                h = self.handlers.get(short) if ("." in path and short in B.SHORT_OK) else None
            if h is not None:
                try:
                    r = h(self, st, ctx, args, kwargs)
                except B.Havoc as hv:
                    self.note_unmodelled(ctx, "call %s (%s)" % (path, hv))
                    # a numpy function the executor does not interpret on these operands: pure (A3), so its value is a function of its arguments
                    ds = [deps_of(a) for a in list(args) + list(kwargs.values())] if path.startswith(("D.ar_numpy.", "numpy.", "abs", "max", "min")) else [None]
                    r = Opaque(short, deps=frozenset().union(*ds) if ds and all(d is not None for d in ds) else None)
                return r if isinstance(r, list) else [(st, r)]
            if short in self.contracts:
                return self.apply_contract(self.contracts[short], args, kwargs, st, ctx, node)
            if short in B.EXCEPTION_CLASSES:
                return [(st, ExcVal(short, tuple(args)))]
            if short in self.inline:
                fi = self._find_func_by_short(short)
                if fi is not None:
                    return self.call_function(fi, args, kwargs, st, ctx, node)
            if short.startswith("_") and not short.startswith("__") and "." not in path and ctx.finfo is not None:
                # private module-level helper of the file under verification: its real body is executed in place
                fi = self.src.funcs.get((ctx.finfo.file, short))
                if fi is not None:
                    return self.call_function(fi, args, kwargs, st, ctx, node)
            if short in self.src.classes:
                return self.instantiate(short, args, kwargs, st, ctx, node)
            self.note_unmodelled(ctx, "call to %s havocked" % path)
            return [(st, Opaque(short))]
        if isinstance(f, Opaque):
            self.note_unmodelled(ctx, "call of opaque callable")
            return [(st, Opaque("call"))]
        raise Unsupported("call of %r" % (_short(f),))

    def _find_func_by_short(self, short):
        for (file, q), fi in self.src.funcs.items():
            if q == short:
                return fi
        return None

    def instantiate(self, clsname, args, kwargs, st, ctx, node):
        hook = self.call_hooks.get("new:" + clsname)
        if hook is not None:
            r = hook(self, st, ctx, args, kwargs)
            return r if isinstance(r, list) else [(st, r)]
        ref = st.new_obj(clsname)
        init = self.src.find_method(clsname, "__init__")
        if init is None:
            return [(st, ref)]
        out = []
        for s, v in self.call_function(init, [ref] + list(args), kwargs, st, ctx, node):
            out.append((s, v if isinstance(v, Raised) else ref))
        return out

    def call_ufunc(self, f, args, kwargs, st, ctx, node):
        hook = self.call_hooks.get("ufunc:" + f.name)
        if hook is not None:
            r = hook(self, st, ctx, args, kwargs)
            return r if isinstance(r, list) else [(st, r)]
        out = []
        if f.may_raise and not ctx.spec:
            sr = st.fork()
            for kind in ("AnyException", "KeyboardInterrupt"):
                s2 = sr.fork()
                log = s2.ghost.setdefault("raised", [])
                log.append((f.name, kind))
                out.append((s2, Raised(ExcVal(kind, tag=f.name))))
        if f.mode == "real":
            fn = self.uf(f.name, len(args))
            val = fn(*[to_real(a) for a in args])
        elif f.mode == "lincomb":
            val = LinComb.app(f.name, *args)
        elif f.mode == "block":
            val = BlockVec(LinComb.app("%s.%d" % (f.name, k), *args) for k in range(f.attrs["nblocks"]))
        elif f.mode == "separable":
            # separable Hamiltonian system: dq/dt = f_q(p), dp/dt = f_p(t, q)
            t_arg, y_arg = args[0], args[1]
            if not isinstance(y_arg, BlockVec):
                raise Unsupported("separable right-hand side applied to a state the executor does not model as (q, p) blocks: %r" % (_short(y_arg),))
            if f.attrs.get("autonomous"):
                val = BlockVec([LinComb.app(f.name + ".q", y_arg.blocks[1]), LinComb.app(f.name + ".p", y_arg.blocks[0])])
            else:
                val = BlockVec([LinComb.app(f.name + ".q", y_arg.blocks[1]), LinComb.app(f.name + ".p", t_arg, y_arg.blocks[0])])
        else:
            val = Opaque(f.name)
        if not ctx.spec:
            calls = st.ghost.setdefault("calls:" + f.name, [])
            calls.append(tuple(args))
            st.ghost.setdefault("vals:" + f.name, []).append(val)
        out.append((st, val))
        return out

    def linked(self, st, fname, arg, val):
        """ghost: `val` is the very object an (unmodelled) call fname(arg) returned on this path"""
        calls, vals = st.ghost.get("calls:" + fname, []), st.ghost.get("vals:" + fname, [])
        return any(len(a) >= 1 and a[0] is arg and v is val for a, v in zip(calls, vals))

    def call_closure(self, f, args, kwargs, st, ctx, node):
        if ctx.depth > self.MAX_DEPTH:
            raise Unsupported("call depth")
        fn = f.node
        env = dict(f.env)           # late-binding read of enclosing locals: snapshot at call time of *current* values
        # enclosing function's current locals shadow the captured snapshot when the closure was made in this activation
        if f.env is not st.env:
            for k in f.env:
                if k in st.env and ctx.finfo is f.module:
                    env[k] = st.env[k]
        else:
            env = dict(st.env)
        if f.selfval is not None:
            args = [f.selfval] + list(args)
        self.bind_params(fn.args, args, kwargs, env, st, ctx)
        saved_env = st.env
        st.env = env
        sub = Ctx(ctx.finfo, None, f.cls or ctx.cls, ctx.lifted, ctx.spec, ctx.depth + 1, ctx.entry, ctx.tag)
        out = []
        if isinstance(fn, ast.Lambda):
            res = self.eval(fn.body, st, sub)
            for s, v in res:
                s.env = saved_env if s is st else dict(saved_env)
                out.append((s, v))
            return out
        for s, oc in self.exec_block(fn.body, st, sub):
            nonl = _nonlocals(fn)
            new_env = dict(saved_env)
            for n in nonl:
                if n in s.env:
                    new_env[n] = s.env[n]
            s.env = new_env
            out.append((s, _outcome_to_value(oc)))
        return out

    def bind_params(self, a, args, kwargs, env, st, ctx):
        params = [p.arg for p in a.posonlyargs + a.args]
        defaults = a.defaults
        n_nodef = len(params) - len(defaults)
        args = list(args)
        kwargs = dict(kwargs)
        for i, p in enumerate(params):
            if i < len(args):
                env[p] = args[i]
            elif p in kwargs:
                env[p] = kwargs.pop(p)
            elif i >= n_nodef:
                env[p] = self.eval1(defaults[i - n_nodef], State(), Ctx(None, tag=ctx.tag))
            else:
                raise Unsupported("missing argument %s" % p)
        if a.vararg:
            env[a.vararg.arg] = tuple(args[len(params):])
        elif len(args) > len(params):
            raise Unsupported("too many positional arguments")
        for p, d in zip(a.kwonlyargs, a.kw_defaults):
            if p.arg in kwargs:
                env[p.arg] = kwargs.pop(p.arg)
            elif d is not None:
                env[p.arg] = self.eval1(d, State(), Ctx(None, tag=ctx.tag))
            else:
                raise Unsupported("missing kw-only argument %s" % p.arg)
        if a.kwarg:
            env[a.kwarg.arg] = st.new_obj("dict", "dict", items=kwargs)
        elif kwargs:
            raise Unsupported("unexpected keyword arguments %s" % list(kwargs))

    def call_function(self, fi, args, kwargs, st, ctx, node=None, contract=None, lifted=None):
        """Inline execution of a repo function body (used for the function under verification and for
        properties / small private helpers that are declared inline)."""
        if ctx.depth > self.MAX_DEPTH:
            raise Unsupported("call depth")
        env = {}
        self.bind_params(fi.node.args, args, kwargs, env, st, ctx)
        if contract is not None:
            for n, gv in (st.ghost.get("_ghost_env") or {}).items():
                env.setdefault(n, gv)
        saved_env = st.env
        st.env = env
        sub = Ctx(fi, contract, fi.cls, ctx.lifted if lifted is None else lifted, ctx.spec, ctx.depth + 1,
                  ctx.entry, ctx.tag if contract is None else fi.qualname)
        if fi.node.name == "__setattr__" or getattr(ctx, "in_setattr", False):
            sub.in_setattr = True
        if contract is not None:
            sub.entry = st.fork()
        out = []
        first = True
        for s, oc in self.exec_block(fi.node.body, st, sub):
            s.ghost["_last_env"] = None
            s_env = s.env
            # every returning path continues in its own copy of the caller's environment
            s.env = saved_env if first else dict(saved_env)
            first = False
            v = _outcome_to_value(oc)
            out.append((s, v))
            if contract is not None:
                s.ghost["_ret_env"] = s_env
        return out

    def call_method(self, bm, args, kwargs, st, ctx, node):
        v, name = bm.selfval, bm.name
        if isinstance(v, Ref):
            o = st.obj(v)
            if o.kind == "object":
                key = "%s.%s" % (o.cls, name)
                if key in self.call_hooks:
                    r = self.call_hooks[key](self, st, ctx, [v] + list(args), kwargs)
                    return r if isinstance(r, list) else [(st, r)]
                fi = self.src.find_method(o.cls, name)
                ckey = None
                if fi is not None:
                    ckey = "%s.%s" % (fi.cls.name, name)
                for k in (key, ckey):
                    if k and k in self.contracts and not self.contracts[k].inline:
                        return self.apply_contract(self.contracts[k], [v] + list(args), kwargs, st, ctx, node)
                if fi is not None and (key in self.inline or ckey in self.inline or name in self.inline):
                    return self.call_function(fi, [v] + list(args), kwargs, st, ctx, node)
                if fi is not None and self.inline_private_methods and name.lstrip("_") != name and not name.endswith("__"):
                    # a private helper of the class under verification (typically introduced by a refactoring): no contract of its own,
                    # its real body is part of the method that calls it
                    return self.call_function(fi, [v] + list(args), kwargs, st, ctx, node)
                if fi is not None:
                    self.note_unmodelled(ctx, "method %s has no contract: havoc receiver" % key)
                    o.fields = {k: self.havoc_like(x, k) for k, x in o.fields.items()}
                    return [(st, Opaque(name))]
        try:
            r = B.method(self, v, name, args, kwargs, st, ctx)
        except B.Havoc as h:
            self.note_unmodelled(ctx, "method %s on %r (%s)" % (name, _short(v), h))
            r = Opaque(name)
        return r if isinstance(r, list) else [(st, r)]

    # ------------------------------------------------------------------------------------------
    # contract application at a call site
    # ------------------------------------------------------------------------------------------
    def apply_contract(self, c, args, kwargs, st, ctx, node):
        fi = self.src.func(c.file, c.func) if c.file else None
        env = {}
        if fi is not None:
            self.bind_params(fi.node.args, args, kwargs, env, st, ctx)
        else:
            for n, a in zip(c.param_names or [], args):
                env[n] = a
            env.update(kwargs)
        lineno = getattr(node, "lineno", None)
        cctx = Ctx(fi, c, fi.cls if fi else None, tag=ctx.tag)
        cctx.entry = st.fork()
        cctx.entry.env = dict(env)
        for k, r in enumerate(c.requires):
            g = self.eval_spec(r, st, cctx, extra=env)
            if isinstance(g, bool) and g:
                continue
            self.prove(st, ctx, g, "pre@callsite", "pre@callsite:%s#%d@L%s" % (c.short, k, lineno), lineno)
            st.assume(to_bool(g))
        out = []
        if c.may_raise:
            for kind in c.exc_kinds:
                sr = st.fork()
                self.havoc_frame(c, env, sr, cctx)
                for e in c.ensures_exc:
                    sr.assume(to_bool(self.eval_spec(e, sr, cctx, extra=env)))
                sr.ghost.setdefault("raised", []).append((c.short, kind))
                if self.feasible(sr):
                    out.append((sr, Raised(ExcVal(kind, tag=c.short))))
        self.havoc_frame(c, env, st, cctx)
        res = self.make_result(c.result, st, c.short)
        env2 = dict(env)
        env2["result"] = res
        for e in c.ensures:
            g = self.eval_spec(e, st, cctx, extra=env2)
            if isinstance(g, bool) and not g:
                # a post-condition that evaluates to the constant False at a call site means the contract does not fit the call
                # (e.g. missing result description): refusing is better than silently assuming False (everything after would be vacuous)
                raise Unsupported("contract %s: clause %r evaluates to False at the call site in %s" % (c.short, e, ctx.tag))
            st.assume(to_bool(g))
        out.append((st, res))
        return out

    def make_result(self, spec, st, prefix):
        if spec is None:
            return None
        if isinstance(spec, tuple) and spec and spec[0] == "tuple":
            return tuple(self.make_result(s, st, prefix) for s in spec[1:])
        if isinstance(spec, tuple) and spec and spec[0] == "obj":
            return st.new_obj(spec[1], fields={k: self.make_result(v, st, prefix + "." + k) for k, v in spec[2].items()})
        if isinstance(spec, tuple) and spec and spec[0] == "list":
            return st.new_obj("list", "list", items=[self.make_result(s, st, prefix) for s in spec[1:]])
        if spec == "None":
            return None
        return self.fresh(spec, prefix + "_res")

    def havoc_frame(self, c, env, st, ctx):
        """modifies entries: 'param.field' -> that heap field gets a fresh value of the same sort."""
        for m in c.modifies:
            parts = m.split(".")
            v = env.get(parts[0])
            for p in parts[1:-1]:
                if isinstance(v, Ref):
                    v = st.obj(v).fields.get(self.mangle(p, ctx))
            if isinstance(v, Ref) and len(parts) >= 2:
                o = st.obj(v)
                fld = self.mangle(parts[-1], ctx)
                if fld == "*":
                    self.havoc_object(v.oid, st, set())
                elif fld in o.fields:
                    o.fields[fld] = self.havoc_like(o.fields[fld], fld)
                else:
                    o.fields[fld] = Opaque(fld)

    # ------------------------------------------------------------------------------------------
    # statements
    # ------------------------------------------------------------------------------------------
    def exec_block(self, stmts, st, ctx):
        """-> list of (state, outcome); outcome None | ('return', v) | ('break',) | ('continue',) | ('raise', exc)"""
        results = [(st, None)]
        for stmt in stmts:
            nxt = []
            for s, oc in results:
                if oc is not None:
                    nxt.append((s, oc))
                else:
                    nxt.extend(self.exec_stmt(stmt, s, ctx))
            results = nxt
            if len(results) > self.path_limit:
                raise Unsupported("path explosion (%d paths) in %s" % (len(results), ctx.tag))
        return results

    def exec_stmt(self, node, st, ctx):
        m = getattr(self, "s_" + type(node).__name__, None)
        if m is None:
            raise Unsupported("statement %s at line %s" % (type(node).__name__, node.lineno))
        return m(node, st, ctx)

    def s_Pass(self, node, st, ctx):
        return [(st, None)]

    def s_Import(self, node, st, ctx):
        return [(st, None)]

    s_ImportFrom = s_Import

    def s_Global(self, node, st, ctx):
        return [(st, None)]

    s_Nonlocal = s_Global

    def s_Expr(self, node, st, ctx):
        if isinstance(node.value, ast.Constant):
            return [(st, None)]           # docstring
        if _is_dropped_call(node.value):
            return [(st, None)]
        out = []
        for s, v in self.eval(node.value, st, ctx):
            out.append((s, ("raise", v.exc) if isinstance(v, Raised) else None))
        return out

    def s_Return(self, node, st, ctx):
        if node.value is None:
            return [(st, ("return", None))]
        out = []
        for s, v in self.eval(node.value, st, ctx):
            out.append((s, ("raise", v.exc) if isinstance(v, Raised) else ("return", v)))
        return out

    def s_Break(self, node, st, ctx):
        return [(st, ("break",))]

    def s_Continue(self, node, st, ctx):
        return [(st, ("continue",))]

    def s_Assert(self, node, st, ctx):
        out = []
        for s, v in self.eval(node.test, st, ctx):
            if isinstance(v, Raised):
                out.append((s, ("raise", v.exc)))
            elif is_z3(v):
                b = to_bool(v)
                sf = s.fork()
                sf.assume(z3.Not(b))
                if self.feasible(sf):
                    out.append((sf, ("raise", ExcVal("AssertionError"))))
                s.assume(b)
                if self.feasible(s):
                    out.append((s, None))
            else:
                out.append((s, None if self.truth(v, s) else ("raise", ExcVal("AssertionError"))))
        return out

    def s_Raise(self, node, st, ctx):
        if node.exc is None:
            exc = st.env.get("__current_exc__")
            if exc is None:
                raise Unsupported("bare raise outside handler")
            return [(st, ("raise", exc))]
        out = []
        for s, v in self.eval(node.exc, st, ctx):
            if isinstance(v, Raised):
                out.append((s, ("raise", v.exc)))
                continue
            if isinstance(v, ModuleRef):
                v = ExcVal(v.path.split(".")[-1])
            if not isinstance(v, ExcVal):
                raise Unsupported("raise of %r" % (_short(v),))
            out.append((s, ("raise", v)))
        return out

    def s_Assign(self, node, st, ctx):
        out = []
        for s, v in self.eval(node.value, st, ctx):
            if isinstance(v, Raised):
                out.append((s, ("raise", v.exc)))
                continue
            v = self.abstract_assign(node, v, s, ctx)
            res = [(s, None)]
            for tgt in node.targets:
                nxt = []
                for s2, oc in res:
                    if oc is not None:
                        nxt.append((s2, oc))
                    else:
                        nxt.extend(self.assign_target(tgt, v, s2, ctx))
                res = nxt
            out.extend(res)
        return out

    def abstract_assign(self, node, v, st, ctx):
        """Sidecar-declared abstraction: assignments to the named variables whose right-hand side contains a
        division are replaced by a fresh value (sound over-approximation: any real)."""
        c = ctx.contract
        if c is None or not c.abstract:
            return v
        if len(node.targets) == 1:
            t = node.targets[0]
            base = t.id if isinstance(t, ast.Name) else (t.value.id if isinstance(t, ast.Subscript) and isinstance(t.value, ast.Name) else None)
            if base in c.abstract and any(isinstance(n, ast.BinOp) and isinstance(n.op, ast.Div) and not isinstance(n.right, ast.Constant)
                                          for n in ast.walk(node.value)):
                return self.fresh("Real", base + "_abs")
        return v

    def assign_target(self, tgt, v, st, ctx):
        """-> list of (state, outcome)"""
        if isinstance(tgt, ast.Name):
            st.env[tgt.id] = v
            return [(st, None)]
        if isinstance(tgt, (ast.Tuple, ast.List)):
            if isinstance(v, Opaque) and self.opaque_nondet and not any(isinstance(e, ast.Starred) for e in tgt.elts):
                items = [Opaque(v.tag.split("!")[0]) for _ in tgt.elts]      # components of an unmodelled value: unmodelled values
            else:
                items = self.iterate(v, st, ctx) if not isinstance(v, tuple) else list(v)
            star = [i for i, e in enumerate(tgt.elts) if isinstance(e, ast.Starred)]
            if star:
                i = star[0]
                n_after = len(tgt.elts) - i - 1
                mid = items[i:len(items) - n_after]
                parts = items[:i] + [st.new_obj("list", "list", items=mid)] + items[len(items) - n_after:]
                elts = [e.value if isinstance(e, ast.Starred) else e for e in tgt.elts]
            else:
                if len(items) != len(tgt.elts):
                    raise Unsupported("unpack arity %d != %d at line %s" % (len(items), len(tgt.elts), tgt.lineno))
                parts, elts = items, tgt.elts
            res = [(st, None)]
            for e, x in zip(elts, parts):
                nxt = []
                for s, oc in res:
                    nxt.extend(self.assign_target(e, x, s, ctx) if oc is None else [(s, oc)])
                res = nxt
            return res
        if isinstance(tgt, ast.Attribute):
            out = []
            for s, o in self.eval(tgt.value, st, ctx):
                if isinstance(o, Raised):
                    out.append((s, ("raise", o.exc)))
                    continue
                out.extend(self.setattr(o, self.mangle(tgt.attr, ctx), v, s, ctx, tgt))
            return out
        if isinstance(tgt, ast.Subscript):
            out = []
            for s, base in self.eval(tgt.value, st, ctx):
                if isinstance(base, Raised):
                    out.append((s, ("raise", base.exc)))
                    continue
                for s2, idx in self.eval_index(tgt.slice, s, ctx):
                    if isinstance(idx, Raised):
                        out.append((s2, ("raise", idx.exc)))
                        continue
                    if isinstance(base, ModuleRef):
                        self.module_stores.append((base.path, idx, v))
                    if id(base) in self.borrowed:
                        # `x[i] = v` / `x[mask] = v` writes into the array object itself: if it is one the caller still holds, the caller's
                        # data change behind its back (ownership clause of the harness that marked the object)
                        self.reg.ground("%s/%s/no-in-place-update-of-a-caller-owned-array@L%d" % (self.prop, ctx.tag, getattr(tgt, "lineno", 0)), "frame", ctx.tag, False,
                                        backend="symbolic-exec (object identity)", detail="`%s = ...` writes into the array object %s" % (ast.unparse(tgt)[:60], self.borrowed[id(base)][0]))
                    try:
                        newbase = B.store(self, base, idx, v, s2, ctx, tgt)
                    except B.Havoc as h:
                        self.note_unmodelled(ctx, "store into %r (%s)" % (_short(base), h))
                        newbase = Opaque("store")
                    if newbase is not B.IN_PLACE:
                        out.extend(self.assign_target(_as_store_target(tgt.value), newbase, s2, ctx))
                    else:
                        out.append((s2, None))
            return out
        raise Unsupported("assignment target %s" % type(tgt).__name__)

    def setattr(self, o, attr, v, st, ctx, node=None):
        if isinstance(o, Ref):
            obj = st.obj(o)
            setter = self.src.find_setter(obj.cls, attr) if obj.kind == "object" else None
            if setter is not None:
                key = "%s.%s.setter" % (setter.cls.name, attr)
                if key in self.call_hooks:
                    r = self.call_hooks[key](self, st, ctx, [o, v], {})
                    r = r if isinstance(r, list) else [(st, r)]
                else:
                    r = self.call_function(setter, [o, v], {}, st, ctx, node)
                return [(s, ("raise", x.exc) if isinstance(x, Raised) else None) for s, x in r]
            hook = self.call_hooks.get("setattr:" + obj.cls)
            if hook is not None:
                r = hook(self, st, ctx, o, attr, v)
                if r is not None:
                    return r
            sa = self.src.find_method(obj.cls, "__setattr__") if obj.kind == "object" else None
            if sa is not None and not getattr(ctx, "in_setattr", False):
                sub = Ctx(ctx.finfo, ctx.contract, ctx.cls, ctx.lifted, ctx.spec, ctx.depth, ctx.entry, ctx.tag)
                sub.in_setattr = True
                r = self.call_function(sa, [o, attr, v], {}, st, sub, node)
                return [(s_, ("raise", x.exc) if isinstance(x, Raised) else None) for s_, x in r]
            obj.fields[attr] = v
            return [(st, None)]
        if isinstance(o, ExcVal) and attr == "__cause__":
            o.cause = v
            return [(st, None)]
        if isinstance(o, (Opaque, UFunc)):
            self.note_unmodelled(ctx, "setattr on %r" % (_short(o),))
            return [(st, None)]
        raise Unsupported("setattr on %r" % (_short(o),))

    def s_AugAssign(self, node, st, ctx):
        load = _as_load(node.target)
        out = []
        for s, vals in self.eval_list([load, node.value], st, ctx):
            if isinstance(vals, Raised):
                out.append((s, ("raise", vals.exc)))
                continue
            if id(vals[0]) in self.borrowed and isinstance(node.target, (ast.Name, ast.Attribute)):
                # `x op= v` on a numpy array updates the array object in place: if that object is one the caller still holds (an argument
                # that was never copied) the caller's value changes behind its back -- ownership clause of the harness that marked it
                self.reg.ground("%s/%s/no-in-place-update-of-a-caller-owned-array@L%d" % (self.prop, ctx.tag, node.lineno), "frame", ctx.tag, False, backend="symbolic-exec (object identity)",
                                detail="`%s` updates in place the array object %s" % (ast.unparse(node)[:60], self.borrowed[id(vals[0])][0]))
            nv = self.binop(node.op, vals[0], vals[1], s, ctx, node)
            if id(vals[0]) in self.borrowed and nv is not None:
                self.borrowed[id(nv)] = (self.borrowed[id(vals[0])][0], nv)          # an in-place update keeps the array object
            out.extend(self.assign_target(node.target, nv, s, ctx))
        return out

    def s_AnnAssign(self, node, st, ctx):
        if node.value is None:
            return [(st, None)]
        fake = ast.Assign(targets=[node.target], value=node.value, lineno=node.lineno)
        return self.s_Assign(fake, st, ctx)

    def s_Delete(self, node, st, ctx):
        return [(st, None)]

    def s_FunctionDef(self, node, st, ctx):
        st.env[node.name] = Closure(node, st.env, ctx.cls, None, ctx.finfo)
        return [(st, None)]

    def s_ClassDef(self, node, st, ctx):
        # a class defined inside a function (class factories): the name is bound to a heap object that records *which* class statement it
        # is and the environment it closes over -- enough to state "the factory returns the class it defined in this call, specialised to
        # its arguments"; the class body is not executed here (its methods are verified on their own, with the closure bound by the harness)
        if not self.local_classes:
            raise Unsupported("nested class definition")
        ref = st.new_obj("<local class>", fields={"__class_statement__": (ctx.finfo.qualname if ctx.finfo else "?") + "." + node.name, "__defined_at__": node.lineno,
                                                  "__closure__": dict(st.env), "__name__": node.name, "__qualname__": node.name})
        st.env[node.name] = ref
        return [(st, None)]

    def s_If(self, node, st, ctx):
        if _is_dropped_if(node):
            return [(st, None)]
        out = []
        for s, c in self.eval(node.test, st, ctx):
            if isinstance(c, Raised):
                out.append((s, ("raise", c.exc)))
                continue
            c = self.cond(c, s)
            if is_z3(c):
                cb = z3.simplify(to_bool(c))
                if z3.is_true(cb):
                    out.extend(self.exec_block(node.body, s, ctx))
                    continue
                if z3.is_false(cb):
                    out.extend(self.exec_block(node.orelse, s, ctx))
                    continue
                s1 = s.fork()
                s1.assume(cb)
                s1.trace.append((node.lineno, True))
                if self.feasible(s1):
                    out.extend(self.exec_block(node.body, s1, ctx))
                s.assume(z3.Not(cb))
                s.trace.append((node.lineno, False))
                if self.feasible(s):
                    out.extend(self.exec_block(node.orelse, s, ctx))
            else:
                out.extend(self.exec_block(node.body if self.truth(c, s) else node.orelse, s, ctx))
        return out

    def s_With(self, node, st, ctx):
        # all context managers used in the verified functions are transparent (warnings, printoptions,
        # errstate, no_grad, backend_like); the `as` name, if any, is bound to an opaque value
        for item in node.items:
            if item.optional_vars is not None and isinstance(item.optional_vars, ast.Name):
                st.env[item.optional_vars.id] = Opaque("ctxmgr")
        return self.exec_block(node.body, st, ctx)

    def s_Try(self, node, st, ctx):
        out = []
        for s, oc in self.exec_block(node.body, st, ctx):
            if oc is not None and oc[0] == "raise":
                out.extend(self.handle_exception(node, s, oc[1], ctx))
            elif oc is None and node.orelse:
                out.extend(self.exec_block(node.orelse, s, ctx))
            else:
                out.append((s, oc))
        if not node.finalbody:
            return out
        final = []
        for s, oc in out:
            for s2, oc2 in self.exec_block(node.finalbody, s, ctx):
                final.append((s2, oc2 if oc2 is not None else oc))
        return final

    def handle_exception(self, node, st, exc, ctx):
        """Try handlers in order; symbolic exception kinds fork on specific-subclass handlers."""
        for h in node.handlers:
            names = self.handler_names(h, st, ctx)
            if names is None:            # bare except
                return self.run_handler(h, st, exc, ctx)
            decided = None
            maybe = False
            for n in names:
                if exc_is_subclass(exc.cls, n):
                    decided = True
                    break
                if exc.cls == "AnyException" and exc_is_subclass(n, "Exception"):
                    maybe = True
            if decided:
                return self.run_handler(h, st, exc, ctx)
            if maybe:
                # the unknown user exception may or may not be an instance of this specific class
                s1 = st.fork()
                res = self.run_handler(h, s1, ExcVal(names[0], exc.args, exc.cause, exc.tag), ctx)
                rest = ast.Try(body=[], handlers=node.handlers[node.handlers.index(h) + 1:], orelse=[], finalbody=[])
                res.extend(self.handle_exception(rest, st, exc, ctx))
                return res
        return [(st, ("raise", exc))]

    def handler_names(self, h, st, ctx):
        if h.type is None:
            return None
        t = h.type
        elts = t.elts if isinstance(t, ast.Tuple) else [t]
        names = []
        for e in elts:
            if isinstance(e, ast.Starred):
                names.append("LinAlgError")       # *D.linear_algebra_exceptions
            else:
                names.append(ast.unparse(e).split(".")[-1])
        return names

    def run_handler(self, h, st, exc, ctx):
        saved = st.env.get("__current_exc__")
        st.env["__current_exc__"] = exc
        if h.name:
            st.env[h.name] = exc
        out = []
        for s, oc in self.exec_block(h.body, st, ctx):
            if saved is None:
                s.env.pop("__current_exc__", None)
            else:
                s.env["__current_exc__"] = saved
            out.append((s, oc))
        return out

    # ---- loops ---------------------------------------------------------------------------------
    def loop_ordinal(self, node, ctx):
        """Syntactic ordinal of a loop among the For/While statements of the enclosing top-level function
        (pre-order), the key used by the sidecar contracts."""
        fi = ctx.finfo
        if fi is None:
            return -1
        cache = getattr(fi, "_loop_ids", None)
        if cache is None or cache[0] is not fi.node:
            ids = {}
            k = 0
            for n in ast.walk(fi.node):
                pass
            def visit(n):
                nonlocal k
                for ch in ast.iter_child_nodes(n):
                    if isinstance(ch, (ast.For, ast.While)):
                        ids[id(ch)] = k
                        k += 1
                    visit(ch)
            visit(fi.node)
            cache = (fi.node, ids)
            fi._loop_ids = cache
        return cache[1].get(id(node), -1)

    def loop_spec(self, node, ctx, k):
        """Sidecar entry of a loop: keyed by its syntactic ordinal, or by a string that must occur in the loop header as written in the
        current source ("for <target> in <iter>" / "while <test>") -- the latter survives the insertion of unrelated loops before it."""
        if not (ctx.contract and ctx.contract.loops):
            return None
        loops = ctx.contract.loops
        if k in loops:
            return loops[k]
        head = ("for %s in %s" % (ast.unparse(node.target), ast.unparse(node.iter))) if isinstance(node, ast.For) else "while " + ast.unparse(node.test)
        for key, spec in loops.items():
            if isinstance(key, str) and key in head:
                return spec
        return None

    def s_For(self, node, st, ctx):
        k = self.loop_ordinal(node, ctx)
        out = []
        spec0 = self.loop_spec(node, ctx, k)
        if spec0 is not None and spec0.get("cut"):
            return self.symbolic_for(node, None, st, ctx, k, spec0)
        for s, itv in self.eval(node.iter, st, ctx):
            if isinstance(itv, Raised):
                out.append((s, ("raise", itv.exc)))
                continue
            try:
                items = self.iterate(itv, s, ctx)
            except Unsupported:
                spec = self.loop_spec(node, ctx, k)
                if spec is None:
                    raise
                out.extend(self.symbolic_for(node, itv, s, ctx, k, spec))
                continue
            live = [(s, None)]
            done = []
            for it in items:
                nxt = []
                for s1, oc in live:
                    for s2, oc0 in self.assign_target(node.target, it, s1, ctx):
                        if oc0 is not None:
                            done.append((s2, oc0))
                            continue
                        for s3, oc3 in self.exec_block(node.body, s2, ctx):
                            if oc3 is None or oc3[0] == "continue":
                                nxt.append((s3, None))
                            elif oc3[0] == "break":
                                done.append((s3, "broke"))
                            else:
                                done.append((s3, oc3))
                live = nxt
                if len(live) + len(done) > self.path_limit:
                    raise Unsupported("path explosion in unrolled loop at line %d" % node.lineno)
            for s1, oc in live:
                if node.orelse:
                    out.extend(self.exec_block(node.orelse, s1, ctx))
                else:
                    out.append((s1, None))
            for s1, oc in done:
                out.append((s1, None if oc == "broke" else oc))
        return out

    def symbolic_for(self, node, itv, st, ctx, k, spec):
        """`for x in range([start,] n)` with a symbolic bound, cut by an invariant.  Ghost `iter_index` = index the next iteration would
        use (start <= iter_index <= max(start, n)); the loop variable keeps its last value after the loop (python semantics)."""
        it = node.iter
        is_range = isinstance(it, ast.Call) and isinstance(it.func, ast.Name) and it.func.id == "range" and 1 <= len(it.args) <= 2 and not it.keywords
        if not isinstance(node.target, ast.Name):
            raise Unsupported("symbolic for-loop with a structured target at line %d" % node.lineno)
        lineno = node.lineno
        out = []
        # `for x in seq` over a 1-D array of symbolic length is the index loop `for i in range(len(seq)): x = seq[i]`
        heads = self.eval_list(list(it.args), st, ctx) if is_range else [(s_, [v_] if not isinstance(v_, Raised) else v_) for s_, v_ in self.eval(it, st, ctx)]
        for s0, bounds in heads:
            if isinstance(bounds, Raised):
                out.append((s0, ("raise", bounds.exc)))
                continue
            seq_ = None
            if not is_range:
                seq_ = bounds[0]
                if not isinstance(seq_, SeqVal):
                    raise Unsupported("symbolic for-loop over %r (neither range(n) nor a 1-D array) at line %d" % (_short(seq_), node.lineno))
                bounds = [seq_.length]
            # local python lists the body appends to are given a symbolic-length representation (spec: {"symlists": {name: element kind}})
            for n_, kind_ in (spec.get("symlists") or {}).items():
                cur_ = s0.env.get(n_)
                if isinstance(cur_, Ref) and s0.obj(cur_).kind == "list":
                    s0.env[n_] = B.symlist_from_items(s0, s0.obj(cur_).items, kind_, n_)
            start = to_z3(bounds[0]) if len(bounds) == 2 else z3.IntVal(0)
            stop = to_z3(bounds[-1])
            invs = spec.get("invariant", [])
            s0.env["iter_index"] = start
            # ghost names for values at loop entry (usable in the invariant; they must not be names the body assigns)
            for n_, e_ in (spec.get("let") or {}).items():
                s0.env[n_] = self.eval_spec(e_, s0, ctx)
            self.prove_many(s0, ctx, [(self.eval_spec(inv, s0, ctx), "inv-init", "inv-init#loop%d.%d@L%d" % (k, i, lineno), lineno) for i, inv in enumerate(invs)])
            spec["_links_init"] = {(fname, a_, v_): self.linked(s0, fname, s0.env.get(a_), s0.env.get(v_)) for (fname, a_, v_) in (spec.get("links") or [])}
            mods = _modified_names(node.body + node.orelse) | {node.target.id} | set(spec.get("havoc", []))
            for n in sorted(mods):
                if n in s0.env:
                    s0.env[n] = self.havoc_like(s0.env[n], n)
            for path in sorted(_modified_attrs(node.body)):
                self.havoc_attr_path(path, s0, ctx)
            self.havoc_loop_frame(node.body + node.orelse, s0, ctx)
            # names the body creates (unbound before the loop): at the head of a later iteration they hold what the previous one left
            for n_, sort_ in (spec.get("defines") or {}).items():
                if n_ not in s0.env:
                    s0.env[n_] = self.fresh(sort_, n_)
            idx = z3.Int(fresh_name("iter_index"))
            s0.env["iter_index"] = idx
            s0.assume(z3.And(idx >= start, z3.Or(idx <= stop, idx == start)))
            # the loop variable holds the index of the last iteration that ran (or whatever it held before, if none did)
            if node.target.id in s0.env and is_z3(s0.env[node.target.id]):
                s0.assume(z3.Implies(idx > start, s0.env[node.target.id] == (idx - 1 if seq_ is None else z3.Select(seq_.arr, idx - 1))))
            for inv in invs:
                s0.assume(to_bool(self.eval_spec(inv, s0, ctx)))
            # identity invariants over unmodelled values, "val_var is fname(arg_var)": proved on entry, assumed at the head (ghost call log),
            # proved again at the end of every iteration
            links = spec.get("links") or []
            for (fname, a_, v_) in links:
                self.reg.ground("%s/%s/inv-init#loop%d.link[%s is %s(%s)]@L%d" % (self.prop, ctx.tag, k, v_, fname, a_, lineno), "inv-init", ctx.tag,
                                bool(spec.get("_links_init", {}).get((fname, a_, v_), False)), backend="symbolic-exec")
                s0.ghost.setdefault("calls:" + fname, []).append((s0.env.get(a_),))
                s0.ghost.setdefault("vals:" + fname, []).append(s0.env.get(v_))
            # --- body path
            sb = s0.fork()
            sb.assume(idx < stop)
            # a counted loop may legitimately make no trip on a given path: what is required is that the body is reachable on *some* visit
            # (one cover per loop, emitted at the end of verify())
            ckey = (ctx.tag, k, lineno)
            if not self._for_covers.get(ckey):
                chk = z3.Solver()
                chk.set("timeout", 5000)
                for a_ in self.global_axioms + sb.pc:
                    chk.add(a_)
                self._for_covers[ckey] = (chk.check() == z3.sat)
            if self.feasible(sb):
                sb.env[node.target.id] = idx if seq_ is None else z3.Select(seq_.arr, idx)
                # ghost names for values at the head of *this* iteration (after the invariant has been assumed)
                for n_, e_ in (spec.get("let_body") or {}).items():
                    sb.env[n_] = self.eval_spec(e_, sb, ctx)
                for s2, oc in self.exec_block(node.body, sb, ctx):
                    if (oc is None or oc[0] in ("continue", "break")) and spec.get("ensures_iteration"):
                        # clauses about one iteration (relating its end to its head), proved however the iteration ends (normally or by break)
                        tr_ = ".".join("%d%s" % (ln, "T" if b else "F") for ln, b in s2.trace[len(s0.trace):])
                        for i_, cl_ in enumerate(spec["ensures_iteration"]):
                            try:
                                goal_ = self.eval_spec(cl_, s2, ctx)
                            except KeyError:
                                continue          # a name the clause mentions is not bound on this path (the statement defining it was not reached)
                            self.prove(s2, ctx, goal_, "post", "iteration#loop%d.%d[%s]" % (k, i_, tr_), lineno)
                    if oc is None or oc[0] == "continue":
                        tr = ".".join("%d%s" % (ln, "T" if b else "F") for ln, b in s2.trace[len(s0.trace):])
                        s2.env["iter_index"] = idx + 1
                        self.prove_many(s2, ctx, [(self.eval_spec(inv, s2, ctx), "inv-pres", "inv-pres#loop%d.%d[%s]" % (k, i, tr), lineno) for i, inv in enumerate(invs)])
                        for (fname, a_, v_) in links:
                            self.reg.ground("%s/%s/inv-pres#loop%d.link[%s is %s(%s)][%s]" % (self.prop, ctx.tag, k, v_, fname, a_, tr), "inv-pres", ctx.tag,
                                            self.linked(s2, fname, s2.env.get(a_), s2.env.get(v_)), backend="symbolic-exec")
                    elif oc[0] == "break":
                        out.append((s2, None))
                    else:
                        out.append((s2, oc))
            # --- exhausted
            s0.assume(idx >= stop)
            if self.feasible(s0):
                if node.orelse:
                    out.extend(self.exec_block(node.orelse, s0, ctx))
                else:
                    out.append((s0, None))
        return out

    def s_While(self, node, st, ctx):
        k = self.loop_ordinal(node, ctx)
        spec = self.loop_spec(node, ctx, k)
        if spec is None:
            return self.unroll_while(node, st, ctx)
        lineno = node.lineno
        if spec.get("capture") is not None:
            # harness hook: hand the state at the loop head to the caller and stop this path
            spec["capture"](st, node, ctx)
            return []
        # LOOP_GUARD in an invariant stands for the loop's own test as written in the current source (progress clauses: "while the guard
        # holds the body moves toward the exit" must follow the guard, not a copy of it)
        invs = [i_.replace("LOOP_GUARD", "(" + ast.unparse(node.test) + ")") for i_ in spec.get("invariant", [])]
        variant = spec.get("variant")
        # 1. invariant holds on entry
        for i, inv in enumerate(invs):
            g = self.eval_spec(inv, st, ctx)
            self.prove(st, ctx, g, "inv-init", "inv-init#loop%d.%d@L%d" % (k, i, lineno), lineno)
        # 2. havoc everything the body may modify
        mods = _modified_names(node.body + node.orelse) | set(spec.get("havoc", []))
        for n in sorted(mods):
            if n in st.env:
                old_ = st.env[n]
                st.env[n] = self.havoc_like(old_, n)
                if id(old_) in self.borrowed:
                    # a name that holds a caller-owned array on entry may still hold that very object in a later iteration
                    self.borrowed[id(st.env[n])] = (self.borrowed[id(old_)][0], st.env[n])
        for path in sorted(_modified_attrs(node.body)):
            self.havoc_attr_path(path, st, ctx)
        self.havoc_loop_frame(node.body + node.orelse, st, ctx)
        if self.modular_loops and ctx.contract is not None and ctx.entry is not None:
            # modular treatment: the loop is verified once from `requires + invariant` alone -- every fact the path through the code
            # before the loop had added to the path condition is dropped (fewer hypotheses: sound), so one verification of the body
            # and one continuation after the loop serve all those paths; they only differ in their inv-init obligations (done above).
            # Paths whose unmodified locals differ (other objects, other shapes) are verified separately.
            key = (ctx.finfo.qualname if ctx.finfo else "?", k, self._loop_key(st, mods))
            if key in self._loops_done:
                self.stats["loop_visits_merged"] = self.stats.get("loop_visits_merged", 0) + 1
                return []
            self._loops_done.add(key)
            st.pc = list(ctx.entry.pc)
        # 3. assume invariant
        for inv in invs:
            st.assume(to_bool(self.eval_spec(inv, st, ctx)))
        out = []
        guard_res = self.eval(node.test, st, ctx)
        for s, g in guard_res:
            if isinstance(g, Raised):
                out.append((s, ("raise", g.exc)))
                continue
            gb = to_bool(g) if is_z3(g) else z3.BoolVal(self.truth(g, s))
            # --- body path
            sb = s.fork()
            sb.assume(gb)
            # vacuity guard: the loop body must be reachable under the invariant (a contradictory invariant proves anything)
            # (evaluating the guard may itself fork -- short-circuit operands with calls: a fork on which the guard is literally
            # False is an exit path, not a body path)
            if not z3.is_false(z3.simplify(gb)):
                self.reg.cover("%s/%s/cover#loop%d-body-reachable@L%d" % (self.prop, ctx.tag, k, lineno), ctx.tag, self.global_axioms + sb.pc, lineno)
            if self.feasible(sb):
                v0 = self.eval_spec(variant, sb, ctx) if variant else None
                vguard0 = to_bool(self.eval_spec(spec["variant_while"], sb, ctx)) if spec.get("variant_while") else None
                body_results = self.exec_block(node.body, sb, ctx)
                for j, (s2, oc) in enumerate(body_results):
                    if (oc is None or oc[0] == "continue") and spec.get("on_iteration_end") is not None:
                        spec["on_iteration_end"](self, s2, ctx)
                    if oc is None or oc[0] == "continue":
                        tr = ".".join("%d%s" % (ln, "T" if b else "F") for ln, b in s2.trace[len(s.trace):])
                        self.prove_many(s2, ctx, [(self.eval_spec(inv, s2, ctx), "inv-pres", "inv-pres#loop%d.%d[%s]" % (k, i, tr), lineno) for i, inv in enumerate(invs)])
                        if variant:
                            v1 = self.eval_spec(variant, s2, ctx)
                            if vguard0 is not None:
                                # lifted loop: the element's measure never grows and strictly decreases while the
                                # element itself is still active (finitely many elements => termination)
                                goal = z3.And(to_z3(v1) <= to_z3(v0), z3.Implies(vguard0, z3.And(to_z3(v0) >= 0, to_z3(v1) < to_z3(v0))))
                            else:
                                goal = z3.And(to_z3(v0) >= 0, to_z3(v1) < to_z3(v0))
                            self.prove(s2, ctx, goal, "variant", "variant#loop%d[%s]" % (k, tr), lineno)
                    elif oc[0] == "break":
                        if spec.get("on_break") is not None:
                            spec["on_break"](self, s2, ctx)
                        out.append((s2, None))
                    else:
                        out.append((s2, oc))
            # --- exit path
            s.assume(z3.Not(gb))
            if self.feasible(s):
                if node.orelse:
                    out.extend(self.exec_block(node.orelse, s, ctx))
                else:
                    out.append((s, None))
        return out

    def havoc_attr_path(self, path, st, ctx):
        parts = path.split(".")
        v = st.env.get(parts[0])
        for p in parts[1:-1]:
            if isinstance(v, Ref):
                v = st.obj(v).fields.get(self.mangle(p, ctx))
        if isinstance(v, Ref):
            o = st.obj(v)
            fld = self.mangle(parts[-1], ctx)
            if fld in o.fields:
                cur = o.fields[fld]
                if isinstance(cur, Ref) and cur.oid in st.heap and st.heap[cur.oid].kind == "dict" and isinstance(st.heap[cur.oid].items, dict):
                    # a dict with literal keys that the loop body stores into: it stays that dict, every value becomes arbitrary (a key the
                    # body adds is written before it is read on the path that reads it, or the read raises KeyError and the path shows it)
                    d = st.heap[cur.oid]
                    d.items = {k_: self.havoc_like(x_, "%s[%s]" % (fld, k_)) for k_, x_ in d.items.items()}
                else:
                    o.fields[fld] = self.havoc_like(cur, fld)

    def _loop_key(self, st, mods):
        def show(v, depth=0):
            if isinstance(v, Ref):
                if v.oid not in st.heap or depth > 1:
                    return "ref"
                o = st.heap[v.oid]
                if o.kind == "object":
                    return "obj:%s#%d" % (o.cls, v.oid)
                if o.kind == "symlist":
                    return "symlist#%d" % v.oid
                items = o.items if o.items is not None else []
                if isinstance(items, dict):
                    return "dict{%s}" % ",".join("%r:%s" % (k_, show(x, depth + 1)) for k_, x in items.items())
                return "%s[%s]" % (o.kind, ",".join(show(x, depth + 1) for x in items))
            if is_z3(v):
                return v.sexpr()
            return repr(v)
        return tuple(sorted((n, show(v)) for n, v in st.env.items() if n not in mods))

    LIST_MUTATORS = {"append", "insert", "pop", "remove", "extend", "clear", "sort", "reverse", "update", "setdefault", "popitem", "add", "discard"}

    def havoc_loop_frame(self, stmts, st, ctx):
        """Heap locations the loop body may change *other than by a syntactic attribute assignment in the body itself*:
        attributes assigned through a property setter or inside a method / private helper the body calls (followed transitively
        through the real source), fields named in the `modifies` of a contract applied in the body, the contents of lists and
        of objects that are the receiver of a mutating or unknown (hooked) method call, and callable attribute objects that
        are called (self.integrator(...)).  Everything found is given a fresh value of its sort at the loop head."""
        fields, whole, seen = set(), set(), set()

        def mangle(name, cls):
            if name.startswith("__") and not name.endswith("__") and cls is not None:
                return "_%s%s" % (cls.name.lstrip("_"), name)
            return name

        def resolve(expr, emap, cls):
            if isinstance(expr, ast.Name):
                return emap.get(expr.id)
            if isinstance(expr, ast.Attribute):
                base = resolve(expr.value, emap, cls)
                if isinstance(base, Ref) and base.oid in st.heap and st.obj(base).kind == "object":
                    return st.obj(base).fields.get(mangle(expr.attr, cls))
            return None

        def visit_callee(fi, recv, depth):
            key = (fi.file, fi.qualname, getattr(recv, "oid", None))
            if key in seen or depth > 5:
                return
            seen.add(key)
            params = [a.arg for a in fi.node.args.posonlyargs + fi.node.args.args]
            emap = {params[0]: recv} if params else {}
            visit(fi.node.body, emap, fi.cls, depth + 1)

        def assigned(owner_expr, attr, emap, cls, depth, subscript=False):
            owner = resolve(owner_expr, emap, cls)
            if not (isinstance(owner, Ref) and owner.oid in st.heap):
                return
            o = st.obj(owner)
            if o.kind != "object":
                return
            setter = self.src.find_setter(o.cls, attr)
            if setter is not None and not subscript:
                if "%s.%s.setter" % (setter.cls.name, attr) in self.call_hooks:
                    whole.add(owner.oid)
                else:
                    visit_callee(setter, owner, depth)
                return
            fld = mangle(attr, cls)
            fields.add((owner.oid, fld))
            v = o.fields.get(fld)
            if subscript and isinstance(v, Ref):
                whole.add(v.oid)

        def visit(stmts_, emap, cls, depth):
            for stn in stmts_:
                for n in ast.walk(stn):
                    if isinstance(n, (ast.Assign, ast.AugAssign, ast.AnnAssign)):
                        tgts = n.targets if isinstance(n, ast.Assign) else [n.target]
                        for t in tgts:
                            for x in ast.walk(t):
                                if isinstance(x, ast.Attribute) and isinstance(x.ctx, ast.Store):
                                    assigned(x.value, x.attr, emap, cls, depth)
                                if isinstance(x, ast.Subscript) and isinstance(x.ctx, ast.Store) and isinstance(x.value, ast.Attribute):
                                    assigned(x.value.value, x.value.attr, emap, cls, depth, subscript=True)
                    if isinstance(n, ast.Call) and isinstance(n.func, ast.Attribute):
                        recv = resolve(n.func.value, emap, cls)
                        if not (isinstance(recv, Ref) and recv.oid in st.heap):
                            continue
                        o = st.obj(recv)
                        m = n.func.attr
                        if o.kind != "object":
                            if m in self.LIST_MUTATORS:
                                whole.add(recv.oid)
                            continue
                        fval = o.fields.get(mangle(m, cls))
                        if isinstance(fval, Ref) and fval.oid in st.heap:
                            whole.add(fval.oid)                 # a callable object held in an attribute is called: its own state may change
                            continue
                        fi = self.src.find_method(o.cls, m)
                        keys = ["%s.%s" % (o.cls, m)] + (["%s.%s" % (fi.cls.name, m)] if fi is not None else [])
                        if any(k in self.call_hooks for k in keys):
                            whole.add(recv.oid)
                            continue
                        con = next((self.contracts[k] for k in keys if k in self.contracts), None)
                        if con is not None:
                            for mod in con.modifies:
                                parts = mod.split(".")
                                fcls = fi.cls if fi is not None else cls
                                if len(parts) == 2:
                                    if parts[1] == "*":
                                        whole.add(recv.oid)
                                    else:
                                        fields.add((recv.oid, mangle(parts[1], fcls)))
                                elif len(parts) == 3 and parts[2] == "*":
                                    sub = o.fields.get(mangle(parts[1], fcls))
                                    if isinstance(sub, Ref):
                                        whole.add(sub.oid)
                            continue
                        if fi is not None:
                            visit_callee(fi, recv, depth)

        visit(stmts, dict(st.env), ctx.cls, 0)
        for oid, fld in sorted(fields, key=lambda x: (x[0], x[1])):
            o = st.heap[oid]
            if fld in o.fields:
                v = o.fields[fld]
                if isinstance(v, Ref) and v.oid in st.heap and st.heap[v.oid].kind != "object":
                    whole.add(v.oid)
                elif not isinstance(v, Ref):
                    o.fields[fld] = self.havoc_like(v, fld)
        for oid in sorted(whole):
            self.havoc_object(oid, st, set())

    def havoc_object(self, oid, st, done):
        if oid in done or oid not in st.heap:
            return
        done.add(oid)
        o = st.heap[oid]
        if o.kind == "symlist":
            pre = "hl%d" % oid
            o.fields["len"] = z3.Int(fresh_name(pre + "_len"))
            st.assume(o.fields["len"] >= 0)
            o.fields["cols"] = {k: z3.Array(fresh_name(pre + "_" + k), a.sort().domain(), a.sort().range()) for k, a in o.fields["cols"].items()}
        elif o.kind == "object":
            for k, v in list(o.fields.items()):
                if isinstance(v, Ref):
                    if v.oid in st.heap and st.heap[v.oid].kind == "symlist":
                        self.havoc_object(v.oid, st, done)
                elif is_z3(v) or isinstance(v, (SeqVal, ConcVec, Fraction)) or (isinstance(v, (int, bool)) and not isinstance(v, str)):
                    o.fields[k] = self.havoc_like(v, k)
        elif o.kind == "dict" and isinstance(o.items, dict):
            # a dict with literal keys: every value becomes arbitrary (see havoc_attr_path)
            o.items = {k_: self.havoc_like(x_, "dict[%s]" % (k_,)) for k_, x_ in o.items.items()}
        elif o.kind in ("list", "dict"):
            if o.items:
                raise Unsupported("a literal %s that the loop body mutates through a method call cannot be cut by an invariant (make it a symbolic-length list)" % o.kind)

    def unroll_while(self, node, st, ctx, limit=40):
        """While loop without invariant: unroll while the guard is concrete (bounded by `limit`)."""
        out = []
        live = [st]
        for _ in range(limit):
            nxt = []
            for s in live:
                for s1, g in self.eval(node.test, s, ctx):
                    if isinstance(g, Raised):
                        out.append((s1, ("raise", g.exc)))
                        continue
                    if is_z3(g):
                        gb = z3.simplify(to_bool(g))
                        if z3.is_true(gb):
                            t = True
                        elif z3.is_false(gb):
                            t = False
                        else:
                            # the guard is symbolic: it is still decided if the path condition entails it or its negation
                            can_t, can_f = self.entailed_branch(s1, gb)
                            if can_t and not can_f:
                                t = True
                            elif can_f and not can_t:
                                t = False
                            elif not can_t and not can_f:
                                continue          # the path itself is infeasible
                            elif getattr(self, "fork_unrolled_guards", False) and _ < 6:
                                # both outcomes possible: follow both (the unrolling stays bounded by `limit`; a loop that does not
                                # finish within it is reported as unsupported below)
                                s_exit = s1.fork()
                                s_exit.assume(z3.Not(gb))
                                out.extend(self.exec_block(node.orelse, s_exit, ctx) if node.orelse else [(s_exit, None)])
                                s1.assume(gb)
                                t = True
                            else:
                                if os.environ.get("VERIF_TRACE"):
                                    sys.stderr.write("[unroll-pc] %s\n" % [str(a)[:120] for a in s1.pc if "hl1_len" in str(a) and len(str(a)) < 400])
                                    sys.stderr.write("[unroll] guard %s (raw %s) undecided at line %d; env __pre_length=%s; trace=%s\n" % (gb, g, node.lineno, s1.env.get("__pre_length"), s1.trace[-12:]))
                                raise Unsupported("while loop at line %d has a symbolic guard and no invariant" % node.lineno)
                    else:
                        t = self.truth(g, s1)
                    if not t:
                        out.extend(self.exec_block(node.orelse, s1, ctx) if node.orelse else [(s1, None)])
                        continue
                    for s2, oc in self.exec_block(node.body, s1, ctx):
                        if oc is None or oc[0] == "continue":
                            nxt.append(s2)
                        elif oc[0] == "break":
                            out.append((s2, None))
                        else:
                            out.append((s2, oc))
            live = nxt
            if not live:
                return out
        raise Unsupported("while loop at line %d not finished after %d unrollings" % (node.lineno, limit))

    # ------------------------------------------------------------------------------------------
    # verifying one function against its contract
    # ------------------------------------------------------------------------------------------
    def make_param(self, name, sort, st):
        if isinstance(sort, tuple) and sort[0] == "obj":
            fields = {k: self.make_param(name + "." + k, v, st) for k, v in sort[2].items()}
            return st.new_obj(sort[1], fields=fields)
        if isinstance(sort, tuple) and sort[0] == "uf":
            return UFunc(sort[1], mode=sort[2] if len(sort) > 2 else "real", may_raise=(len(sort) > 3 and sort[3]))
        if isinstance(sort, tuple) and sort[0] == "tuple":
            return tuple(self.make_param("%s.%d" % (name, i), s, st) for i, s in enumerate(sort[1:]))
        if isinstance(sort, tuple) and sort[0] == "list":
            return st.new_obj("list", "list", items=[self.make_param("%s.%d" % (name, i), s, st) for i, s in enumerate(sort[1:])])
        if isinstance(sort, tuple) and sort[0] == "const":
            return sort[1]
        if isinstance(sort, tuple) and sort[0] == "slice":
            return slice(*[self.make_param("%s.%s" % (name, k), s_, st) for k, s_ in zip(("start", "stop", "step"), sort[1:])])
        if sort == "Int":
            return z3.Int(name)
        if sort == "Real":
            return z3.Real(name)
        if sort == "Bool":
            return z3.Bool(name)
        if sort == "Seq[Real]":
            return SeqVal(z3.Array(name, z3.IntSort(), z3.RealSort()), z3.Int(name + "_len"), "Real")
        if sort == "Seq[Int]":
            return SeqVal(z3.Array(name, z3.IntSort(), z3.IntSort()), z3.Int(name + "_len"), "Int")
        if sort == "None":
            return None
        if sort == "Opaque":
            return Opaque(name)
        raise Unsupported("sort %r" % (sort,))

    def verify(self, c, extra_assume=None, post_hook=None, region=None, args_override=None, regions=None):
        """Verify function c.func against contract c.  Returns the list of (state, value) return paths."""
        fi = self.src.func(c.file, c.func)
        st = State()
        a = fi.node.args
        names = [p.arg for p in a.posonlyargs + a.args + a.kwonlyargs]
        args = {}
        for n in names:
            if args_override and n in args_override:
                args[n] = args_override[n]
            elif n in c.sorts:
                args[n] = self.make_param(n, c.sorts[n], st)
        ghost = {}
        for n, srt in (c.ghost or {}).items():
            ghost[n] = self.make_param(n, srt, st)
        self.last_inputs = dict(args)
        self.last_inputs.update(ghost)
        for n in (getattr(c, "borrowed", None) or ()):
            # arguments the caller still holds: whatever object a parameter (or one of its items) is, it may not be written into
            if n in args:
                for item in ([args[n]] + (list(args[n]) if isinstance(args[n], (tuple, list)) else [])):
                    self.borrowed[id(item)] = ("argument `%s`" % n, item)
        for n, tag in (getattr(c, "dtypes", None) or {}).items():
            if n in args:
                self.dtype_tags[id(args[n])] = (tag, args[n])
        ctx = Ctx(fi, c, fi.cls, lifted=c.lifted, tag=fi.qualname)
        st.env = dict(args)
        st.env.update(ghost)
        st.ghost["_ghost_env"] = ghost
        # sequences have non-negative length
        for v in args.values():
            if isinstance(v, SeqVal):
                st.assume(v.length >= 0)
        for r in c.requires:
            st.assume(to_bool(self.eval_spec(r, st, ctx)))
        for ea in (extra_assume or []):
            st.assume(to_bool(self.eval_spec(ea, st, ctx)) if isinstance(ea, str) else ea)
        ctx.entry = st.fork()
        self.reg.cover("%s/%s/cover#requires" % (self.prop, fi.qualname), fi.qualname, self.global_axioms + st.pc)
        pos = [args[n] for n in [p.arg for p in a.posonlyargs + a.args] if n in args]
        kw = {n: args[n] for n in [p.arg for p in a.kwonlyargs] if n in args}
        paths = self.call_function(fi, pos, kw, st, ctx, contract=c, lifted=c.lifted)
        rets = []
        for i, (s, v) in enumerate(paths):
            self.stats["paths"] += 1
            tr = ".".join("%d%s" % (ln, "T" if b else "F") for ln, b in s.trace)
            pctx = Ctx(fi, c, fi.cls, lifted=c.lifted, tag=fi.qualname)
            pctx.entry = ctx.entry
            if not self.feas_quantified:
                # paths were pruned by the quantifier-free part only: a path whose full condition is unsatisfiable is dropped here
                # (its obligations hold vacuously); the covers below are only asked of the paths that remain
                chk = z3.Solver()
                chk.set("timeout", 5000)
                for a_ in self.global_axioms + s.pc:
                    chk.add(a_)
                if chk.check() == z3.unsat:
                    self.stats["paths_dropped_infeasible"] = self.stats.get("paths_dropped_infeasible", 0) + 1
                    continue
            if i < 40:
                self.reg.cover("%s/%s/cover#return-path[%s]" % (self.prop, fi.qualname, tr), fi.qualname, self.global_axioms + s.pc)
            if isinstance(v, Raised):
                clauses, kind, extra = c.ensures_exc, "post-exc", {"exc": v.exc}
            else:
                clauses, kind, extra = c.ensures, "post", {"result": v}
            env = dict(s.ghost.get("_ret_env") or {})
            for n in names:
                env.setdefault(n, args.get(n))
            for n, gv in ghost.items():
                env.setdefault(n, gv)
            env.update(extra)
            batch = []
            for j, e in enumerate(clauses):
                g = self.eval_spec(e, s, pctx, extra=env)
                reg_j = region
                if regions and (kind, j) in regions:
                    fid, rtext = regions[(kind, j)]
                    reg_j = (fid + ": " + rtext, to_bool(self.eval_spec(rtext, s, pctx, extra=env)))
                if reg_j is None:
                    batch.append((g, kind, "%s#%d[%s]" % (kind, j, tr), None))
                else:
                    self.prove(s, pctx, g, kind, "%s#%d[%s]" % (kind, j, tr), region=reg_j)
            if batch:
                self.prove_many(s, pctx, batch)
            if post_hook:
                post_hook(self, s, v, pctx, tr)
            rets.append((s, v))
        for (tag, k_, ln), ok in sorted(self._for_covers.items()):
            self.reg.ground("%s/%s/cover#loop%d-body-reachable@L%d" % (self.prop, tag, k_, ln), "cover", tag, bool(ok), backend="z3",
                            detail="counted loop cut by an invariant: its body is reachable on at least one visit")
        self._for_covers = {}
        return rets


# ----------------------------------------------------------------------------------------------
# AST utilities
# ----------------------------------------------------------------------------------------------
def _short(v):
    r = repr(v)
    return r if len(r) < 80 else r[:77] + "..."


def _has_call(nodes):
    for n in nodes:
        for x in ast.walk(n):
            if isinstance(x, ast.Call):
                return True
    return False


def _outcome_to_value(oc):
    if oc is None:
        return None
    if oc[0] == "return":
        return oc[1]
    if oc[0] == "raise":
        return Raised(oc[1])
    raise Unsupported("break/continue outside loop")


def _restore_env(s, saved_env, st):
    return saved_env


def _nonlocals(fn):
    out = set()
    for n in ast.walk(fn):
        if isinstance(n, ast.Nonlocal):
            out.update(n.names)
    return out


def _as_load(t):
    t2 = ast.parse(ast.unparse(t), mode="eval").body
    return ast.copy_location(t2, t) if hasattr(t, "lineno") else t2


def _as_store_target(t):
    return t


_DROPPED_CALLS = ("print", "warnings.filterwarnings", "warnings.warn", "deutil.warning", "utilities.warning")


def _is_dropped_call(v):
    if isinstance(v, ast.Call):
        name = ast.unparse(v.func)
        if name in _DROPPED_CALLS or name.startswith("tqdm_progress_bar."):
            return True
    return False


def _is_dropped_if(node):
    t = ast.unparse(node.test)
    if t == "verbose":
        return True
    if "== 'torch'" in t or '== "torch"' in t:
        # A5: numpy backend only -- torch branches are cut (only when there is no else branch to run)
        return not node.orelse
    return False


def _modified_names(stmts):
    out = set()
    for st in stmts:
        for n in ast.walk(st):
            if isinstance(n, (ast.Assign, ast.AugAssign, ast.AnnAssign, ast.For)):
                tgts = n.targets if isinstance(n, ast.Assign) else [n.target]
                for t in tgts:
                    for x in ast.walk(t):
                        if isinstance(x, ast.Name) and isinstance(x.ctx, ast.Store):
                            out.add(x.id)
                        if isinstance(x, ast.Subscript) and isinstance(x.value, ast.Name):
                            out.add(x.value.id)
            if isinstance(n, ast.NamedExpr):
                out.add(n.target.id)
    return out


def _modified_attrs(stmts):
    out = set()
    for st in stmts:
        for n in ast.walk(st):
            if isinstance(n, (ast.Assign, ast.AugAssign)):
                tgts = n.targets if isinstance(n, ast.Assign) else [n.target]
                for t in tgts:
                    for x in ast.walk(t):
                        if isinstance(x, ast.Attribute) and isinstance(x.ctx, ast.Store):
                            out.add(ast.unparse(x))
                        if isinstance(x, ast.Subscript) and isinstance(x.value, ast.Attribute):
                            out.add(ast.unparse(x.value))
    return out
