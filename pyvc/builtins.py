"""Operator tables of the executor: python builtins, arithmetic on the value domains, and the numpy /
autoray operations the verified functions use (assumption A3: documented element-wise / reduction meaning)."""
from fractions import Fraction
import z3

from .values import (Poly, LinComb, BlockVec, SeqVal, Ref, HeapObj, Closure, UFunc, ModuleRef, BoundMethod, Opaque,
                     ExcVal, ConcVec, TabVal, RangeIdx, deps_of, fresh_name, is_z3, to_z3, to_real, to_bool, to_poly)


class Havoc(Exception):
    """Raised by an operator that cannot interpret its operands: the executor havocs the result."""


class PyIter(object):
    def __init__(self, items):
        self.items = list(items)


class InfVal(object):
    """numpy.inf (only ever compared; reals are finite under A1)."""

    def __init__(self, sign=1):
        self.sign = sign

    def __repr__(self):
        return "inf" if self.sign > 0 else "-inf"


INF = InfVal()
IN_PLACE = object()

EXCEPTION_CLASSES = {"ValueError", "TypeError", "IndexError", "KeyError", "RuntimeError", "AssertionError",
                     "FailedIntegration", "FailedToMeetTolerances", "Exception", "KeyboardInterrupt",
                     "RecursionError", "NotImplementedError", "MemoryError"}


def _num(v):
    return isinstance(v, (int, Fraction)) or isinstance(v, bool)


def _scalar(v):
    return _num(v) or (is_z3(v) and not z3.is_array(v))


def neg(v):
    if isinstance(v, ConcVec):
        return ConcVec(neg(x) for x in v.items)
    if _num(v):
        return -v
    if is_z3(v):
        return -v
    if isinstance(v, (Poly, LinComb, BlockVec)):
        return -v
    if isinstance(v, Opaque):
        return Opaque("neg")
    if isinstance(v, InfVal):
        return InfVal(-v.sign)
    raise Havoc("neg")


def ite(c, a, b):
    """z3 If lifted over the value domains (c is a z3 Bool)."""
    c = z3.simplify(c)
    if z3.is_true(c):
        return a
    if z3.is_false(c):
        return b
    if a is b:
        return a
    if isinstance(a, bool) and isinstance(b, bool) or (is_z3(a) and z3.is_bool(a)) or (is_z3(b) and z3.is_bool(b)):
        return z3.If(c, to_bool(a), to_bool(b))
    if _scalar(a) and _scalar(b):
        ta, tb = to_z3(a), to_z3(b)
        if z3.is_int(ta) and z3.is_int(tb):
            return z3.If(c, ta, tb)
        return z3.If(c, to_real(ta), to_real(tb))
    if isinstance(a, tuple) and isinstance(b, tuple) and len(a) == len(b):
        return tuple(ite(c, x, y) for x, y in zip(a, b))
    if isinstance(a, SeqVal) and isinstance(b, SeqVal):
        return SeqVal(z3.If(c, a.arr, b.arr), z3.If(c, a.length, b.length), a.elem)
    raise Havoc("ite over %r / %r" % (type(a).__name__, type(b).__name__))


def _pow_int(x, n):
    r = 1
    for _ in range(n):
        r = r * x
    return r


def binop(ex, op, a, b, st, ctx):
    # ---------------- python sets of concrete keys
    if isinstance(a, (set, frozenset)) and isinstance(b, (set, frozenset)) and op in ("BitOr", "BitAnd", "Sub", "BitXor"):
        return frozenset({"BitOr": a | b, "BitAnd": a & b, "Sub": a - b, "BitXor": a ^ b}[op])
    # ---------------- opaque / inf propagate
    if isinstance(a, Opaque) or isinstance(b, Opaque):
        da, db = deps_of(a), deps_of(b)
        return Opaque("op", deps=(da | db) if da is not None and db is not None else None)
    if isinstance(a, InfVal) or isinstance(b, InfVal):
        # +-inf against finite values (A1: every other real-valued quantity is finite): inf +- x = inf, x - inf = -inf, inf * c = sign(c) inf
        # for a concrete non-zero number c; everything else (inf - inf, inf * symbolic, division) is not modelled
        if op in ("Add", "Sub") and not (isinstance(a, InfVal) and isinstance(b, InfVal)):
            if isinstance(a, InfVal):
                return InfVal(a.sign)
            return InfVal(b.sign if op == "Add" else -b.sign)
        if op == "Mult":
            other = b if isinstance(a, InfVal) else a
            inf = a if isinstance(a, InfVal) else b
            if _num(other) and other != 0:
                return InfVal(inf.sign if other > 0 else -inf.sign)
        raise Havoc("arithmetic on inf")
    # ---------------- concrete-length vectors (stage arrays, table rows): element-wise, scalars broadcast
    if isinstance(a, Ref) and st.obj(a).kind == "stages":
        a = ConcVec(st.obj(a).items)
    if isinstance(b, Ref) and st.obj(b).kind == "stages":
        b = ConcVec(st.obj(b).items)
    if isinstance(a, ConcVec) or isinstance(b, ConcVec):
        if isinstance(a, ConcVec) and isinstance(b, ConcVec):
            if len(a) != len(b):
                raise Havoc("vector length mismatch %d vs %d" % (len(a), len(b)))
            return ConcVec(binop(ex, op, x, y, st, ctx) for x, y in zip(a.items, b.items))
        if isinstance(a, ConcVec):
            return ConcVec(binop(ex, op, x, b, st, ctx) for x in a.items)
        return ConcVec(binop(ex, op, a, y, st, ctx) for y in b.items)
    # ---------------- strings / sequences
    if isinstance(a, str) or isinstance(b, str):
        return "<str>"
    if isinstance(a, tuple) and isinstance(b, tuple) and op == "Add":
        return a + b
    if isinstance(a, tuple) and isinstance(b, int) and op == "Mult":
        return a * b
    if isinstance(a, Ref) or isinstance(b, Ref):
        oa = st.obj(a) if isinstance(a, Ref) else None
        ob = st.obj(b) if isinstance(b, Ref) else None
        if op == "Add" and oa is not None and ob is not None and oa.kind == "list" and ob.kind == "list":
            return st.new_obj("list", "list", items=oa.items + ob.items)
        if op == "Mult" and oa is not None and oa.kind == "list" and isinstance(b, int):
            return st.new_obj("list", "list", items=oa.items * b)
        raise Havoc("arithmetic on heap object")
    # ---------------- a coefficient table scaled by a scalar (h * A): the table of the scaled entries
    if op == "Mult" and (isinstance(a, TabVal) or isinstance(b, TabVal)):
        tab_, sc = (a, b) if isinstance(a, TabVal) else (b, a)
        if isinstance(sc, (int, Fraction, Poly)) and not isinstance(sc, bool):
            return TabVal([[binop(ex, "Mult", sc, x, st, ctx) for x in row] for row in tab_.rows])
    # ---------------- vectors
    if isinstance(a, (LinComb, BlockVec)) or isinstance(b, (LinComb, BlockVec)):
        return _vec_binop(op, a, b)
    # ---------------- polynomials (exact)
    if isinstance(a, Poly) or isinstance(b, Poly):
        if is_z3(a) or is_z3(b):
            a = a.to_z3() if isinstance(a, Poly) else a
            b = b.to_z3() if isinstance(b, Poly) else b
        else:
            pa, pb = to_poly(a), to_poly(b)
            if pa is None or pb is None:
                raise Havoc("polynomial arithmetic with %s" % type(b if pa is not None else a).__name__)
            if op == "Add":
                return pa + pb
            if op == "Sub":
                return pa - pb
            if op == "Mult":
                return pa * pb
            if op == "Div":
                if pb.is_const():
                    if pb.const_value() == 0:
                        raise Havoc("division by zero")
                    return pa.div_const(pb.const_value())
                q = pa.try_div(pb)
                if q is None:
                    raise Havoc("polynomial division")
                return q
            if op == "Pow" and pb.is_const() and pb.const_value().denominator == 1 and pb.const_value() >= 0:
                return _pow_int(pa, int(pb.const_value()))
            raise Havoc("poly op " + op)
    # ---------------- concrete numbers
    if _num(a) and _num(b):
        return _concrete(op, a, b)
    # ---------------- z3
    if _scalar(a) and _scalar(b):
        return _z3op(ex, op, a, b, ctx)
    if isinstance(a, SeqVal) or isinstance(b, SeqVal):
        return _seq_elementwise(ex, op, a, b, st, ctx)
    raise Havoc("operands %s, %s" % (type(a).__name__, type(b).__name__))


def _seq_elementwise(ex, op, a, b, st, ctx):
    """numpy broadcasting of a 1-D array with a scalar (or an equally long array): a z3 lambda array (A3)."""
    i = z3.Int(fresh_name("i"))
    ea = z3.Select(a.arr, i) if isinstance(a, SeqVal) else to_z3(a)
    eb = z3.Select(b.arr, i) if isinstance(b, SeqVal) else to_z3(b)
    if not (_scalar(ea) and _scalar(eb)):
        raise Havoc("array arithmetic with non-scalar")
    body = _z3op(ex, op, ea, eb, ctx)
    length = a.length if isinstance(a, SeqVal) else b.length
    return SeqVal(z3.Lambda([i], to_real(body)), length, "Real")


def _concrete(op, a, b):
    if isinstance(a, bool) and isinstance(b, bool) and op in ("BitAnd", "BitOr", "BitXor"):
        return {"BitAnd": a and b, "BitOr": a or b, "BitXor": a != b}[op]
    if op == "Add":
        return a + b
    if op == "Sub":
        return a - b
    if op == "Mult":
        return a * b
    if op == "Div":
        if b == 0:
            raise Havoc("division by zero")
        return Fraction(a) / Fraction(b)
    if op == "FloorDiv":
        if b == 0:
            raise Havoc("division by zero")
        return a // b
    if op == "Mod":
        return a % b
    if op == "Pow":
        if isinstance(b, int) or (isinstance(b, Fraction) and b.denominator == 1):
            b = int(b)
            if b >= 0:
                return _pow_int(a, b) if not isinstance(a, bool) else int(a) ** b
            return Fraction(1) / _pow_int(Fraction(a), -b)
        raise Havoc("non-integer power")
    if op == "LShift":
        return int(a) << int(b)
    if op == "RShift":
        return int(a) >> int(b)
    if op == "BitAnd":
        return int(a) & int(b)
    if op == "BitOr":
        return int(a) | int(b)
    raise Havoc("concrete op " + op)


def _z3op(ex, op, a, b, ctx):
    ta, tb = to_z3(a), to_z3(b)
    if op in ("BitAnd", "BitOr", "BitXor"):
        if z3.is_bool(ta) or z3.is_bool(tb):
            ba, bb = to_bool(a), to_bool(b)
            return {"BitAnd": z3.And(ba, bb), "BitOr": z3.Or(ba, bb), "BitXor": z3.Xor(ba, bb)}[op]
        raise Havoc("bit op on numbers")
    if z3.is_bool(ta):
        ta = z3.If(ta, z3.IntVal(1), z3.IntVal(0))
    if z3.is_bool(tb):
        tb = z3.If(tb, z3.IntVal(1), z3.IntVal(0))
    both_int = z3.is_int(ta) and z3.is_int(tb)
    if op == "Add":
        return ta + tb
    if op == "Sub":
        return ta - tb
    if op == "Mult":
        return ta * tb
    if op == "Div":
        return to_real(ta) / to_real(tb)
    if op == "FloorDiv":
        if both_int:
            # python floors; z3 div is Euclidean (== floor for positive divisors)
            return z3.If(tb > 0, ta / tb, (-ta) / (-tb))
        q = to_real(ta) / to_real(tb)
        return z3.ToReal(z3.ToInt(q))
    if op == "Mod":
        if both_int:
            return z3.If(tb > 0, ta % tb, -((-ta) % (-tb)))
        raise Havoc("real modulo")
    if op == "Pow":
        if _num(b) and (isinstance(b, int) or b.denominator == 1) and int(b) >= 0:
            return _pow_int(ta, int(b))
        if _num(b) and (isinstance(b, int) or b.denominator == 1) and int(b) < 0:
            return z3.RealVal(1) / _pow_int(to_real(ta), -int(b))
        return ex.uf("pow", 2)(to_real(ta), to_real(tb))
    raise Havoc("z3 op " + op)


def _vec_binop(op, a, b):
    va = isinstance(a, (LinComb, BlockVec))
    vb = isinstance(b, (LinComb, BlockVec))
    if is_z3(a) or is_z3(b):
        raise Havoc("LinComb with z3 scalar")
    if op == "Add":
        r = a + b
    elif op == "Sub":
        r = a - b
    elif op == "Mult":
        if va and vb:
            if isinstance(a, BlockVec) and isinstance(b, BlockVec):
                r = a.scale(b)
            else:
                raise Havoc("product of vectors")
        elif va:
            r = a.scale(b)
        else:
            r = b.scale(a)
    elif op == "Div":
        if vb:
            raise Havoc("division by vector")
        p = to_poly(b)
        if p is None:
            raise Havoc("division of vector by non-scalar")
        if p.is_const():
            if p.const_value() == 0:
                raise Havoc("division by zero")
            r = a.scale(Poly.const(1 / p.const_value()))
        else:
            # divide every coefficient exactly
            if isinstance(a, LinComb):
                t = {}
                for at, c in a.terms.items():
                    q = c.try_div(p)
                    if q is None:
                        raise Havoc("inexact coefficient division")
                    t[at] = q
                r = LinComb(t)
            else:
                raise Havoc("blockvec division by symbol")
    else:
        raise Havoc("vector op " + op)
    if r is NotImplemented:
        raise Havoc("vector op %s on %r,%r" % (op, type(a).__name__, type(b).__name__))
    return r


def compare(ex, op, a, b, st, ctx):
    if op in ("Is", "IsNot") and any(isinstance(x, Opaque) and x.tag.split("!")[0] == "module_state" for x in (a, b)):
        # identity with something read from module-level state: whatever an earlier call stored -- not known
        r = z3.Bool(fresh_name("is_module_state"))
        return r if op == "Is" else z3.Not(r)
    if op in ("Is", "IsNot"):
        if a is None or b is None:
            same = (a is None and b is None)
        elif isinstance(a, Ref) and isinstance(b, Ref):
            same = a == b
        elif isinstance(a, (bool, str)) or isinstance(b, (bool, str)):
            same = (a is b) or (type(a) == type(b) and a == b)
        else:
            same = a is b
        return same if op == "Is" else not same
    if op in ("In", "NotIn"):
        r = _contains(ex, b, a, st)
        if is_z3(r):
            return r if op == "In" else z3.Not(r)
        return r if op == "In" else not r
    if isinstance(a, InfVal) or isinstance(b, InfVal):
        return _cmp_inf(op, a, b)
    if isinstance(a, ConcVec) or isinstance(b, ConcVec):
        if isinstance(a, ConcVec) and isinstance(b, ConcVec):
            return ConcVec(compare(ex, op, x, y, st, ctx) for x, y in zip(a.items, b.items))
        if isinstance(a, ConcVec):
            return ConcVec(compare(ex, op, x, b, st, ctx) for x in a.items)
        return ConcVec(compare(ex, op, a, y, st, ctx) for y in b.items)
    if isinstance(a, Opaque) or isinstance(b, Opaque):
        if op in ("Eq", "NotEq") and (a is None or b is None or isinstance(a, str) or isinstance(b, str)):
            return op == "NotEq"
        ex.note_unmodelled(ctx, "comparison with opaque value")
        r = z3.Bool(fresh_name("cmp"))
        ex.cmp_log[str(r)] = (op, a, b)          # provenance: which values the unmodelled comparison was made between
        return r
    if isinstance(a, Poly) or isinstance(b, Poly):
        pa, pb = to_poly(a), to_poly(b)
        if pa is not None and pb is not None:
            d = pa - pb
            if d.is_const():
                return _cmp_concrete(op, d.const_value(), 0)
            a, b = pa.to_z3(), pb.to_z3()
        else:
            a = a.to_z3() if isinstance(a, Poly) else a
            b = b.to_z3() if isinstance(b, Poly) else b
    if _num(a) and _num(b):
        return _cmp_concrete(op, a, b)
    if _scalar(a) and _scalar(b):
        ta, tb = to_z3(a), to_z3(b)
        if z3.is_bool(ta) != z3.is_bool(tb):
            if z3.is_bool(ta):
                ta = z3.If(ta, z3.IntVal(1), z3.IntVal(0))
            else:
                tb = z3.If(tb, z3.IntVal(1), z3.IntVal(0))
        return {"Eq": lambda: ta == tb, "NotEq": lambda: ta != tb, "Lt": lambda: ta < tb, "LtE": lambda: ta <= tb,
                "Gt": lambda: ta > tb, "GtE": lambda: ta >= tb}[op]()
    if op in ("Eq", "NotEq"):
        r = _struct_eq(a, b, st)
        if is_z3(r):
            return r if op == "Eq" else z3.Not(r)
        return r if op == "Eq" else not r
    if isinstance(a, tuple) and isinstance(b, tuple):
        return _cmp_concrete(op, a, b)
    if getattr(ex, "opaque_nondet", False) and (isinstance(a, (Opaque, BoundMethod)) or isinstance(b, (Opaque, BoundMethod))):
        return Opaque("cmp")          # comparison involving a value the executor does not model: nondeterministic (see Executor.cond)
    raise Havoc("compare %s %s %s" % (type(a).__name__, op, type(b).__name__))


def _cmp_concrete(op, a, b):
    return {"Eq": a == b, "NotEq": a != b, "Lt": a < b, "LtE": a <= b, "Gt": a > b, "GtE": a >= b}[op] \
        if op in ("Eq", "NotEq") else {"Lt": lambda: a < b, "LtE": lambda: a <= b, "Gt": lambda: a > b,
                                        "GtE": lambda: a >= b}[op]()


def _cmp_inf(op, a, b):
    # finite reals against +-inf (A1: every real-valued program variable is finite)
    if isinstance(a, InfVal) and isinstance(b, InfVal):
        return _cmp_concrete(op, a.sign, b.sign)
    if isinstance(b, InfVal):
        lt = b.sign > 0          # finite < +inf
        return {"Eq": False, "NotEq": True, "Lt": lt, "LtE": lt, "Gt": not lt, "GtE": not lt}[op]
    gt = a.sign > 0
    return {"Eq": False, "NotEq": True, "Lt": not gt, "LtE": not gt, "Gt": gt, "GtE": gt}[op]


def _struct_eq(a, b, st):
    if a is None or b is None:
        return a is None and b is None
    if isinstance(a, tuple) and isinstance(b, tuple):
        if len(a) != len(b):
            return False
        parts = [_struct_eq(x, y, st) for x, y in zip(a, b)]
        if all(isinstance(p, bool) for p in parts):
            return all(parts)
        return z3.And(*[to_bool(p) for p in parts])
    if _scalar(a) and _scalar(b):
        if _num(a) and _num(b):
            return a == b
        return to_z3(a) == to_z3(b) if z3.is_bool(to_z3(a)) == z3.is_bool(to_z3(b)) else to_real(a) == to_real(b)
    if isinstance(a, (LinComb, BlockVec)) and isinstance(b, (LinComb, BlockVec)):
        return a == b
    if isinstance(a, str) and isinstance(b, str):
        return a == b
    if isinstance(a, (Ref, UFunc, Closure, ModuleRef)) or isinstance(b, (Ref, UFunc, Closure, ModuleRef)):
        if isinstance(a, ModuleRef) and isinstance(b, ModuleRef):
            return a.path == b.path
        return a is b or (isinstance(a, Ref) and isinstance(b, Ref) and a == b)
    if type(a) != type(b):
        return False
    raise Havoc("equality of %s" % type(a).__name__)


def _contains(ex, container, item, st):
    if isinstance(container, Ref):
        o = st.obj(container)
        if o.kind == "dict":
            return item in o.items
        if o.kind == "list":
            return any(_struct_eq(item, x, st) is True for x in o.items)
    if isinstance(container, (tuple, frozenset, list)):
        return any(_struct_eq(item, x, st) is True for x in container)
    if isinstance(container, PyIter):
        return item in container.items
    if isinstance(container, str):
        if isinstance(item, str) and "<" not in container:
            return item in container
        return z3.Bool(fresh_name("instr"))
    if isinstance(container, Opaque):
        return z3.Bool(fresh_name("in"))
    if isinstance(container, ModuleRef):
        # a module-level container: whatever earlier calls (of any system, in any order) left in it -- membership is not known
        ex.module_reads.append((container.path, item))
        return z3.Bool(fresh_name("in_module_state"))
    raise Havoc("contains")


# ----------------------------------------------------------------------------------------------
# subscripts
# ----------------------------------------------------------------------------------------------
class OutOfBounds(Exception):
    def __init__(self, cond):
        self.cond = cond          # z3 Bool: index is in range


def _norm_index(ex, seq, idx, st, ctx, node, what):
    n = seq.length
    i = to_z3(idx)
    if not z3.is_int(i):
        raise Havoc("non-integer index")
    if not ctx.spec and getattr(ex, "oob_raises", False) and what == "load":
        # numpy semantics: an out-of-range index raises IndexError (the caller forks on this condition)
        inr = z3.And(i >= -n, i < n)
        s = z3.Solver()
        s.set("timeout", 2000)
        for a in ex.global_axioms + st.pc:
            s.add(a)
        s.add(z3.Not(inr))
        if s.check() != z3.unsat:
            raise OutOfBounds(inr)
    elif not ctx.spec:
        ex.prove(st, ctx, z3.And(i >= -n, i < n), "index-in-bounds",
                 "index-in-bounds:%s@L%s" % (what, getattr(node, "lineno", "?")), getattr(node, "lineno", None))
    if isinstance(idx, int):
        return i if idx >= 0 else n + i
    si = z3.simplify(i)
    return z3.If(si < 0, si + n, si)


def new_symlist(st, elem, prefix):
    """Python list of symbolic length: parallel z3 arrays + a z3 Int length.  elem 'real' (one column 'v') or 'piece'
    (interpolant objects: columns t0, t1, id)."""
    if elem == "event":
        cols = {"t": z3.Array(fresh_name(prefix + "_t"), z3.IntSort(), z3.RealSort()), "y": z3.Array(fresh_name(prefix + "_y"), z3.IntSort(), z3.RealSort()),
                "ev": z3.Array(fresh_name(prefix + "_ev"), z3.IntSort(), z3.IntSort())}
        return st.new_obj("symlist", "symlist", fields=dict(len=z3.Int(fresh_name(prefix + "_len")), cols=cols, elem=elem))
    cols = {"v": z3.Array(fresh_name(prefix + "_v"), z3.IntSort(), z3.RealSort())} if elem == "real" else \
        {"t0": z3.Array(fresh_name(prefix + "_t0"), z3.IntSort(), z3.RealSort()), "t1": z3.Array(fresh_name(prefix + "_t1"), z3.IntSort(), z3.RealSort()),
         "id": z3.Array(fresh_name(prefix + "_id"), z3.IntSort(), z3.IntSort())}
    n = z3.Int(fresh_name(prefix + "_len"))
    return st.new_obj("symlist", "symlist", fields=dict(len=n, cols=cols, elem=elem))


def symlist_from_items(st, items, elem, prefix="lst"):
    """The same python list, re-represented with a symbolic-length encoding (length is the literal len(items))."""
    ref = new_symlist(st, elem, prefix)
    o = st.obj(ref)
    o.fields["len"] = z3.IntVal(0)
    for x in items:
        new = _symlist_elem_cols(o, x, st)
        n = o.fields["len"]
        o.fields["cols"] = {k: z3.Store(a, n, new[k]) for k, a in o.fields["cols"].items()}
        o.fields["len"] = z3.IntVal(n.as_long() + 1)
    return ref


def _symlist_elem_cols(o, x, st):
    if o.fields["elem"] == "real":
        return {"v": to_real(x)}
    xf = st.obj(x).fields
    if o.fields["elem"] == "event":
        ev = xf["event"]
        evid = ev.attrs.get("id") if isinstance(ev, UFunc) else xf.get("ev")
        return {"t": to_real(xf["t"]), "y": to_real(xf["y"]), "ev": to_z3(evid)}
    return {"t0": to_real(xf["t0"]), "t1": to_real(xf["t1"]), "id": to_z3(xf["id"])}


def _symlist_get(ex, v, idx, st, ctx, node):
    o = st.obj(v)
    n = o.fields["len"]
    if isinstance(idx, int) and idx < 0:
        j = n + idx
    else:
        j = to_z3(idx)
    if not ctx.spec:
        ex.prove(st, ctx, z3.And(j >= 0, j < n), "index-in-bounds", "index-in-bounds:list-load@L%s" % getattr(node, "lineno", "?"), getattr(node, "lineno", None))
    if o.fields["elem"] == "real":
        return z3.Select(o.fields["cols"]["v"], j)
    c = o.fields["cols"]
    if o.fields["elem"] == "event":
        return st.new_obj("StateTuple", fields=dict(t=z3.Select(c["t"], j), y=z3.Select(c["y"], j), ev=z3.Select(c["ev"], j), event=None))
    return st.new_obj("CubicHermiteInterp", fields=dict(t0=z3.Select(c["t0"], j), t1=z3.Select(c["t1"], j), id=z3.Select(c["id"], j)))


def _symlist_method(ex, v, name, args, st, ctx):
    o = st.obj(v)
    n = o.fields["len"]
    cols = o.fields["cols"]
    i = z3.Int(fresh_name("i"))
    if name == "append":
        new = _symlist_elem_cols(o, args[0], st)
        o.fields["cols"] = {k: z3.Store(a, n, new[k]) for k, a in cols.items()}
        o.fields["len"] = n + 1
        return None
    if name == "insert":
        if not (isinstance(args[0], int) and args[0] == 0):
            raise Havoc("insert at a position other than 0")
        new = _symlist_elem_cols(o, args[1], st)
        o.fields["cols"] = {k: z3.Lambda([i], z3.If(i == 0, new[k], z3.Select(a, i - 1))) for k, a in cols.items()}
        o.fields["len"] = n + 1
        return None
    if name == "pop":
        idx = args[0] if args else -1
        j = n + idx if (isinstance(idx, int) and idx < 0) else to_z3(idx)
        if not ctx.spec:
            ex.prove(st, ctx, z3.And(j >= 0, j < n), "index-in-bounds", "index-in-bounds:list-pop")
        elem = _symlist_get(ex, v, idx, st, Ctx_spec(ctx), None)
        o.fields["cols"] = {k: z3.Lambda([i], z3.If(i < j, z3.Select(a, i), z3.Select(a, i + 1))) for k, a in cols.items()}
        o.fields["len"] = n - 1
        return elem
    raise Havoc("list method %s on a symbolic-length list" % name)


def Ctx_spec(ctx):
    return ctx.child_spec()


def _vec_index(items, idx):
    if isinstance(idx, ConcVec) and all(isinstance(m, int) and not isinstance(m, bool) for m in idx.items):
        return ConcVec(items[m] for m in idx.items)          # integer (fancy) index
    if isinstance(idx, ConcVec):            # boolean mask
        if len(idx) != len(items) or not all(isinstance(m, bool) for m in idx.items):
            raise Havoc("mask index")
        return ConcVec(x for x, m in zip(items, idx.items) if m)
    if isinstance(idx, int):
        return items[idx]
    if isinstance(idx, slice):
        return ConcVec(items[idx])
    raise Havoc("vector index %r" % (idx,))


def subscript(ex, v, idx, st, ctx, node=None):
    if isinstance(v, Opaque):
        return Opaque("module_state" if v.tag.split("!")[0] == "module_state" else "sub")
    if isinstance(v, TabVal):
        if isinstance(idx, tuple) and len(idx) == 2:
            r, c = idx
            if isinstance(r, int):
                return _vec_index(v.rows[r], c)
            if isinstance(r, slice) and isinstance(c, int):
                return ConcVec(row[c] for row in v.rows[r])
            if isinstance(r, slice) and isinstance(c, slice):
                return TabVal([row[c] for row in v.rows[r]])
        if isinstance(idx, int):
            return ConcVec(v.rows[idx])
        raise Havoc("table index %r" % (idx,))
    if isinstance(v, ConcVec):
        if isinstance(idx, tuple) and len(idx) == 2 and idx[0] is Ellipsis:
            idx = idx[1]
        return _vec_index(v.items, idx)
    if isinstance(v, Ref) and st.obj(v).kind == "matrix":
        rows = st.obj(v).items
        if isinstance(idx, tuple) and len(idx) == 2:
            r, c = idx
            if isinstance(r, int) and isinstance(c, int):
                return rows[r][c]
            if isinstance(r, slice) and r == slice(None) and isinstance(c, int):
                return ConcVec(row[c] for row in rows)
            if isinstance(r, int) and isinstance(c, slice) and c == slice(None):
                return ConcVec(rows[r])
        raise Havoc("matrix index %r" % (idx,))
    if isinstance(v, Ref) and st.obj(v).kind == "stages":
        items = tuple(st.obj(v).items)
        if isinstance(idx, tuple) and len(idx) == 2 and idx[0] is Ellipsis:
            return _vec_index(items, idx[1])
        if idx is Ellipsis:
            return ConcVec(items)
        raise Havoc("stage-array index %r" % (idx,))
    if isinstance(v, tuple) or isinstance(v, PyIter):
        items = v if isinstance(v, tuple) else tuple(v.items)
        if isinstance(idx, (int, slice)):
            return items[idx]
        raise Havoc("symbolic index into tuple")
    if isinstance(v, Ref) and st.obj(v).kind == "symlist":
        return _symlist_get(ex, v, idx, st, ctx, node)
    if isinstance(v, Ref):
        o = st.obj(v)
        if o.kind == "list":
            if isinstance(idx, int):
                if not (-len(o.items) <= idx < len(o.items)):
                    raise Havoc("list index out of range")
                return o.items[idx]
            if isinstance(idx, slice):
                return st.new_obj("list", "list", items=o.items[idx])
            if is_z3(idx):
                hook = ex.call_hooks.get("symindex")
                if hook:
                    return hook(ex, st, ctx, v, idx)
            raise Havoc("symbolic index into python list")
        if o.kind == "dict":
            if idx in o.items:
                return o.items[idx]
            raise Havoc("missing dict key %r" % (idx,))
        if o.kind == "dictview":
            tgt = st.obj(o.fields["target"])
            if idx in tgt.fields:
                return tgt.fields[idx]
            raise Havoc("missing attribute %r in __dict__" % (idx,))
        hook = ex.call_hooks.get("getitem:" + o.cls)
        if hook:
            return hook(ex, st, ctx, v, idx)
        raise Havoc("subscript of object %s" % o.cls)
    if isinstance(v, SeqVal):
        if idx is None:
            return v
        if isinstance(idx, slice) and idx.start is None and idx.stop is None and isinstance(idx.step, int) and idx.step == -1:
            # a[::-1]: the whole array in reverse order
            i = z3.Int(fresh_name("i"))
            return SeqVal(z3.Lambda([i], z3.Select(v.arr, v.length - 1 - i)), v.length, v.elem)
        if isinstance(idx, slice):
            lo, hi = idx.start, idx.stop
            if idx.step is not None and not (isinstance(idx.step, int) and idx.step == 1 and (lo is None or (isinstance(lo, int) and lo == 0))):
                return st.new_obj("SeqSlice", fields=dict(base=v, lo=lo if lo is not None else 0, hi=hi if hi is not None else v.length, step=idx.step))
            if lo is None or (isinstance(lo, int) and lo == 0):
                if hi is None:
                    return v
                h = to_z3(hi)
                h = z3.If(h < 0, v.length + h, h) if not (isinstance(hi, int) and hi >= 0) else h
                newlen = z3.If(h < v.length, z3.If(h < 0, z3.IntVal(0), h), v.length)
                return SeqVal(v.arr, z3.simplify(newlen), v.elem)
            return st.new_obj("SeqSlice", fields=dict(base=v, lo=lo if lo is not None else 0, hi=hi if hi is not None else v.length,
                                                      step=idx.step if idx.step is not None else 1))
        if isinstance(idx, tuple):
            raise Havoc("multi-axis index")
        if is_z3(idx) and z3.is_bool(idx):
            raise Havoc("mask index of sequence")
        j = _norm_index(ex, v, idx, st, ctx, node, "load")
        return z3.Select(v.arr, j)
    if _scalar(v):
        if idx is None and getattr(ex, "newaxis_seq", False) and is_z3(v) and z3.is_real(v):
            # one-real-per-row view of a trajectory buffer: x[None] is the one-row buffer whose row 0 is x
            return SeqVal(z3.Store(z3.Array(fresh_name("row"), z3.IntSort(), z3.RealSort()), 0, v), z3.IntVal(1), "Real")
        # element-wise lifting: x[mask] / x[None] / x[...] is the element itself
        if idx is None or idx is Ellipsis or (is_z3(idx) and z3.is_bool(idx)) or isinstance(idx, bool):
            return v
        if isinstance(idx, tuple) and all(i is None or i is Ellipsis for i in idx):
            return v
        if ctx.lifted and isinstance(idx, int) and idx == 0:
            return v
        raise Havoc("subscript of scalar")
    if isinstance(v, (LinComb, BlockVec)):
        if idx is None or idx is Ellipsis:
            return v
        raise Havoc("subscript of vector")
    if isinstance(v, str):
        return "<str>"
    raise Havoc("subscript of %s" % type(v).__name__)


def store(ex, base, idx, v, st, ctx, node=None):
    """Returns IN_PLACE (heap mutated) or the new value to assign back to the base expression."""
    if isinstance(base, Opaque):
        return Opaque("store")
    whole = idx is Ellipsis or (isinstance(idx, slice) and idx == slice(None))
    if whole and isinstance(v, (int, float, Fraction)) and not isinstance(v, bool) and v == 0 and isinstance(base, (LinComb, BlockVec, ConcVec)):
        # `x[...] = 0` / `x[:] = 0`: every entry overwritten -- the zero vector of the same layout
        if isinstance(base, LinComb):
            return LinComb.zero()
        if isinstance(base, BlockVec):
            return BlockVec([LinComb.zero() for _ in base.blocks])
        return ConcVec([0 for _ in base.items])
    if isinstance(base, ConcVec):
        if isinstance(idx, int):
            items = list(base.items)
            items[idx] = v
            return ConcVec(items)
        raise Havoc("vector store %r" % (idx,))
    if isinstance(base, Ref) and st.obj(base).kind == "matrix":
        rows = st.obj(base).items
        if isinstance(idx, tuple) and len(idx) == 2 and isinstance(idx[0], slice) and idx[0] == slice(None) and isinstance(idx[1], int):
            col = list(v.items) if isinstance(v, ConcVec) else [v] * len(rows)
            if len(col) != len(rows):
                raise Havoc("column length mismatch")
            for r, x in zip(rows, col):
                r[idx[1]] = x
            return IN_PLACE
        raise Havoc("matrix store %r" % (idx,))
    if isinstance(base, Ref) and st.obj(base).kind == "stages":
        o = st.obj(base)
        if isinstance(idx, tuple) and len(idx) == 2 and idx[0] is Ellipsis and isinstance(idx[1], int):
            o.items[idx[1]] = v
            log = st.ghost.setdefault("stage_writes", [])
            log.append((base.oid, idx[1]))
            return IN_PLACE
        raise Havoc("stage-array store %r" % (idx,))
    if isinstance(base, Ref):
        o = st.obj(base)
        if o.kind == "list":
            if isinstance(idx, int):
                o.items[idx] = v
                return IN_PLACE
            raise Havoc("symbolic list store")
        if o.kind == "dict":
            o.items[idx] = v
            return IN_PLACE
        if o.kind == "dictview":
            t = o.fields["target"]
            if isinstance(t, Ref):
                st.obj(t).fields[idx] = v
                return IN_PLACE
            raise Havoc("__dict__ of a non-object")
        hook = ex.call_hooks.get("setitem:" + o.cls)
        if hook:
            hook(ex, st, ctx, base, idx, v)
            return IN_PLACE
        raise Havoc("store into object")
    if isinstance(base, SeqVal) and isinstance(idx, RangeIdx) and _scalar(v):
        # x[arange(lo, hi)] = v (numpy integer-array assignment, indices inside the array): every position lo <= i < hi becomes v
        i = z3.Int(fresh_name("i"))
        val = to_real(v) if base.elem == "Real" else to_z3(v)
        return SeqVal(z3.Lambda([i], z3.If(z3.And(to_z3(idx.lo) <= i, i < to_z3(idx.hi)), val, z3.Select(base.arr, i))), base.length, base.elem)
    if isinstance(base, SeqVal) and isinstance(idx, SeqVal) and _scalar(v):
        # x[idx_array] = v (numpy integer-array assignment): every position that occurs in idx_array becomes v
        i, j = z3.Int(fresh_name("i")), z3.Int(fresh_name("j"))
        val = to_real(v) if base.elem == "Real" else to_z3(v)
        hit = z3.Exists([j], z3.And(0 <= j, j < idx.length, z3.ToInt(z3.Select(idx.arr, j)) == i, z3.IsInt(z3.Select(idx.arr, j))))
        return SeqVal(z3.Lambda([i], z3.If(hit, val, z3.Select(base.arr, i))), base.length, base.elem)
    if isinstance(base, SeqVal):
        if isinstance(idx, (slice, tuple)) or (is_z3(idx) and z3.is_bool(idx)):
            raise Havoc("slice/mask store into sequence")
        j = _norm_index(ex, base, idx, st, ctx, node, "store")
        val = to_real(v) if base.elem == "Real" else to_z3(v)
        return SeqVal(z3.Store(base.arr, j, val), base.length, base.elem)
    if _scalar(base):
        if is_z3(idx) and z3.is_bool(idx):
            return ite(idx, v, base)
        if isinstance(idx, bool):
            return v if idx else base
        if idx is Ellipsis or idx is None:
            return v
        raise Havoc("store into scalar")
    raise Havoc("store into %s" % type(base).__name__)


# ----------------------------------------------------------------------------------------------
# methods on values
# ----------------------------------------------------------------------------------------------
def method(ex, v, name, args, kwargs, st, ctx):
    if isinstance(v, Ref) and st.obj(v).kind == "symlist":
        return _symlist_method(ex, v, name, args, st, ctx)
    if isinstance(v, Ref):
        o = st.obj(v)
        if o.kind == "list":
            if name == "append":
                o.items.append(args[0])
                return None
            if name == "insert":
                if not isinstance(args[0], int):
                    raise Havoc("symbolic insert position")
                o.items.insert(args[0], args[1])
                return None
            if name == "pop":
                return o.items.pop(*args)
            if name == "extend":
                o.items.extend(ex.iterate(args[0], st, ctx))
                return None
            if name == "copy":
                return st.new_obj("list", "list", items=list(o.items))
            if name == "index":
                for i, x in enumerate(o.items):
                    if _struct_eq(x, args[0], st) is True:
                        return i
                raise Havoc("list.index")
        if o.kind == "dictview" and name == "update" and len(args) == 1 and isinstance(args[0], Ref) and st.obj(args[0]).kind == "dictview" and not kwargs:
            # a.__dict__.update(b.__dict__): every instance attribute of b is bound on a (same values, no copies)
            src_t, dst_t = st.obj(args[0]).fields["target"], o.fields["target"]
            if isinstance(src_t, Ref) and isinstance(dst_t, Ref):
                st.obj(dst_t).fields.update(st.obj(src_t).fields)
                return None
        if o.kind == "matrix" and name in ("reshape", "to", "astype"):
            return v
        if o.kind == "dict":
            if name == "get":
                return o.items.get(args[0], args[1] if len(args) > 1 else None)
            if name == "update":
                for a in args:
                    o.items.update(st.obj(a).items)
                o.items.update(kwargs)
                return None
            if name == "items":
                return PyIter([(k, x) for k, x in o.items.items()])
            if name == "keys":
                return PyIter(list(o.items.keys()))
            if name == "values":
                return PyIter(list(o.items.values()))
            if name == "pop":
                return o.items.pop(*args)
            if name == "setdefault":
                return o.items.setdefault(args[0], args[1] if len(args) > 1 else None)
            if name == "copy":
                return st.new_obj("dict", "dict", items=dict(o.items))
        raise Havoc("method %s of %s" % (name, o.kind))
    if isinstance(v, str):
        if "<" not in v and all(isinstance(a, str) and "<" not in a for a in args):
            if name == "replace":
                return v.replace(*args)
            if name in ("startswith", "endswith"):
                return getattr(v, name)(*args)
        return "<str>"
    if isinstance(v, Opaque):
        return Opaque(name)
    if _scalar(v) or isinstance(v, (LinComb, BlockVec, Poly)):
        if name in ("reshape", "copy", "astype", "to", "item", "clone", "squeeze", "flatten", "ravel"):
            return v
        if name in ("all", "any"):
            return TABLE["D.ar_numpy." + name](ex, st, ctx, [v], {})
    if isinstance(v, ConcVec) and name in ("reshape", "copy", "astype", "to"):
        return v
    if isinstance(v, ConcVec) and name in ("all", "any") and not args:
        items = list(v.items)
        if all(isinstance(i, bool) for i in items):
            return all(items) if name == "all" else any(items)
        return (z3.And if name == "all" else z3.Or)(*[to_bool(i) for i in items])
    if isinstance(v, SeqVal):
        if name in ("copy", "astype", "to", "clone"):
            return v
    if isinstance(v, tuple) and name == "index":
        return v.index(args[0])
    raise Havoc("method %s on %s" % (name, type(v).__name__))


# ----------------------------------------------------------------------------------------------
# builtin / numpy function table
# ----------------------------------------------------------------------------------------------
TABLE = {}
ALIASES = {"np": "numpy", "D.numpy": "numpy", "deutil": "utilities", "deutil.utilities": "utilities",
           "etypes": "exception_types", "D.ar_numpy.linalg": "linalg"}
CONSTANTS = {"numpy.inf": INF, "math.inf": INF, "numpy.pi": None, "Ellipsis": Ellipsis}
SHORT_OK = set()


def reg(*names, short=False):
    def deco(f):
        for n in names:
            TABLE[n] = f
            if short:
                SHORT_OK.add(n.split(".")[-1])
                TABLE.setdefault(n.split(".")[-1], f)
        return f
    return deco


def _unary(fn):
    def h(ex, st, ctx, args, kwargs):
        v = args[0]
        if isinstance(v, Opaque):
            return Opaque("u", deps=v.deps)
        return fn(ex, v, ctx)
    return h


def _abs(ex, v, ctx):
    if isinstance(v, ConcVec):
        return ConcVec(_abs(ex, x, ctx) for x in v.items)
    if isinstance(v, SeqVal):
        i = z3.Int(fresh_name("i"))
        e = z3.Select(v.arr, i)
        return SeqVal(z3.Lambda([i], z3.If(e >= 0, e, -e)), v.length, v.elem)
    if _num(v):
        return abs(v)
    if is_z3(v):
        return z3.If(v >= 0, v, -v)
    if isinstance(v, Poly) and v.is_const():
        return abs(v.const_value())
    if isinstance(v, InfVal):
        return InfVal(1)
    raise Havoc("abs of %s" % type(v).__name__)


def _sign(ex, v, ctx):
    if _num(v):
        return (v > 0) - (v < 0)
    if is_z3(v):
        if z3.is_int(v):
            return z3.If(v > 0, z3.IntVal(1), z3.If(v < 0, z3.IntVal(-1), z3.IntVal(0)))
        return z3.If(v > 0, z3.RealVal(1), z3.If(v < 0, z3.RealVal(-1), z3.RealVal(0)))
    if isinstance(v, InfVal):
        return v.sign
    raise Havoc("sign")


TABLE["abs"] = _unary(_abs)
TABLE["D.ar_numpy.abs"] = _unary(_abs)
TABLE["numpy.abs"] = _unary(_abs)
TABLE["D.ar_numpy.sign"] = _unary(_sign)


@reg("D.ar_numpy.array", "numpy.array")
def _array(ex, st, ctx, args, kwargs):
    """numpy.array(x): a *new* array with the same values unless copy=False is given (object identity matters for the ownership clauses)."""
    v = _identity(ex, st, ctx, args, kwargs)
    if kwargs.get("copy", True) is False:
        return v
    return _copy(ex, st, ctx, [v], {})


@reg("D.ar_numpy.asarray", "D.ar_numpy.to_numpy", "D.ar_numpy.atleast_1d",
     "D.astype", "numpy.asarray", "float", "D.ar_numpy.squeeze")
def _identity(ex, st, ctx, args, kwargs):
    v = args[0]
    dt = kwargs.get("dtype")
    if isinstance(dt, str) and dt.startswith("dtype:") and id(v) in ex.dtype_tags and ex.dtype_tags[id(v)][0] != dt[6:] and is_z3(v) and v.sort() == z3.RealSort():
        # conversion to the dtype of *another* array (dtype provenance is tracked only where a harness tagged its inputs): the value is
        # rounded to that type -- some value of that type, not necessarily the one given (over-approximation: nothing is assumed about it)
        r = z3.Real(fresh_name("cast_" + dt[6:]))
        ex.dtype_tags[id(r)] = (dt[6:], r)
        return r
    return v


@reg("D.ar_numpy.copy", "D.ar_numpy.clone")
def _copy(ex, st, ctx, args, kwargs):
    """copy / clone: the same value in a *new* array object (identity matters for the ownership clause "no in-place update of a
    caller-owned array": a copy may be updated in place, the caller's array may not)."""
    v = args[0]
    if is_z3(v):
        return type(v)(v.as_ast(), v.ctx)
    if isinstance(v, Poly):
        return Poly(dict(v.terms))
    return v


@reg("D.ar_numpy.astype")
def _astype(ex, st, ctx, args, kwargs):
    v = args[0]
    if len(args) > 1 and args[1] == "bool" and isinstance(v, SeqVal):
        # conversion to bool: an entry is True (1) exactly when it is non-zero
        i = z3.Int(fresh_name("i"))
        return SeqVal(z3.Lambda([i], z3.If(z3.Select(v.arr, i) != 0, z3.RealVal(1), z3.RealVal(0))), v.length, v.elem)
    return v


@reg("D.ar_numpy.searchsorted", "numpy.searchsorted")
def _searchsorted(ex, st, ctx, args, kwargs):
    """numpy.searchsorted(a, v, side) for a 1-D array a and a scalar v (or one element of a vector of queries in a lifted function):
    the number of elements < v (side='left') / <= v (side='right') -- for a sorted array: the index r with a[k] < v for k < r and
    a[k] >= v for k >= r, 0 <= r <= len(a) (A3)."""
    a, v = args[0], args[1]
    side = kwargs.get("side", args[2] if len(args) > 2 else "left")
    if isinstance(a, SeqVal) and _scalar(v) and side in ("left", "right"):
        r = z3.Int(fresh_name("searchsorted"))
        k = z3.Int(fresh_name("k"))
        x = to_real(to_z3(v))
        below = (z3.Select(a.arr, k) < x) if side == "left" else (z3.Select(a.arr, k) <= x)
        st.assume(z3.And(0 <= r, r <= a.length))
        st.assume(z3.ForAll([k], z3.Implies(z3.And(0 <= k, k < r), below)))
        st.assume(z3.ForAll([k], z3.Implies(z3.And(r <= k, k < a.length), z3.Not(below))))
        return r
    raise Havoc("searchsorted")


@reg("D.ar_numpy.arange")
def _arange(ex, st, ctx, args, kwargs):
    if len(args) == 2 and all((isinstance(a, int) and not isinstance(a, bool)) or (is_z3(a) and z3.is_int(a)) for a in args):
        return RangeIdx(args[0], args[1])
    raise Havoc("arange")


@reg("D.epsilon")
def _epsilon(ex, st, ctx, args, kwargs):
    if args and isinstance(args[0], str) and args[0].startswith("dtype:"):
        # dtype provenance tracked by the harness: the epsilon of that array's type (positive, otherwise unrelated to other types')
        e = z3.Real("eps_" + args[0][6:])
        st.assume(e > 0)
        return e
    return ex.eps


@reg("D.tol_epsilon")
def _tol_epsilon(ex, st, ctx, args, kwargs):
    # backend/autoray_backend.py: epsilon = finfo.eps*4, tol_epsilon = finfo.eps*32 = 8*epsilon (checked by C-common)
    return 8 * ex.eps


@reg("D.autoray.infer_backend", "D.backend_like_dtype")
def _backend(ex, st, ctx, args, kwargs):
    return "numpy"


@reg("D.autoray.to_backend_dtype")
def _dtype(ex, st, ctx, args, kwargs):
    return args[0]


def _zeros_like_val(dtype, one=False):
    if isinstance(dtype, ModuleRef):
        dtype = dtype.path.split(".")[-1]
    if dtype in ("int64", "int32", "int"):
        return z3.IntVal(1 if one else 0)
    if dtype in ("bool",) or dtype is bool:
        return z3.BoolVal(one)
    return z3.RealVal(1 if one else 0)


@reg("D.ar_numpy.zeros_like")
def _zeros_like(ex, st, ctx, args, kwargs):
    v = args[0]
    if isinstance(v, ConcVec):
        return ConcVec([Fraction(0)] * len(v))
    if _scalar(v):
        return _zeros_like_val(kwargs.get("dtype"))
    if isinstance(v, LinComb):
        return LinComb.zero()
    if isinstance(v, BlockVec):
        return BlockVec(LinComb.zero() for _ in v.blocks)
    raise Havoc("zeros_like")


@reg("D.ar_numpy.ones_like")
def _ones_like(ex, st, ctx, args, kwargs):
    v = args[0]
    if isinstance(v, ConcVec):
        return ConcVec(True if isinstance(x, bool) else 1 for x in v.items)
    if _scalar(v):
        return _zeros_like_val(kwargs.get("dtype"), one=True)
    raise Havoc("ones_like")


@reg("D.ar_numpy.take")
def _take(ex, st, ctx, args, kwargs):
    arr, idx = args[0], args[1]
    return subscript(ex, arr, idx, st, ctx, None)


@reg("D.ar_numpy.any", "numpy.any")
def _np_any(ex, st, ctx, args, kwargs):
    v = args[0]
    if isinstance(v, bool):
        return v
    if isinstance(v, ConcVec) and all(isinstance(x, bool) for x in v.items):
        return any(v.items)
    if is_z3(v):
        if ctx.lifted:
            # element-wise lifting: this element, or any other element of the vector
            return z3.Or(to_bool(v), z3.Bool(fresh_name("any_other")))
        return to_bool(v)
    if isinstance(v, Opaque):
        return z3.Bool(fresh_name("any"))
    raise Havoc("any")


@reg("D.ar_numpy.all", "numpy.all")
def _np_all(ex, st, ctx, args, kwargs):
    v = args[0]
    if isinstance(v, bool):
        return v
    if isinstance(v, ConcVec) and all(isinstance(x, bool) for x in v.items):
        return all(v.items)
    if is_z3(v):
        if ctx.lifted:
            return z3.And(to_bool(v), z3.Bool(fresh_name("all_other")))
        return to_bool(v)
    if isinstance(v, Opaque):
        return z3.Bool(fresh_name("all"))
    raise Havoc("all")


@reg("any")
def _any(ex, st, ctx, args, kwargs):
    v = args[0]
    if is_z3(v) or isinstance(v, bool):
        return _np_any(ex, st, ctx, args, kwargs)
    items = ex.iterate(v, st, ctx)
    if all(isinstance(i, bool) for i in items):
        return any(items)
    return z3.Or(*[to_bool(i) for i in items]) if items else False


@reg("all")
def _all(ex, st, ctx, args, kwargs):
    v = args[0]
    if is_z3(v) or isinstance(v, bool):
        return _np_all(ex, st, ctx, args, kwargs)
    items = ex.iterate(v, st, ctx)
    if all(isinstance(i, bool) for i in items):
        return all(items)
    return z3.And(*[to_bool(i) for i in items]) if items else True


@reg("D.ar_numpy.where", "numpy.where")
def _where(ex, st, ctx, args, kwargs):
    c, a, b = args[0], args[1], args[2]
    if isinstance(c, bool):
        return a if c else b
    if isinstance(c, Opaque):
        return Opaque("where")
    return ite(to_bool(c), a, b)


@reg("D.ar_numpy.logical_and")
def _land(ex, st, ctx, args, kwargs):
    a, b = args
    if isinstance(a, bool) and isinstance(b, bool):
        return a and b
    return z3.And(to_bool(a), to_bool(b))


@reg("D.ar_numpy.logical_or")
def _lor(ex, st, ctx, args, kwargs):
    a, b = args
    if isinstance(a, bool) and isinstance(b, bool):
        return a or b
    return z3.Or(to_bool(a), to_bool(b))


@reg("D.ar_numpy.logical_not")
def _lnot(ex, st, ctx, args, kwargs):
    a = args[0]
    if isinstance(a, bool):
        return not a
    return z3.Not(to_bool(a))


def _minmax(is_min):
    def h(ex, st, ctx, args, kwargs):
        if len(args) == 1:
            v = args[0]
            if _scalar(v):
                if ctx.lifted:
                    raise Havoc("reduction in lifted function")
                return v
            if isinstance(v, Opaque):
                if getattr(ex, "opaque_shapes", False):
                    return z3.Real(("min_" if is_min else "max_") + v.tag)       # a real reduction of an unmodelled array: some real, the same each time
                return Opaque("red", deps=v.deps)
            if isinstance(v, (LinComb, BlockVec)):
                return Opaque("red", deps=deps_of(v))          # a reduction of a vector the executor keeps symbolic: some function of it
            items = ex.iterate(v, st, ctx)
        else:
            items = list(args)
        if any(isinstance(i, Opaque) for i in items):
            ds = [deps_of(i) for i in items]
            return Opaque("minmax", deps=frozenset().union(*ds) if all(d is not None for d in ds) else None)
        # +-inf against finite reals (A1): min(x, +inf) == x, max(x, -inf) == x
        finite = [i for i in items if not isinstance(i, InfVal)]
        infs = [i for i in items if isinstance(i, InfVal)]
        if infs:
            dominated = [i for i in infs if (i.sign > 0) == (not is_min)]
            if dominated or not finite:
                return dominated[0] if dominated else infs[0]
            items = finite
        r = items[0]
        for x in items[1:]:
            if _num(r) and _num(x):
                r = min(r, x) if is_min else max(r, x)
            else:
                tr, tx = to_z3(r), to_z3(x)
                if not (z3.is_int(tr) and z3.is_int(tx)):
                    tr, tx = to_real(tr), to_real(tx)
                r = z3.If(tx < tr, tx, tr) if is_min else z3.If(tx > tr, tx, tr)
        return r
    return h


TABLE["min"] = _minmax(True)
TABLE["max"] = _minmax(False)
TABLE["D.ar_numpy.minimum"] = _minmax(True)
TABLE["D.ar_numpy.maximum"] = _minmax(False)
TABLE["D.ar_numpy.min"] = _minmax(True)
TABLE["D.ar_numpy.max"] = _minmax(False)


@reg("len")
def _len(ex, st, ctx, args, kwargs):
    v = args[0]
    if isinstance(v, Ref) and st.obj(v).kind == "symlist":
        return st.obj(v).fields["len"]
    if isinstance(v, Ref):
        o = st.obj(v)
        if o.kind in ("list", "dict"):
            return len(o.items)
        hook = ex.call_hooks.get("len:" + o.cls)
        if hook:
            return hook(ex, st, ctx, v)
        fi = ex.src.find_method(o.cls, "__len__")
        if fi is not None:
            return ex.call_function(fi, [v], {}, st, ctx)
    if isinstance(v, (tuple, str, frozenset)):
        return len(v)
    if isinstance(v, ConcVec):
        return len(v)
    if isinstance(v, PyIter):
        return len(v.items)
    if isinstance(v, SeqVal):
        return v.length
    if v is None:
        raise Havoc("len(None)")
    if isinstance(v, Opaque):
        return z3.Int(fresh_name("len"))
    raise Havoc("len of %s" % type(v).__name__)


@reg("D.ar_numpy.zeros")
def _zeros(ex, st, ctx, args, kwargs):
    shape = args[0]
    if isinstance(shape, tuple) and len(shape) == 1 and is_z3(shape[0]) and z3.is_int(shape[0]):
        return SeqVal(z3.K(z3.IntSort(), z3.RealVal(0)), shape[0], "Real")
    dt = kwargs.get("dtype")
    if isinstance(dt, ModuleRef):
        dt = dt.path.split(".")[-1]
    zero = False if dt in ("bool", bool) else (0 if dt in ("int64", "int32", "int") else Fraction(0))
    if isinstance(shape, int) and not isinstance(shape, bool):
        return ConcVec([zero] * shape)
    if isinstance(shape, tuple) and all(isinstance(k, int) for k in shape):
        if len(shape) == 1:
            return ConcVec([zero] * shape[0])
        if len(shape) == 2:
            return st.new_obj("matrix", "matrix", items=[[Fraction(0)] * shape[1] for _ in range(shape[0])])
    raise Havoc("zeros of shape %r" % (shape,))


@reg("D.ar_numpy.shape", "numpy.shape")
def _shape(ex, st, ctx, args, kwargs):
    v = args[0]
    if isinstance(v, Ref) and st.obj(v).kind == "matrix":
        rows = st.obj(v).items
        return (len(rows), len(rows[0]) if rows else 0)
    if isinstance(v, TabVal):
        return v.shape
    if isinstance(v, ConcVec):
        return (len(v),)
    if _scalar(v) or isinstance(v, (LinComb, BlockVec, Poly)):
        return ()
    if isinstance(v, SeqVal):
        return (v.length,)
    if isinstance(v, Opaque):
        if getattr(ex, "opaque_shapes", False):
            # an array the executor does not model is given a symbolic 1-d shape (n,), n >= 1, the same whenever it is asked again
            n = z3.Int("dim_" + v.tag)
            st.assume(n >= 1)
            return (n,)
        return Opaque("shape")
    raise Havoc("shape")


@reg("range")
def _range(ex, st, ctx, args, kwargs):
    if all(isinstance(a, int) for a in args):
        return range(*args)
    if len(args) == 1 and is_z3(args[0]) and z3.is_int(args[0]):
        # a symbolic trip count that the path condition confines to a few values: one path per feasible value
        n = args[0]
        s = z3.Solver()
        s.set("timeout", 3000)
        for a in ex.global_axioms + st.pc:
            s.add(a)
        s.add(n > 4)
        if s.check() == z3.unsat:
            out = []
            for k in range(0, 5):
                s2 = st.fork()
                s2.assume(n == k if k > 0 else n <= 0)
                if ex.feasible(s2):
                    out.append((s2, range(k)))
            return out
    raise Havoc("symbolic range")


@reg("enumerate")
def _enumerate(ex, st, ctx, args, kwargs):
    return PyIter(list(enumerate(ex.iterate(args[0], st, ctx))))


@reg("zip")
def _zip(ex, st, ctx, args, kwargs):
    return PyIter(list(zip(*[ex.iterate(a, st, ctx) for a in args])))


@reg("list")
def _list(ex, st, ctx, args, kwargs):
    if not args:
        return st.new_obj("list", "list", items=[])
    return st.new_obj("list", "list", items=list(ex.iterate(args[0], st, ctx)))


@reg("tuple")
def _tuple(ex, st, ctx, args, kwargs):
    if not args:
        return ()
    return tuple(ex.iterate(args[0], st, ctx))


@reg("set")
def _set(ex, st, ctx, args, kwargs):
    if not args:
        return frozenset()
    return frozenset(ex.iterate(args[0], st, ctx))


@reg("dict")
def _dict(ex, st, ctx, args, kwargs):
    d = {}
    for a in args:
        if isinstance(a, Ref) and st.obj(a).kind == "dict":
            d.update(st.obj(a).items)
        else:
            for k, v in ex.iterate(a, st, ctx):
                d[k] = v
    d.update(kwargs)
    return st.new_obj("dict", "dict", items=d)


@reg("bool")
def _bool(ex, st, ctx, args, kwargs):
    v = args[0]
    if is_z3(v):
        return to_bool(v)
    return ex.truth(v, st)


@reg("int")
def _int(ex, st, ctx, args, kwargs):
    v = args[0]
    if isinstance(v, bool):
        return int(v)
    if isinstance(v, int):
        return v
    if isinstance(v, Fraction):
        return int(v)
    if is_z3(v):
        if z3.is_int(v):
            return v
        if z3.is_bool(v):
            return z3.If(v, z3.IntVal(1), z3.IntVal(0))
        return z3.If(v >= 0, z3.ToInt(v), -z3.ToInt(-v))      # python truncates toward zero
    if isinstance(v, Opaque):
        return z3.Int(fresh_name("int"))
    raise Havoc("int()")


@reg("str", "repr")
def _str(ex, st, ctx, args, kwargs):
    return "<str>"


@reg("callable")
def _callable(ex, st, ctx, args, kwargs):
    v = args[0]
    if isinstance(v, Ref) and st.obj(v).kind == "object":
        o = st.obj(v)
        # an instance is callable when its class defines __call__ (looked up in the real source)
        return ex.src.find_method(o.cls, "__call__") is not None or ("%s.__call__" % o.cls) in ex.call_hooks or ("%s.__call__" % o.cls) in ex.contracts
    return isinstance(v, (Closure, UFunc, BoundMethod, ModuleRef))


@reg("hasattr")
def _hasattr(ex, st, ctx, args, kwargs):
    v, name = args
    if isinstance(v, UFunc):
        return name in v.attrs
    if isinstance(v, Ref):
        o = st.obj(v)
        if name in o.fields:
            return True
        return ex.src.find_method(o.cls, name) is not None
    if isinstance(v, Closure):
        return False
    if isinstance(v, Opaque):
        return z3.Bool(fresh_name("hasattr"))
    return False


_TYPE_PRED = {
    "list": lambda v, st: isinstance(v, Ref) and st.obj(v).kind == "list",
    "dict": lambda v, st: isinstance(v, Ref) and st.obj(v).kind == "dict",
    "tuple": lambda v, st: isinstance(v, tuple),
    "int": lambda v, st: (isinstance(v, int) and not isinstance(v, bool)) or (is_z3(v) and z3.is_int(v)),
    "bool": lambda v, st: isinstance(v, bool) or (is_z3(v) and z3.is_bool(v)),
    "float": lambda v, st: isinstance(v, Fraction) or (is_z3(v) and z3.is_real(v)),
    "slice": lambda v, st: isinstance(v, slice),
    "str": lambda v, st: isinstance(v, str),
}


@reg("isinstance")
def _isinstance(ex, st, ctx, args, kwargs):
    v, t = args
    types = t if isinstance(t, tuple) else (t,)
    for ty in types:
        name = ty.path.split(".")[-1] if isinstance(ty, ModuleRef) else str(ty)
        p = _TYPE_PRED.get(name)
        if p is not None:
            if p(v, st):
                return True
            continue
        if isinstance(v, ExcVal):
            from .executor import exc_is_subclass
            if exc_is_subclass(v.cls, name):
                return True
            continue
        if isinstance(v, Ref) and st.obj(v).kind == "object":
            if any(ci.name == name for ci in ex.src.mro(st.obj(v).cls)):
                return True
            continue
    return False


@reg("issubclass")
def _issubclass(ex, st, ctx, args, kwargs):
    raise Havoc("issubclass")


@reg("numpy.isinf", "D.ar_numpy.isinf")
def _isinf(ex, st, ctx, args, kwargs):
    v = args[0]
    if isinstance(v, InfVal):
        return True
    if _scalar(v):
        return False         # A1: reals are finite
    if isinstance(v, Opaque):
        return z3.Bool(fresh_name("isinf"))
    raise Havoc("isinf")


@reg("D.ar_numpy.isfinite", "numpy.isfinite")
def _isfinite(ex, st, ctx, args, kwargs):
    v = args[0]
    if isinstance(v, InfVal):
        return False
    if _scalar(v):
        return True          # A1: reals are finite
    if isinstance(v, Opaque):
        return z3.Bool(fresh_name("isfinite"))
    raise Havoc("isfinite")


@reg("D.ar_numpy.reshape", "numpy.reshape")
def _reshape(ex, st, ctx, args, kwargs):
    v = args[0]
    if isinstance(v, tuple) and len(v) == 1 and isinstance(v[0], ConcVec) and len(args) > 1 and args[1] == (-1,):
        return v[0]          # reshape(nonzero(mask), (-1,)) of a 1-D mask
    return v


@reg("D.ar_numpy.reciprocal")
def _recip(ex, st, ctx, args, kwargs):
    return binop(ex, "Div", 1, args[0], st, ctx)


def _uf1(name):
    def h(ex, st, ctx, args, kwargs):
        v = args[0]
        if isinstance(v, Opaque):
            return Opaque(name)
        if _scalar(v):
            return ex.uf(name, 1)(to_real(v))
        raise Havoc(name)
    return h


for _n in ("arctan", "exp", "log", "sqrt", "sin", "cos", "arcsin"):
    TABLE["D.ar_numpy." + _n] = _uf1(_n)
    TABLE["math." + _n] = _uf1(_n)
    TABLE["numpy." + _n] = _uf1(_n)


@reg("D.ar_numpy.linalg.norm", "linalg.norm")
def _norm(ex, st, ctx, args, kwargs):
    v = args[0]
    if ctx.lifted:
        raise Havoc("reduction in lifted function")
    if _scalar(v):
        return _abs(ex, to_z3(v) if not _num(v) else v, ctx)
    if isinstance(v, Opaque):
        r = z3.Real("norm_" + v.tag)          # one value per opaque object: norm(F) asked twice is the same number
        st.assume(r >= 0)
        return r
    raise Havoc("norm")


@reg("D.ar_numpy.sum")
def _sum(ex, st, ctx, args, kwargs):
    v = args[0]
    if isinstance(v, Ref) and st.obj(v).kind == "stages":
        v = ConcVec(st.obj(v).items)
    if isinstance(v, ConcVec):
        if kwargs.get("axis", -1) != -1:
            raise Havoc("sum over a non-stage axis")
        r = 0
        for x in v.items:
            r = binop(ex, "Add", r, x, st, ctx)
        return r
    if ctx.lifted:
        raise Havoc("reduction in lifted function")
    if _scalar(v) or isinstance(v, (LinComb, BlockVec)):
        return v
    if isinstance(v, Opaque):
        return Opaque("sum")
    hook = ex.call_hooks.get("np.sum")
    if hook:
        return hook(ex, st, ctx, args, kwargs)
    raise Havoc("sum")


@reg("sum")
def _pysum(ex, st, ctx, args, kwargs):
    items = ex.iterate(args[0], st, ctx)
    r = args[1] if len(args) > 1 else 0
    for x in items:
        r = binop(ex, "Add", r, x, st, ctx)
    return r


@reg("D.ar_numpy.stack", "D.ar_numpy.concatenate")
def _stack(ex, st, ctx, args, kwargs):
    hook = ex.call_hooks.get("np.stack")
    if hook:
        return hook(ex, st, ctx, args, kwargs)
    v = args[0]
    if isinstance(v, Ref) and st.obj(v).kind == "symlist" and st.obj(v).fields["elem"] == "real":
        return SeqVal(st.obj(v).fields["cols"]["v"], st.obj(v).fields["len"], "Real")       # numpy.stack of a list of scalars (A3)
    if isinstance(v, Ref) and st.obj(v).kind == "list" and len(st.obj(v).items) == 2 and all(isinstance(x, SeqVal) for x in st.obj(v).items) \
            and kwargs.get("axis", 0) == 0:
        a, b = st.obj(v).items          # numpy.concatenate of two 1-D arrays (A3)
        i = z3.Int(fresh_name("i"))
        return SeqVal(z3.Lambda([i], z3.If(i < a.length, z3.Select(a.arr, i), z3.Select(b.arr, i - a.length))), a.length + b.length, a.elem)
    if isinstance(v, Ref) and st.obj(v).kind == "list" and st.obj(v).items and \
            all(isinstance(x, (LinComb, BlockVec)) for x in st.obj(v).items) and kwargs.get("axis") == -1:
        return ConcVec(st.obj(v).items)       # stack of state-shaped values along a new last (stage) axis
    if isinstance(v, Ref) and st.obj(v).kind == "list":
        items = st.obj(v).items
        if len(items) == 1 and ctx.lifted:
            return items[0]
        if items and all(_scalar(x) for x in items) and not ctx.lifted:
            return ConcVec(items)        # numpy.stack of scalars: a 1-D array of known length
        return st.new_obj("list", "list", items=list(items))
    raise Havoc("stack")


@reg("D.ar_numpy.tile")
def _tile(ex, st, ctx, args, kwargs):
    if ctx.lifted:
        return args[0]
    raise Havoc("tile")


@reg("map")
def _map(ex, st, ctx, args, kwargs):
    f, xs = args[0], ex.iterate(args[1], st, ctx)
    out = []
    for x in xs:
        r = ex.call(f, [x], {}, st, ctx)
        if len(r) != 1:
            raise Havoc("map forked")
        out.append(r[0][1])
    return PyIter(out)


@reg("getattr")
def _getattr(ex, st, ctx, args, kwargs):
    r = ex.getattr(args[0], args[1], st, ctx)
    return r


@reg("type")
def _type(ex, st, ctx, args, kwargs):
    return "<type>"


@reg("numpy.finfo")
def _finfo(ex, st, ctx, args, kwargs):
    return Opaque("finfo")


@reg("numpy.printoptions", "warnings.catch_warnings", "D.numpy.errstate", "numpy.errstate", "D.ar_numpy.no_grad",
     "D.autoray.backend_like")
def _ctxmgr(ex, st, ctx, args, kwargs):
    return Opaque("ctxmgr")


@reg("slice")
def _slice(ex, st, ctx, args, kwargs):
    return slice(*args)


# ----------------------------------------------------------------------------------------------
# specification helpers (used in contract clauses)
# ----------------------------------------------------------------------------------------------
@reg("implies")
def _implies(ex, st, ctx, args, kwargs):
    a, b = args
    if isinstance(a, bool):
        return to_bool(b) if a else True
    return z3.Implies(to_bool(a), to_bool(b))


@reg("iff")
def _iff(ex, st, ctx, args, kwargs):
    return to_bool(args[0]) == to_bool(args[1])


@reg("between")
def _between(ex, st, ctx, args, kwargs):
    """between(x, a, b): x lies in the closed hull of a and b (either order)."""
    if any(isinstance(v, InfVal) for v in args):
        return False
    x, a, b = [to_real(v) for v in args]
    return z3.Or(z3.And(a <= x, x <= b), z3.And(b <= x, x <= a))


@reg("strictly_between")
def _sbetween(ex, st, ctx, args, kwargs):
    x, a, b = [to_real(v) for v in args]
    return z3.Or(z3.And(a < x, x < b), z3.And(b < x, x < a))


@reg("ite")
def _ite(ex, st, ctx, args, kwargs):
    return ite(to_bool(args[0]), args[1], args[2])


@reg("apply")
def _apply(ex, st, ctx, args, kwargs):
    """apply(f, x...): value of the uninterpreted callable without logging a call (spec use)."""
    f = args[0]
    if isinstance(f, Ref) and st.obj(f).kind == "list" and len(st.obj(f).items) == 1:
        f = st.obj(f).items[0]          # lifted list-of-callables: the element's own function
    if isinstance(f, UFunc) and f.mode == "real":
        return ex.uf(f.name, len(args) - 1)(*[to_real(a) for a in args[1:]])
    raise Havoc("apply")


@reg("is_exc")
def _is_exc(ex, st, ctx, args, kwargs):
    from .executor import exc_is_subclass
    e, name = args
    return isinstance(e, ExcVal) and exc_is_subclass(e.cls, name)


@reg("D.ar_numpy.argmin", "numpy.argmin")
def _argmin(ex, st, ctx, args, kwargs):
    """A3: argmin of a non-empty 1-D array returns an in-range index of a minimal element."""
    v = args[0]
    if not isinstance(v, SeqVal):
        raise Havoc("argmin")
    r = z3.Int(fresh_name("argmin"))
    k = z3.Int(fresh_name("k"))
    if not ctx.spec:
        ex.prove(st, ctx, v.length >= 1, "pre@callsite", "pre@callsite:argmin-nonempty")
    st.assume(z3.And(r >= 0, r < v.length))
    st.assume(z3.ForAll([k], z3.Implies(z3.And(k >= 0, k < v.length), z3.Select(v.arr, r) <= z3.Select(v.arr, k))))
    return r


@reg("same")
def _same_value(ex, st, ctx, args, kwargs):
    """same(a, b): equality for numbers / z3 terms, identity for objects (exceptions, references)."""
    a, b = args
    if _scalar(a) and _scalar(b):
        if _num(a) and _num(b):
            return a == b
        return to_z3(a) == to_z3(b)
    if _scalar(a) != _scalar(b):
        return False
    return a is b or (isinstance(a, Ref) and isinstance(b, Ref) and a == b)


@reg("D.ar_numpy.nonzero", "numpy.nonzero")
def _nonzero(ex, st, ctx, args, kwargs):
    """numpy.nonzero of a 1-D mask of known length: the tuple (indices,).  Symbolic entries fork the path (one path per subset)."""
    v = args[0]
    if not isinstance(v, ConcVec):
        raise Havoc("nonzero")
    paths = [(st, [])]
    for i, m in enumerate(v.items):
        nxt = []
        for s_, acc in paths:
            if isinstance(m, bool) or _num(m):
                nxt.append((s_, acc + [i] if m else acc))
                continue
            b = to_bool(m)
            s1 = s_.fork()
            s1.assume(b)
            if ex.feasible(s1):
                nxt.append((s1, acc + [i]))
            s_.assume(z3.Not(b))
            if ex.feasible(s_):
                nxt.append((s_, acc))
        paths = nxt
    return [(s_, (ConcVec(acc),)) for s_, acc in paths]


@reg("D.ar_numpy.argsort", "numpy.argsort")
def _argsort(ex, st, ctx, args, kwargs):
    """A3: argsort returns a permutation that sorts (ties keep the original order).  One path per feasible permutation."""
    import itertools
    v = args[0]
    if not isinstance(v, ConcVec):
        raise Havoc("argsort")
    n = len(v)
    if n <= 1:
        return ConcVec(list(range(n)))
    if n > 4:
        raise Havoc("argsort of more than 4 symbolic entries")
    vals = [to_real(x) for x in v.items]
    out = []
    for perm in itertools.permutations(range(n)):
        conds = []
        for a, b in zip(perm, perm[1:]):
            conds.append(vals[a] < vals[b] if a > b else vals[a] <= vals[b])      # stable: equal keys keep index order
        s_ = st.fork()
        s_.assume(z3.And(*conds))
        if ex.feasible(s_):
            out.append((s_, ConcVec(list(perm))))
    return out


@reg("D.ar_numpy.clip", "numpy.clip")
def _clip(ex, st, ctx, args, kwargs):
    x = args[0]
    lo = args[1] if len(args) > 1 else kwargs.get("min", kwargs.get("a_min"))
    hi = args[2] if len(args) > 2 else kwargs.get("max", kwargs.get("a_max"))
    r = x
    if lo is not None and not isinstance(lo, InfVal):
        r = TABLE["D.ar_numpy.maximum"](ex, st, ctx, [r, lo], {})
    if hi is not None and not isinstance(hi, InfVal):
        r = TABLE["D.ar_numpy.minimum"](ex, st, ctx, [r, hi], {})
    return r
