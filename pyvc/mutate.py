"""Mechanical canaries: single-point AST mutations of the real function under contract.

A canary is a weakened copy of the function produced by a fixed transformer (comparison flipped,
numeric constant shifted, +/- swapped, operand of a boolean dropped).  The engine must *refute* the
canaries listed for a function; an engine that proves one is unsound and nothing it says is believed.
"""
import ast
import copy

_CMP_FLIP = {ast.Lt: ast.LtE, ast.LtE: ast.Lt, ast.Gt: ast.GtE, ast.GtE: ast.Gt, ast.Eq: ast.NotEq, ast.NotEq: ast.Eq}
_CMP_REV = {ast.Lt: ast.Gt, ast.LtE: ast.GtE, ast.Gt: ast.Lt, ast.GtE: ast.LtE}
_BIN_SWAP = {ast.Add: ast.Sub, ast.Sub: ast.Add, ast.Mult: ast.Add}


def _sites(fn):
    """Deterministic pre-order list of mutation sites (kind, node-path index)."""
    sites = []
    for idx, n in enumerate(ast.walk(fn)):
        if isinstance(n, ast.Compare) and len(n.ops) >= 1:
            for k, op in enumerate(n.ops):
                if type(op) in _CMP_FLIP:
                    sites.append(("cmpflip", idx, k))
                if type(op) in _CMP_REV:
                    sites.append(("cmprev", idx, k))
        elif isinstance(n, ast.Constant) and isinstance(n.value, (int, float)) and not isinstance(n.value, bool):
            sites.append(("const+1", idx, 0))
        elif isinstance(n, ast.BinOp) and type(n.op) in _BIN_SWAP:
            sites.append(("binswap", idx, 0))
        elif isinstance(n, ast.BoolOp) and len(n.values) >= 2:
            for k in range(len(n.values)):
                sites.append(("booldrop", idx, k))
        elif isinstance(n, ast.UnaryOp) and isinstance(n.op, ast.Not):
            sites.append(("notdrop", idx, 0))
    return sites


def mutants(fn):
    """-> list of (description, mutated FunctionDef)"""
    out = []
    for kind, idx, k in _sites(fn):
        new = copy.deepcopy(fn)
        node = list(ast.walk(new))[idx]
        line = getattr(node, "lineno", "?")
        if kind == "cmpflip":
            before = ast.unparse(node)
            node.ops[k] = _CMP_FLIP[type(node.ops[k])]()
        elif kind == "cmprev":
            before = ast.unparse(node)
            node.ops[k] = _CMP_REV[type(node.ops[k])]()
        elif kind == "const+1":
            before = ast.unparse(node)
            node.value = node.value + 1
        elif kind == "binswap":
            before = ast.unparse(node)
            node.op = _BIN_SWAP[type(node.op)]()
        elif kind == "booldrop":
            before = ast.unparse(node)
            del node.values[k]
            if len(node.values) == 1:
                # replace BoolOp by its single operand: keep node type, use `x and x`
                node.values.append(copy.deepcopy(node.values[0]))
        elif kind == "notdrop":
            before = ast.unparse(node)
            node.op = ast.UAdd()
            # `+x` on a bool keeps truthiness in python; the executor treats UAdd as identity
        ast.fix_missing_locations(new)
        out.append(("%s@L%s#%d: %s -> %s" % (kind, line, k, before, ast.unparse(list(ast.walk(new))[idx])), new))
    return out


class Mutated(object):
    """Context manager: temporarily replace a FuncInfo's AST by a mutant."""

    def __init__(self, finfo, node):
        self.finfo = finfo
        self.node = node

    def __enter__(self):
        self.saved = self.finfo.node
        self.finfo.node = self.node
        return self.finfo

    def __exit__(self, *a):
        self.finfo.node = self.saved
