#!/bin/sh
# tools/try_mutant.sh <patch.diff> <Cxx> [tier]: apply a seeded change to /repo, run the check, undo it straight afterwards.
PATCH=$1; PID=$2; TIER=${3:-quick}
cd /verif
git -C /repo diff --quiet || { echo "/repo has uncommitted changes; refusing"; exit 2; }
git -C /repo apply "$PATCH" || { echo "patch does not apply to /repo HEAD"; exit 2; }
./check $PID --tier $TIER; RC=$?
git -C /repo checkout -- .
echo "check exit=$RC"
git -C /verif checkout -- evidence 2>/dev/null
exit $RC
