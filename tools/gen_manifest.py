"""Regenerates MANIFEST.json from tools/manifest_src.py (keeps it schema-valid at all times)."""
import json, os, sys
sys.path.insert(0, os.path.dirname(os.path.dirname(os.path.abspath(__file__))))
from tools import manifest_src as M
import jsonschema

props = [json.loads(l) for l in open(os.path.join(os.path.dirname(__file__), "..", "properties.jsonl"))]
ids = [p["id"] for p in props]
checks = []
for pid in ids:
    if pid in M.CHECKS:
        c = M.CHECKS[pid]
        checks.append(dict(
            property_id=pid,
            quick_cmd="./check %s --tier quick" % pid,
            thorough_cmd="./check %s --tier thorough" % pid,
            evidence_file="evidence/%s.json" % pid,
            replay_cmd_template="./check %s --replay {path}" % pid,
            engine=c.get("engine", "pyvc"),
            level_claimed=dict(category=c["level"], text=c["text"], design_ref=c.get("design_ref", "DESIGN.md section 4")),
            level_note=c["note"],
            technique=c["technique"]))
na = [dict(property_id=pid, reason=M.NOT_APPLICABLE.get(pid, "check not built yet in this round; see DESIGN.md section 4 for the plan")) for pid in ids if pid not in M.CHECKS]
man = dict(
    version=1,
    setup_cmd="./setup.sh",
    hooks=dict(guard="DESOLVER_VERIF", enable="no hooks: contracts are sidecar files under /verif/contracts, monitors are monkey-patched wrappers; /repo is not instrumented",
               baseline_off_cmd="cd /repo && /venv/bin/python -m pytest -ra -q -p no:cacheprovider --timeout=900 --continue-on-collection-errors",
               source_commits=[], add_only=True),
    engines=M.ENGINES,
    checks=checks,
    notes=M.NOTES,
    not_applicable=na)
jsonschema.validate(man, json.load(open("/root/.vp/MANIFEST.schema.json")))
with open(os.path.join(os.path.dirname(__file__), "..", "MANIFEST.json"), "w") as f:
    json.dump(man, f, indent=1)
print("MANIFEST.json written: %d checks, %d not_applicable" % (len(checks), len(na)))
