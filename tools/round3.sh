#!/bin/sh
# tools/round3.sh <Cxx>...: confirm the third-round seeded changes a sub-agent left in /tmp/mut3/<Cxx>/{m1,m2}, remove the agent's worktree,
# and sweep the kept ones against the check(s) of their property (scratch worktrees only; /repo is never touched).
cd /verif
for PID in "$@"; do
  for MK in m1 m2; do
    [ -f /tmp/mut3/$PID/$MK/patch.diff ] && sh tools/confirm_mutant3.sh $PID $MK 4 >> /tmp/mut3/confirm.log 2>&1
  done
  git -C /repo worktree remove --force /tmp/mut3/$PID/wt 2>/dev/null
  for MK in m1 m2; do
    [ -d seeded/$PID-r3$MK ] && sh tools/sweep_mutants.sh $PID-r3$MK >> /tmp/mut3/sweep.log 2>&1
  done
done
echo "round3-done $@" >> /tmp/mut3/confirm.log
