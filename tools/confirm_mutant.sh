#!/bin/sh
# tools/confirm_mutant.sh <Cxx> <mK> [ncores]: confirm a sub-agent's seeded change in a fresh scratch worktree of /repo:
#  demo passes on pristine, fails with the patch, the unedited test suite still passes with the patch.
# Keeps it as /verif/seeded/<Cxx>-<mK>/ (patch.diff, demo.py, meta.json) only if all three hold.
PID=$1; MK=$2; N=${3:-4}
SRC=/tmp/mut/$PID/$MK
WT=/tmp/confirm/$PID-$MK
OUT=/verif/seeded/$PID-$MK
[ -f $SRC/patch.diff ] || { echo "no patch at $SRC"; exit 2; }
rm -rf $WT; mkdir -p /tmp/confirm
git -C /repo worktree add -q --detach $WT 17fbcf1 || exit 2
cd $WT
PYTHONPATH=$WT /venv/bin/python $SRC/demo.py >/tmp/confirm/$PID-$MK.pristine.log 2>&1; P=$?
git apply $SRC/patch.diff || { echo "patch does not apply"; git -C /repo worktree remove --force $WT; exit 2; }
PYTHONPATH=$WT /venv/bin/python $SRC/demo.py >/tmp/confirm/$PID-$MK.mutated.log 2>&1; M=$?
PYTHONPATH=$WT /venv/bin/python -m pytest -q -p no:cacheprovider -x -n $N --timeout=900 >/tmp/confirm/$PID-$MK.pytest.log 2>&1; T=$?
TAIL=$(grep -E " passed| failed| error" /tmp/confirm/$PID-$MK.pytest.log | tail -1)
cd /; git -C /repo worktree remove --force $WT
echo "$PID-$MK demo_pristine=$P demo_mutated=$M pytest=$T :: $TAIL"
if [ $P -eq 0 ] && [ $M -ne 0 ] && [ $T -eq 0 ]; then
  mkdir -p $OUT
  cp $SRC/patch.diff $SRC/demo.py $OUT/
  /venv/bin/python - "$SRC/meta.json" "$OUT/meta.json" "$P" "$M" "$TAIL" <<'PY' 2>/dev/null
import json, sys
src, dst, p, m, tail = sys.argv[1:6]
try:
    meta = json.load(open(src))
except Exception:
    meta = {}
meta["confirmed"] = dict(base_commit="17fbcf1", demo_exit_pristine=int(p), demo_exit_with_patch=int(m), pytest_tail=tail,
                         ran="scratch worktree /tmp/confirm/<id>: demo.py on pristine, git apply patch.diff, demo.py, pytest -q -x -n 4 --timeout=900; worktree removed")
json.dump(meta, open(dst, "w"), indent=1)
PY
  echo "kept $OUT"
else
  echo "REJECTED $PID-$MK"
fi
