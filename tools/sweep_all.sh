#!/bin/sh
# tools/sweep_all.sh [workers] [ids...]: every seeded change (or the ids given) against the check(s) of its property, in parallel, from a
# snapshot of the committed /verif (a git worktree under /tmp, so that edits in /verif do not disturb a running sweep) and scratch worktrees
# of /repo HEAD (never /repo itself).  One result line per (change, check) is appended to /tmp/sweepall/results.txt.
W=${1:-4}; shift
SNAP=/tmp/sweepall/verif
mkdir -p /tmp/sweepall
git -C /verif worktree remove --force $SNAP 2>/dev/null; rm -rf $SNAP
git -C /verif worktree add -q --detach $SNAP HEAD || exit 2
IDS="$@"; [ -z "$IDS" ] && IDS=$(ls /verif/seeded | grep -E '^C[0-9][0-9]-')
export SNAP
for id in $IDS; do echo $id; done | xargs -P $W -I{} sh -c "$(cat <<'INNER'
id={}; pid=${id%%-*}
wt=/tmp/sweepall/wt-$id
rm -rf $wt; git -C /repo worktree add -q --detach $wt HEAD 2>/dev/null || { echo "$id WORKTREE-FAILED" >> /tmp/sweepall/results.txt; exit 0; }
patch=$SNAP/seeded/$id/patch.diff; [ -f $SNAP/seeded/$id/patch_rebased.diff ] && patch=$SNAP/seeded/$id/patch_rebased.diff
if ! git -C $wt apply $patch 2>/dev/null; then echo "$id APPLY-FAILED" >> /tmp/sweepall/results.txt; git -C /repo worktree remove --force $wt; exit 0; fi
checks="$pid $(cat $SNAP/seeded/$id/also_checks 2>/dev/null)"
for c in $checks; do
  out=/tmp/sweepall/out-$id-$c; rm -rf $out; mkdir -p $out
  (cd $SNAP && VERIF_REPO=$wt VERIF_OUT=$out timeout 3000 ./check $c > $out/log 2>&1); rc=$?
  first=$(grep -E "VIOLATION" $out/log | grep -v "bounded-native" | head -1 | cut -c1-220)
  [ -z "$first" ] && first=$(grep -m1 -E "VIOLATION|UNDECIDED|CHECKER" $out/log | cut -c1-220)
  echo "$id check=$c exit=$rc :: $first" >> /tmp/sweepall/results.txt
  rm -rf $out/evidence $out/replays
done
git -C /repo worktree remove --force $wt
INNER
)"
echo sweep-all-done >> /tmp/sweepall/results.txt
