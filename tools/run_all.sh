#!/bin/sh
# tools/run_all.sh [tier]: every registered check against /repo, evidence rewritten; summary -> /tmp/p/runall.txt
TIER=${1:-quick}
cd /verif; mkdir -p /tmp/p; : > /tmp/p/runall.txt
run() { c=$1; ./check $c --tier $TIER > /tmp/p/run_$c.out 2>&1; echo "$c exit=$? $(tail -1 /tmp/p/run_$c.out | cut -c1-160)" >> /tmp/p/runall.txt; }
for c in C01 C02 C03 C04 C05 C06; do run $c & done; wait
for c in C10 C11 C12 C13 C14 C15; do run $c & done; wait
for c in C16 C17 C18 C19 C20; do run $c & done; wait
for c in C07 C08 C09; do run $c; done
echo all-done >> /tmp/p/runall.txt
