#!/bin/sh
# tools/confirm_mutant4.sh <Cxx> <mK> [ncores]: fourth-round seeded changes (made by a sub-agent against a recent /repo HEAD, in /tmp/mut4):
# confirmed in a fresh scratch worktree of the current /repo HEAD: demo exits 0 on pristine, non-zero with the patch, the unedited suite passes
# with the patch.  Kept as /verif/seeded/<Cxx>-r2<mK>/ (patch.diff, demo.py, notes.txt, meta.json) only if all three hold.
PID=$1; MK=$2; N=${3:-6}
SRC=/tmp/mut4/$PID/$MK
WT=/tmp/confirm/$PID-r4$MK
OUT=/verif/seeded/$PID-r4$MK
[ -f $SRC/patch.diff ] || { echo "no patch at $SRC"; exit 2; }
rm -rf $WT; mkdir -p /tmp/confirm; git -C /repo worktree prune
HEAD=$(git -C /repo rev-parse --short HEAD)
git -C /repo worktree add -q --detach $WT HEAD || exit 2
cd $WT
PYTHONPATH=$WT /venv/bin/python $SRC/demo.py >/tmp/confirm/$PID-r4$MK.pristine.log 2>&1; P=$?
git apply $SRC/patch.diff || { echo "$PID-r4$MK patch does not apply to $HEAD"; cd /; git -C /repo worktree remove --force $WT; exit 2; }
PYTHONPATH=$WT /venv/bin/python $SRC/demo.py >/tmp/confirm/$PID-r4$MK.mutated.log 2>&1; M=$?
PYTHONPATH=$WT /venv/bin/python -m pytest -q -p no:cacheprovider -x -n $N --timeout=900 >/tmp/confirm/$PID-r4$MK.pytest.log 2>&1; T=$?
TAIL=$(grep -E " passed| failed| error" /tmp/confirm/$PID-r4$MK.pytest.log | tail -1)
cd /; git -C /repo worktree remove --force $WT
echo "$PID-r4$MK demo_pristine=$P demo_mutated=$M pytest=$T :: $TAIL"
if [ $P -eq 0 ] && [ $M -ne 0 ] && [ $T -eq 0 ]; then
  mkdir -p $OUT
  cp $SRC/patch.diff $SRC/demo.py $OUT/
  [ -f $SRC/notes.txt ] && cp $SRC/notes.txt $OUT/
  /venv/bin/python - "$OUT" "$PID" "$HEAD" "$P" "$M" "$TAIL" <<'PY'
import json, sys, os
out, pid, head, p, m, tail = sys.argv[1:7]
notes = open(os.path.join(out, "notes.txt")).read() if os.path.exists(os.path.join(out, "notes.txt")) else ""
meta = dict(breaks_property=pid, round=4, needs_to_manifest=notes[:1500],
            confirmed=dict(base_commit=head, demo_exit_pristine=int(p), demo_exit_with_patch=int(m), pytest_tail=tail,
                           ran="scratch worktree of /repo HEAD: demo.py on pristine, git apply patch.diff, demo.py, pytest -q -x -n 6 --timeout=900 (whole suite); worktree removed"))
json.dump(meta, open(os.path.join(out, "meta.json"), "w"), indent=1)
PY
  echo "kept $OUT"
else
  echo "REJECTED $PID-r4$MK"
fi
