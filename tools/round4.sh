#!/bin/sh
# tools/round3.sh <Cxx>...: confirm the fourth-round seeded changes a sub-agent left in /tmp/mut4/<Cxx>/{m1,m2}, remove the agent's worktree,
# and sweep the kept ones against the check(s) of their property (scratch worktrees only; /repo is never touched).
cd /verif
for PID in "$@"; do
  for MK in m1 m2; do
    [ -f /tmp/mut4/$PID/$MK/patch.diff ] && sh tools/confirm_mutant4.sh $PID $MK 4 >> /tmp/mut4/confirm.log 2>&1
  done
  git -C /repo worktree remove --force /tmp/mut4/$PID/wt 2>/dev/null
  for MK in m1 m2; do
    [ -d seeded/$PID-r4$MK ] && sh tools/sweep_mutants.sh $PID-r4$MK >> /tmp/mut4/sweep.log 2>&1
  done
done
echo "round3-done $@" >> /tmp/mut4/confirm.log
