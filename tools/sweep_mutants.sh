#!/bin/sh
# tools/sweep_mutants.sh [ids...]: run each seeded change against the check(s) of its property in a scratch worktree of
# /repo HEAD (never touches /repo or /verif/evidence). Results -> /tmp/sweep/results.txt
cd /verif
mkdir -p /tmp/sweep
IDS="$@"
[ -z "$IDS" ] && IDS=$(ls seeded)
for id in $IDS; do
  pid=${id%%-*}
  wt=/tmp/sweep/wt-$id
  rm -rf $wt; git -C /repo worktree prune
  git -C /repo worktree add -q --detach $wt HEAD || continue
  patch=seeded/$id/patch.diff
  [ -f seeded/$id/patch_rebased.diff ] && patch=seeded/$id/patch_rebased.diff
  if ! git -C $wt apply /verif/$patch 2>/dev/null; then echo "$id APPLY-FAILED" >> /tmp/sweep/results.txt; git -C /repo worktree remove --force $wt; continue; fi
  checks="$pid $(cat seeded/$id/also_checks 2>/dev/null)"
  for c in $checks; do
    [ -f props/$c.py ] || continue
    out=/tmp/sweep/out-$id-$c; mkdir -p $out
    VERIF_REPO=$wt VERIF_OUT=$out timeout 3000 ./check $c > $out/log 2>&1; rc=$?
    # the line reported: a violation decided by a deductive obligation if there is one, else one seen by a bounded native family only
    first=$(grep -E "VIOLATION" $out/log | grep -v "bounded-native" | head -1 | cut -c1-200)
    [ -z "$first" ] && first=$(grep -m1 -E "VIOLATION|UNDECIDED|CHECKER" $out/log | cut -c1-200)
    echo "$id check=$c exit=$rc :: $first" >> /tmp/sweep/results.txt
  done
  git -C /repo worktree remove --force $wt
done
echo sweep-done >> /tmp/sweep/results.txt
