ENGINES = [
    dict(name="pyvc", path="pyvc/", serves_properties=["C17"],
         kind_free_text="E1: AST -> verification-condition generator / symbolic executor over the real source text of /repo, sidecar contracts, z3 (cvc5 fall-back)"),
    dict(name="tabinv", path="tabinv/", serves_properties=[],
         kind_free_text="E2: exact-arithmetic ground obligations on the coefficient tables dumped from the imported classes"),
    dict(name="monitor", path="monitor/", serves_properties=["C17"],
         kind_free_text="E3: bounded native stand-ins and replay of counter-models under /venv/bin/python (never counted as proved)"),
]
NOTES = ("Contract-based deductive verification of the real code; see DESIGN.md. Exit codes: 0 held, 1 VIOLATION, 2 undecided, 3 checker error. "
         "known_findings.json lists genuine defects recorded rather than repaired.")
CHECKS = {
    "C17": dict(level="proof", engine="pyvc",
                text="Every obligation generated from the current source of search_bisection, search_bisection_vec, CubicHermiteInterp.__call__ and .grad "
                     "(pre/post, loop invariants, variants, index bounds, cubic exactness, grad-is-derivative) is discharged by z3 for all array lengths, "
                     "all queries and all cubics; scalar/vector agreement is a lemma over the two contracts.",
                note="floats as reals (A1), executor's Python/numpy encoding (A2, A3), element-wise lifting of the vector search (A4); z3 trusted; canaries refuted and native enumeration agree on every run",
                technique="contracts + loop invariants on the real AST, VCs discharged by z3 (LIA + arrays + NRA)",
                design_ref="DESIGN.md section 4 C17"),
}
NOT_APPLICABLE = {}
