ENGINES = [
    dict(name="pyvc", path="pyvc/", serves_properties=["C17", "C14"],
         kind_free_text="E1: AST -> verification-condition generator / symbolic executor over the real source text of /repo, sidecar contracts, z3 (cvc5 fall-back)"),
    dict(name="tabinv", path="tabinv/", serves_properties=[],
         kind_free_text="E2: exact-arithmetic ground obligations on the coefficient tables dumped from the imported classes"),
    dict(name="monitor", path="monitor/", serves_properties=["C17"],
         kind_free_text="E3: bounded native stand-ins and replay of counter-models under /venv/bin/python (never counted as proved)"),
]
NOTES = ("Contract-based deductive verification of the real code; see DESIGN.md. Exit codes: 0 held, 1 VIOLATION, 2 undecided, 3 checker error. "
         "known_findings.json lists genuine defects recorded rather than repaired.")
CHECKS = {
    "C17": dict(level="proof", engine="pyvc",
                text="Every obligation generated from the current source of search_bisection, search_bisection_vec, CubicHermiteInterp.__call__ and .grad "
                     "(pre/post, loop invariants, variants, index bounds, cubic exactness, grad-is-derivative) is discharged by z3 for all array lengths, "
                     "all queries and all cubics; scalar/vector agreement is a lemma over the two contracts.",
                note="floats as reals (A1), executor's Python/numpy encoding (A2, A3), element-wise lifting of the vector search (A4); z3 trusted; canaries refuted and native enumeration agree on every run",
                technique="contracts + loop invariants on the real AST, VCs discharged by z3 (LIA + arrays + NRA)",
                design_ref="DESIGN.md section 4 C17"),
}
CHECKS["C14"] = dict(level="proof", engine="pyvc",
    text="brentsroot and brentsrootvec (element-wise lifted; callable and list front ends; tol given / None) are verified against the property's clauses "
         "for every function f (uninterpreted), bracket order and tolerance: bracket invariant, P1 inside bracket, P2 located sign change on the convergence exit, "
         "P4 meaning of success, P5 success under a sign change at any scale, P6 no false success, iteration-cap variant, and P7 scalar/vector agreement as a lock-step "
         "relational proof (initial states, one iteration, exit decisions). The scalar early exit (inf, False) is a recorded known finding (F10a).",
    note="floats as reals (A1) - the float side (float32, scales 1e-6..1e9) is only exercised by the bounded native family, labelled bounded; the interpolated point s is abstracted "
         "to an arbitrary real in the contract proofs; 'within tol' is proved for the convergence exit, on the 64-iteration cap exit only 'sign change between the returned end points'; A4 lifting",
    technique="contracts + loop invariants + relational lock-step on the real AST, VCs discharged by z3 (NRA + UF)",
    design_ref="DESIGN.md section 4 C14")
NOT_APPLICABLE = {}
