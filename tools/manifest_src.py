ENGINES = [
    dict(name="pyvc", path="pyvc/", serves_properties=["C17", "C14", "C02", "C01", "C10", "C11", "C16", "C19", "C03", "C04", "C05", "C12", "C13", "C20", "C06", "C18", "C07", "C08", "C09", "C15"],
         kind_free_text="E1: AST -> verification-condition generator / symbolic executor over the real source text of /repo, sidecar contracts, z3 (cvc5 fall-back)"),
    dict(name="tabinv", path="tabinv/", serves_properties=["C01", "C10", "C11"],
         kind_free_text="E2: exact-arithmetic ground obligations on the coefficient tables dumped from the imported classes"),
    dict(name="monitor", path="monitor/", serves_properties=["C17", "C14", "C01", "C02", "C10", "C11", "C03", "C05", "C06", "C07", "C08", "C09", "C12", "C13", "C16", "C18", "C19", "C20"],
         kind_free_text="E3: bounded native stand-ins and replay of counter-models under /venv/bin/python (never counted as proved)"),
]
NOTES = ("Contract-based deductive verification of the real code; see DESIGN.md. Exit codes: 0 held, 1 VIOLATION, 2 undecided, 3 checker error. "
         "known_findings.json lists genuine defects recorded rather than repaired.")
CHECKS = {
    "C17": dict(level="proof", engine="pyvc",
                text="Every obligation generated from the current source of search_bisection, search_bisection_vec, CubicHermiteInterp.__call__ and .grad "
                     "(pre/post, loop invariants, variants, index bounds, cubic exactness, grad-is-derivative) is discharged by z3 for all array lengths, "
                     "all queries and all cubics; scalar/vector agreement is a lemma over the two contracts. CubicHermiteInterp.__init__ under contract (end data stay with their end for either orientation; the piece holds private copies of its data: ownership clause by object identity). The query of the bisection searches is judged as given (old(val)); dtype provenance tracked (a cast of the query to the array's type is a refuted post-condition).",
                note="floats as reals (A1), executor's Python/numpy encoding (A2, A3), element-wise lifting of the vector search (A4); z3 trusted; canaries refuted and native enumeration agree on every run",
                technique="contracts + loop invariants on the real AST, VCs discharged by z3 (LIA + arrays + NRA)",
                design_ref="DESIGN.md section 4 C17"),
}
CHECKS["C14"] = dict(level="proof", engine="pyvc",
    text="brentsroot and brentsrootvec (element-wise lifted; callable and list front ends; tol given / None) are verified against the property's clauses "
         "for every function f (uninterpreted), bracket order and tolerance: bracket invariant, P1 inside bracket, P2 located sign change on the convergence exit, "
         "P4 meaning of success, P5 success under a sign change at any scale, P6 no false success, iteration-cap variant, and P7 scalar/vector agreement as a lock-step "
         "relational proof (initial states, one iteration, exit decisions); _bracket_tol under contract (the stopping width is the requested tolerance but never below eps * max(|a|, |b|): the lemma that makes the stopping test reachable in floating point). The scalar early exit (inf, False) is a recorded known finding (F10a). Ownership clause: the bracket arrays the caller passed are not written into (refuted on the unrepaired tree: defect F36, repaired). _bracket_tol takes its epsilon from the bracket's type (dtype provenance).",
    note="floats as reals (A1) - the float side (float32, scales 1e-6..1e9) is only exercised by the bounded native family, labelled bounded; the interpolated point s is abstracted "
         "to an arbitrary real in the contract proofs; 'within tol' is proved for the convergence exit, on the 64-iteration cap exit only 'sign change between the returned end points'; A4 lifting",
    technique="contracts + loop invariants + relational lock-step on the real AST, VCs discharged by z3 (NRA + UF)",
    design_ref="DESIGN.md section 4 C14")
CHECKS["C01"] = dict(level="proof", engine="tabinv+pyvc",
    text="All rooted-tree order conditions up to the declared order of the 29 Runge-Kutta tables (RadauIIA19: simplifying assumptions B(19), C(10), D(9) + trees to order 9), row sums, "
         "estimator consistency with the weights extracted by symbolic execution of the real get_error_estimate (incl. the RadauIIA19 override; cross-checked against the weights probed on the imported object), P-series conditions of the 3 splitting tables, and the Aitken-Neville moment conditions on the weights "
         "the real adaptive_richardson returns (extracted by symbolic execution for 2..5 levels and every shipped base order; subdiv_step proved to be the chained composition). "
         "Exact rational arithmetic; RK14(12) orders 13-14 (49 000 trees) are in the thorough tier. The declared orders of the two high-order splitting schemes are a recorded known finding (F3). The factory generate_richardson_integrator is executed too: for k requested levels it returns the class it defined in that call, closed over k and the given basis (a class read back from module-level state is refuted).",
    note="A8 (Butcher's order theorem, P-series, simplifying-assumption theorem, Aitken-Neville) is cited, not mechanised; rounding slack derived, margins reported; A1",
    technique="data-structure invariant of the coefficient tables by exact arithmetic + weights extracted from the real code by symbolic execution",
    design_ref="DESIGN.md section 4 C01")
CHECKS["C02"] = dict(level="proof", engine="pyvc",
    text="compute_step, RungeKuttaIntegrator.step, algebraic_system and ExplicitSymplecticIntegrator.step are executed symbolically (uninterpreted right-hand side, symbolic t, y, h; LinComb domain) for "
         "all 32 shipped tables and proved equal to an independently written specification of the Runge-Kutta / drift-kick formulas, incl. stale-buffer frames and FSAL branches; the branch flags (_explicit, _fsal, _adaptive) are proved from the real constructors (TableauIntegrator / RungeKuttaIntegrator.__init__) to be the defining predicates of the tables; "
         "the tolerance handed to the nonlinear solver is a function of this step's state and the integrator's atol / rtol only (data-flow clause, step executed from an arbitrary solver_dict with the keys the constructor creates); "
         "RungeKuttaIntegrator.__call__ is executed over its control skeleton: an implicit step whose solve did not converge is never returned. The success flag of an implicit step implies that the residual *this* call of nonlinear_roots returned is below the tolerance it was given (comparison provenance), not a value an earlier solve left in solver_dict. Float side: the splitting step discards the previous increment by a store, not by multiplying it by zero (defect F37, repaired).",
    note="the nonlinear solve itself is external (A6, assumed contract; native stage residuals are a bounded clause); floats as reals (A1); shapes/dtypes not modelled",
    technique="symbolic execution of the real functions in a free-vector-space domain, exact polynomial identity; control-flow post-condition by z3",
    design_ref="DESIGN.md section 4 C02")
CHECKS["C10"] = dict(level="proof", engine="tabinv+pyvc",
    text="M = 0 and symmetry of the 3 symplectic-flagged Runge-Kutta tables; pure-row / palindromic / sum-one invariants of the 3 splitting tables; the real ExplicitSymplecticIntegrator.step proved to be a composition "
         "of shears and step(h) followed by step(-h) proved to be the identity for every separable right-hand side (shipped coefficients, autonomous; symbolic palindromic coefficients, time-dependent forces); the kick / drift masks built by the real ExplicitSymplecticIntegrator.__init__ are complementary 0/1 vectors for a state of any length (default: second half kicks; a given mask is taken as is); unconverged implicit steps never returned.",
    note="A8 (M=0 => symplectic, shears symplectic, symmetric => reversible for RK) cited; bounded energy error is a corollary, not checked; A1; float behaviour is a bounded native clause",
    technique="exact table invariants + relational (two-run) symbolic execution in the LinComb domain",
    design_ref="DESIGN.md section 4 C10")
CHECKS["C11"] = dict(level="proof", engine="tabinv+pyvc",
    text="For all 16 implicit tables the stability function is computed exactly; |R(iy)| <= 1 for every real y (exact Sturm sequence, z3 nlsat as second opinion), all poles in the open right half-plane "
         "(exact Routh-Hurwitz), deg N <= deg D; the code link: algebraic_system is the defining stage system, the increment is h*sum b_i K_i, unconverged solves are never returned.",
    note="maximum principle (A8) cited; 2^-40 rounding allowance on the imaginary axis; nonlinear solve external (A6): native agreement with R(z) is a bounded clause",
    technique="exact polynomial root counting (Sturm, Routh-Hurwitz) on tables dumped from the imported classes + symbolic execution of the stage system",
    design_ref="DESIGN.md section 4 C11")
CHECKS["C16"] = dict(level="proof", engine="pyvc",
    text="The Jacobian dispatch of DiffRHS is verified as a state machine: jac() and every mutator (hook, unhook, `jac =` through __setattr__, set_jac_base_order, __copy__) are executed symbolically from every "
         "abstract state satisfying the invariant Inv_J and re-establish it, so every call sequence is covered; jac returns the user's function value when one is attached and otherwise a finite-difference wrapper whose "
         "closure evaluates rhs at the time of this call (proved by executing the real closure), counted by nfev; njev increments once. JacobianWrapper.estimate is executed on an affine map with a symbolic stencil "
         "(moment conditions checked on the real weights): exact, entry [i, j] = d f_i / d y_j; estimate writes no attribute of the wrapper (nothing cached between evaluations); richardson / adaptive_richardson / __call__ executed on the estimate's contract for every number "
         "of levels the constructor can produce: the extrapolated value of an affine map is exactly its matrix; an attached user Jacobian survives set_jac_base_order and __copy__; check_converged against its specification.",
    note="finite-difference accuracy on nonlinear maps is only a bounded native clause (labelled); inside DiffRHS.jac the wrapper call is abstracted to 'derivative of its closure' (the wrapper itself is verified separately on affine maps); A1, A2, A3, A5",
    technique="state-machine invariant by symbolic execution from every abstract state + exact polynomial identity for the affine case",
    design_ref="DESIGN.md section 4 C16")
CHECKS["C19"] = dict(level="proof", engine="pyvc",
    text="OdeSystem.__getitem__ (integer, time without dense output, time with dense output, slice) and __len__ are verified against the representation invariant of the recorded grid for every grid length, index and "
         "query time: sequence semantics incl. IndexError, nearest recorded sample for any grid order, pairing of t_i with y_i, whole-run slices; iteration is the lemma over the int contract. "
         "Slices of backward trajectories are a recorded known finding (F21b).",
    note="numpy IndexError/argmin/broadcast semantics axiomatised (A3); states modelled as one real per step; Rep invariant is integrate()'s post-condition (C03/C12); A1, A2",
    technique="contracts on the real method, VCs with arrays/quantifiers discharged by z3; callee search_bisection by its C17 contract",
    design_ref="DESIGN.md section 4 C19")
CHECKS["C03"] = dict(level="proof", engine="pyvc",
    text="The real OdeSystem.integrate is verified against its contract for an arbitrary pre-state satisfying the representation invariant (hence every sequence of calls): prefix frame, strict monotonicity toward the target, "
         "no overshoot, end within tol_epsilon of the target, every buffer write in bounds (growth logic), buffers trimmed to counter + 1 -- on normal and exceptional exit, with 0 and with 2 arbitrary callbacks, target given or "
         "defaulted; the step-sign/size contract of the integrators used at the call site is proved from update_timestep, implicit_aware_update_timestep, RungeKuttaIntegrator.__call__ and ExplicitSymplecticIntegrator.__call__.",
    note="states are one real per step; finiteness/dtype are bounded native clauses; events and dense output are outside this contract (C06-C09); loop termination not proved (A7); transcendental axioms listed; Richardson wrappers' "
         "__call__ only through the native family; A1",
    technique="contract + loop invariant on the real method, callee contracts proved in the same run, VCs (arrays, quantifiers) by z3",
    design_ref="DESIGN.md section 4 C03")
CHECKS["C04"] = dict(level="proof", engine="pyvc",
    text="With a fixed-step integrator contract (dTime == new_dt == timestep, proved for explicit RK and splitting classes) and no callback, integrate() records steps of magnitude exactly H (the requested |dt|, or half the span) "
         "except possibly the last, none longer, for every (t0, tf); one RK step is shift- and reflection-invariant for autonomous right-hand sides (all explicit tables, LinComb domain); one iteration of integrate()'s loop is "
         "shift-invariant (relational proof). Implicit fixed-step classes are a recorded known finding (F8).",
    note="'tolerance level' agreement of shifted adaptive runs is floating-point: bounded native family; A1, A7; transcendental axioms",
    technique="loop invariant with exact step magnitudes + relational (two-run) symbolic execution",
    design_ref="DESIGN.md section 4 C04")
CHECKS["C05"] = dict(level="other", engine="pyvc+monitor",
    text="Proved for all inputs: the step controller (sign preserved, corr in [1 - pi/4, 1 + pi/2), redo iff corr < 0.81, frame), the implicit-aware wrapper, and RungeKuttaIntegrator.__call__ over its control skeleton: every retry "
         "after a rejection is strictly smaller and of the same sign, normal return implies the controller accepted (and Newton converged), otherwise FailedToMeetTolerances; integrate() records nothing for a failed step; the controller memory that survives from one call to the next (solver_dict_keep_keys, built by the real RungeKuttaIntegrator.__init__ for every shipped class) holds no per-step quantity and the first error test of a call sees none of it; a tolerance assigned through the rtol / atol setters rebuilds the integrator from the current settings. "
         "NOT proved: the headline error bound (asymptotic floating-point statement) -- bounded native family only, labelled bounded.",
    note="level 'other' because the property's first clause is only bounded; arctan / power functions axiomatised; A1",
    technique="contracts on controller and retry loop discharged by z3; bounded native accuracy family for the error-bound clause",
    design_ref="DESIGN.md section 4 C05")
CHECKS["C12"] = dict(level="proof", engine="pyvc",
    text="The exceptional post-condition of the real integrate() is proved at every raising program point (integrator call, buffer growth, each callback; Exception subclasses and KeyboardInterrupt; also from a pre-state that already "
         "failed): FailedIntegration with the original cause (KeyboardInterrupt as itself), status is that object, buffers trimmed, prefix untouched, recorded steps monotone and not beyond the target, dt != 0 -- the representation "
         "invariant integrate() requires, so resumption is C03. RungeKuttaIntegrator.__call__: a non-caught exception from step() escapes from the first attempt and every retry. reset() from a failed state (also one in which the fault hit the very first step: counter 0, status = the exception object): C13's obligations, proved here for that state.",
    note="faults inside the event block: one terminal event with dense output kept, both directions, deductively; every position k of short runs (rhs, callback and event-function faults) in the bounded native fault-injection family; swallowed ValueError is a recorded known finding (F26); A1",
    technique="exceptional post-conditions at raising program points (crash-point enumeration over program points) discharged by z3",
    design_ref="DESIGN.md section 4 C12")
CHECKS["C13"] = dict(level="proof", engine="pyvc",
    text="OdeSystem.__init__ is executed symbolically (plain callable / DiffRHS right-hand side, dense on / off, either orientation of the span and of dt) and proved to establish the construction contract (representation invariant of integrate, trajectory = the initial point, dt oriented toward tf, settings stored, status 0, no events, fresh dense output and integrator, one counted evaluation at the initial point); reset() executed symbolically from an arbitrary run-state re-establishes, field by field, what the constructor established (relational obligation) (trajectory = initial point, fresh empty DenseOutput, dt = oriented initial step, nfev 0, status 0, "
         "no events, new integrator built from the current settings), settings untouched; frame completeness of the attribute write set (AST); integrate() at the target changes nothing; y0 cloned, no write through y0/constants, "
         "no clock/random source (AST scans); the setters of rtol / atol / dt / tf / t0 / constants executed from an arbitrary run state: the setting takes the value, a tolerance change rebuilds the integrator from the current settings, dt keeps pointing from t0 toward tf, nothing of the run state changes; an attribute the sidecar does not know that integrate() writes and reads but reset() never writes is a violation.",
    note="split-span agreement 'within tolerance' and bit-for-bit equality with a fresh system are exercised by the bounded native history family; numpy determinism assumed",
    technique="symbolic execution of the constructor, of reset and of the setters from havocked states (relational reset-vs-constructor obligation) + syntactic frame / data-flow obligations",
    design_ref="DESIGN.md section 4 C13")
CHECKS["C20"] = dict(level="proof", engine="pyvc",
    text="DiffRHS.__call__ counts completed calls only; jac counts once and its finite-difference closures are counted; no `.rhs(...)` call bypasses the counted path anywhere in the package (AST); reset zeroes nfev; a new system starts from its own counted wrapper (a copy when a DiffRHS is passed: counters zeroed) and has made exactly one counted evaluation at the initial point (real OdeSystem.__init__ / DiffRHS.__copy__ executed); in integrate() "
         "every callback is invoked exactly once per iteration, in list order, after the new (t, y) row is recorded and visible, and the step handed to the integrator is the stored dt or the final clamp -- also in the iteration that lands on a terminal event, however that iteration leaves the loop (obligation at iteration end and at `break`).",
    note="terminal-event sub-steps: the recursive integrate must be made without the caller's callbacks (pre-condition proved at the call site in the terminal-event configuration); torch paths cut (A5)",
    technique="ghost call logs in the symbolic execution of integrate + state-machine contracts of DiffRHS + package-wide AST frame scan",
    design_ref="DESIGN.md section 4 C20")
CHECKS["C06"] = dict(level="proof", engine="pyvc",
    text="DenseOutput under contract with symbolic-length lists: add_interpolant keeps the ordering/coverage and cache invariants, lookup (value, gradient, vector) answers every query in the integrated range from the piece "
         "whose interval contains it, remove_interpolant drops the oldest / newest piece per direction (both run directions, pieces may leave gaps); integrate() with dense output kept (both run directions, the real add_interpolant on symbolic-length lists): exactly one piece per recorded step spanning [t_i, t_i+1] on normal and exceptional exit and across "
         "continued calls; dense_output() builds the Hermite piece from (t, y, f) at both ends and CubicHermiteInterp.__init__ keeps each end's data with that end (value / slope at t0, t1 of the constructed piece, either orientation); the integrators leave initial_rhs == rhs(t, y) and final_rhs == rhs(t + dTime, y + dState) whatever the previous call's end point "
         "(with C17: nodes reproduced, C^1 joins with slopes equal to the right-hand side). The backward lookup defect F11 was repaired (fix: commit edcff3c) and its obligations are now discharged.",
    note="O(h^4) between nodes = cubic exactness (C17) + Peano kernel theorem (A8); sub-divided steps (Richardson wrappers: several pieces per step) only natively -- the roll-back defect F30 lived there and was found by probes, not by the one-piece-per-step model; events in C07-C09; A1",
    technique="data-structure invariant over an abstract view (parallel z3 arrays), contracts at call sites, LinComb domain for the slope clause",
    design_ref="DESIGN.md section 4 C06")
CHECKS["C18"] = dict(level="proof", engine="pyvc",
    text="The real solve_ivp is executed symbolically with the OdeSystem replaced by the contracts proved in C03 (integrate) and C19 (__getitem__): args bound to parameters in order through nested DiffRHS wrappers, "
         "first step clipped into [min_step, max_step], settings/method/events/callbacks passed through, clipping callback keeps |dt| in range and its sign, without t_eval (system.t, states with the time axis moved last), "
         "with t_eval (1..3 symbolic times, any order, repeats, both span directions: enumerated; and an array of any length: the loop over the requested times cut by an invariant, numpy.sort by its axioms) exactly the requested times in integration order to tol_epsilon, ValueError only for times outside the span, result fields are the system's own; "
         "max_step chain: integrate() with the clipping callback's contract never records a step longer than max_step (loop invariant on the real integrate).",
    note="inside solve_ivp the OdeSystem is represented by the construction contract, which is proved in the same run from the real OdeSystem.__init__; shapes for n-d states, dtypes and scipy parity are a bounded native family; getfullargspec / sort / transpose assumed (A3); A1",
    technique="modular verification of the facade against callee contracts + loop invariant for the max_step chain",
    design_ref="DESIGN.md section 4 C18")
CHECKS["C07"] = dict(level="proof", engine="pyvc",
    text="handle_events (real text; 1, 2 event functions, all directions x terminal flags, both time directions; root finder by its C14 contract): returned roots inside the step, certified, in integration order, direction "
         "compatible with a sampled crossing. OdeSystem.integrate with events (real text incl. prepare_events, the recording loop, duplicate suppression, terminal branch, pruning; real DenseOutput.add/remove over symbolic-length "
         "lists): records of earlier calls untouched; each record of this call lies in the step it was found in, between the start of the call and the current time; its state is the dense solution at its time "
         "(sol(t) answered by a piece containing t: C06 contract, pre-condition proved at the call site); records in integration order; two records of one event made by one call are more than eps^0.7 apart "
         "(invariant: last_occurrence[k] is the latest record of event k). Wrapper k handed to the root finder is event k on the dense solution, with its gradient exactly when requested (all mixes of requires_dstate, from the executed closures). Known finding F35 (a shallow crossing just before a step boundary reported twice) is witnessed natively on every run.",
    note="'within tolerance of a true root along the exact trajectory' is numerical analysis: bounded native family against closed-form crossings only; uniqueness is per call (cross-call re-detection on a terminal event is "
         "known finding F27); dense output kept + events only natively; quick tier: n = 1 both directions, n = 2 forward; A1, A4",
    technique="contracts + loop invariant (ghost: latest record per event) on the real integrate / handle_events, callee contracts proved in C14 / C06 and re-proved here, VCs (arrays, quantifiers) by z3",
    design_ref="DESIGN.md section 10 (events)")
CHECKS["C08"] = dict(level="proof", engine="pyvc",
    text="The completeness chain, link by link on the real functions: (1) Brent success on a sign-changing bracket at any scale (C14 P5); (2) handle_events no-miss lemma: a certified strict sign change with a compatible "
         "direction is among the returned events unless it lies after the terminal event that cut the list (isolated-crossing hypothesis explicit); (3) integrate records every returned root in the same iteration unless it "
         "repeats the latest record of that event (ghost obligation at the end of every loop iteration); (4) at the call of handle_events the newest piece of the real DenseOutput spans exactly [t_prev, t_next] and DO_Inv holds, "
         "both directions; (5) pruning with dense output off keeps that piece: once a step is recorded the newest piece ends at the current time (loop invariant), remove_interpolant drops the oldest piece in both directions. Float-side lemmas _bracket_tol and _probe_offset (defect F34, repaired: classification samples collapsed onto the root at |t| >= 1e8); the functions given to the root finder are built in this call from this call's dense solution (a value read from module-level state is arbitrary at entry: refuted).",
    note="link (1) holds unless the 64-iteration cap binds (bounded native); the float-spacing defect F9b (repaired) was outside A1 and found by the bounded family; 1..6 events / 12 orders of magnitude only natively; A1, A4",
    technique="chain of contracts (callee post => caller pre) on the real code, ghost obligations per loop iteration, z3",
    design_ref="DESIGN.md section 10 (events)")
CHECKS["C09"] = dict(level="proof", engine="pyvc",
    text="integrate() with terminal events (every mix for n = 1, 2; both directions): handle_events cuts its list after the first terminal event; the terminal branch (roll back, drop the step's interpolant, integrate(root) by "
         "integrate's own contract proved in the same run, status 2) gives: last record = the terminal event, all earlier records of the call non-terminal and not later, last recorded time within 8 eps of the event time and never "
         "beyond it, buffers trimmed to it, status 2 reported as success with its message; otherwise status 1 and the run ends at its target; the post-state satisfies the representation invariant (trajectory + step interpolants) "
         "the next call requires, on normal and exceptional exit; the same stop from a system whose earlier call failed (exception object still stored as status) still ends with status 2.",
    note="'last state on the event surface' and continuation results are bounded native clauses; dense output kept and infinite targets (both directions) are verified for n = 1 in the quick tier, mixes with n = 2 in the thorough tier; continuing with the same terminal event still monitored is known finding F27; A1",
    technique="contract + loop invariant on the real integrate with the recursive call replaced by its own proved contract, z3",
    design_ref="DESIGN.md section 10 (events)")
CHECKS["C15"] = dict(level="proof", engine="pyvc",
    text="Success-flag dataflow of hybrj, newtontrustregion and nonlinear_roots on their real text, for every tolerance, iteration budget and problem size (arrays opaque, norms uninterpreted, unmodelled comparisons "
         "nondeterministic, iteration loops cut by invariants): a reported success entails a residual norm below the tolerance at the returned point unless it was reached through the step-size termination rule "
         "(region A-xtol, bounded native only; the rule's scale is pinned by an iteration clause: xtol == tol * (n + ||x||) in both solvers, so the region cannot silently grow); the residual handed back is f at the point handed back (identity links along every path); in the front end the reported precision is that residual norm on the "
         "dogleg and Newton branches, success means a small residual or the step-size rule, and a failed attempt restarts the next solver from the caller's x0. The two defects this refuted (F18 trust-region collapse "
         "counted as success, F18b step norm reported as precision) were repaired.",
    note="what is proved is the dataflow of the flags, not convergence; MINPACK branch external (A6); the step-size rule region and result shapes are bounded native clauses (n = 1..12, float64 / longdouble); scalar wrapper not under contract; loose tolerances (1e-3, 1e-4) on rootless systems are in the bounded native family",
    technique="contracts + cut for-loops on the real AST with an opaque-value abstraction of the linear algebra, ghost identity links, z3",
    design_ref="DESIGN.md section 10 (C15)")
NOT_APPLICABLE = {}
