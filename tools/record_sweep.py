"""tools/record_sweep.py: derive the detection status of every seeded change from seeded/sweep_log.txt (append-only log of
tools/sweep_mutants.sh result lines, oldest first; the latest line per (change, check) counts), write it into each seeded/<id>/meta.json,
seeded/SWEEP.md and the table of DESIGN.md section 10.5."""
import collections, json, os, re, sys
V = os.path.dirname(os.path.dirname(os.path.abspath(__file__)))
res = collections.OrderedDict()
for l in open(os.path.join(V, "seeded", "sweep_log.txt")):
    m = re.match(r"(\S+) check=(\S+) exit=(\d+) :: ?(.*)", l.strip())
    if m:
        mid, chk, rc, first = m.group(1), m.group(2), int(m.group(3)), m.group(4)
        ob = re.search(r"obligation=(\S+)", first)
        res.setdefault(mid, {})[chk] = dict(exit=rc, first=(ob.group(1) if ob else first[:160]), bounded=("bounded-native" in first))
notes = json.load(open(os.path.join(V, "seeded", "notes.json")))
head = os.popen("git -C /repo rev-parse --short HEAD").read().strip()
rows = []
for mid in sorted(os.listdir(os.path.join(V, "seeded"))):
    d = os.path.join(V, "seeded", mid)
    if not os.path.isdir(d):
        continue
    mp = os.path.join(d, "meta.json")
    meta = json.load(open(mp)) if os.path.exists(mp) else {}
    r = res.get(mid, {})
    det = [dict(check=c, exit=v["exit"], first_failing_obligation=v["first"], by=("bounded native family" if v["bounded"] else "deductive obligation")) for c, v in r.items() if v["exit"] == 1]
    und = [c for c, v in r.items() if v["exit"] == 2]
    status = "detected" if det else ("undecided" if und else ("not-detected" if r else "not-swept"))
    meta["sweep"] = dict(repo_head=head, patch=("patch_rebased.diff" if os.path.exists(os.path.join(d, "patch_rebased.diff")) else "patch.diff"), status=status, detected_by=det,
                         checks_run={c: v["exit"] for c, v in r.items()})
    if mid in notes:
        meta["sweep"]["note"] = notes[mid]
    json.dump(meta, open(mp, "w"), indent=1)
    rows.append((mid, status, "; ".join("%s: %s%s" % (x["check"], x["first_failing_obligation"][:110], " (bounded)" if x["by"].startswith("bounded") else "") for x in det)
                 or notes.get(mid, ", ".join("%s exit %d" % (c, v["exit"]) for c, v in r.items()))))
c = collections.Counter(r[1] for r in rows)
hdr = "| change | status | first failing obligation / note |\n|---|---|---|\n"
with open(os.path.join(V, "seeded", "SWEEP.md"), "w") as f:
    f.write("# Seeded changes against the checks (/repo HEAD %s)\n\nEach change applied in a scratch worktree of /repo HEAD (`tools/sweep_mutants.sh`), the check(s) of its property run with VERIF_REPO pointing there.\n"
            "`detected` = exit 1 with a VIOLATION line; `(bounded)` = only the bounded native family saw it. %d changes: %s.\n\n" % (head, len(rows), dict(c)) + hdr)
    for r_ in rows:
        f.write("| %s | %s | %s |\n" % r_)
p = os.path.join(V, "DESIGN.md")
s = open(p).read()
a = s.index("Last sweep (")
b = s.index("\nChecks strengthened because a seeded change was missed at first")
tab = "Last sweep (%d changes): %d detected (exit 1, VIOLATION naming the obligation), %d undecided, %d not detected. Full table: `seeded/SWEEP.md`.\n\n" % (len(rows), c["detected"], c["undecided"], c["not-detected"]) + hdr
for r_ in rows:
    tab += "| %s | %s | %s |\n" % r_
s = s[:a] + tab + s[b:]
open(p, "w").write(s)
print(dict(c))
for r_ in rows:
    if r_[1] != "detected":
        print(r_[:2])
