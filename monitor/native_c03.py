"""Runs under /venv/bin/python: bounded native family for C03/C04 (time grids of integrate())."""
import json
import sys
import warnings

import numpy as np

warnings.filterwarnings("ignore")


def rhs(t, y, **kw):
    return np.stack([y[1], -y[0]]).astype(y.dtype)


def main():
    req = json.loads(sys.stdin.read())
    import desolver as de
    from monitor import watchdog
    watchdog.install(de)
    from desolver import integrators as I
    failures, cases = {}, 0

    def fail(cl, **info):
        failures.setdefault(cl, [])
        if len(failures[cl]) < 3:
            failures[cl].append(info)

    spans = [(0.0, 2.0), (0.0, -2.0), (-5.0, 1.0), (10.0, 5.0), (-10.0, -5.0), (5.0, -1.0), (-1.0, 1.0), (1.0, -1.0), (3.0, 4.5)]
    methods_fixed = ["RK4Solver", "EulerSolver", "MidpointSolver", "SymplecticEulerSolver", "ABAs5o6HSolver"]
    methods_adapt = ["RK45CKSolver", "DOPRI45", "RK8713MSolver"]
    methods_impl = ["BackwardEuler", "ImplicitMidpoint", "RadauIIA5"]
    dtypes = [np.float64, np.float32] + ([np.longdouble] if req.get("tier") == "thorough" else [])
    for dtype in dtypes:
        eps = float(np.finfo(dtype).eps)
        for span in spans:
            for dt0 in (0.25, 3.0, -0.1):
                for name in methods_fixed + methods_adapt + (methods_impl if dt0 == 0.25 else []):
                    cls = getattr(I, name)
                    tol = 1e-3 if dtype == np.float32 else 1e-8
                    a = de.OdeSystem(rhs, y0=np.array([1.0, 0.0], dtype=dtype), t=span, dt=dt0, rtol=tol, atol=tol)
                    a.method = cls
                    try:
                        a.integrate()
                    except Exception as e:
                        fail("raises", span=span, dt=dt0, method=name, dtype=np.dtype(dtype).name, exc=repr(e)[:80], cause=repr(e.__cause__)[:80])
                        continue
                    cases += 1
                    t, y = np.asarray(a.t), np.asarray(a.y)
                    d = np.sign(span[1] - span[0])
                    info = dict(span=span, dt=dt0, method=name, dtype=np.dtype(dtype).name, n=len(t))
                    if t[0] != dtype(span[0]) or not np.array_equal(y[0], np.array([1.0, 0.0], dtype=dtype)):
                        fail("start", **info)
                    if not np.all(d * np.diff(t) > 0):
                        fail("monotone", **info)
                    if abs(float(t[-1]) - span[1]) > 64 * eps * max(1.0, abs(span[1]), abs(span[0])):
                        fail("ends-at-target", last=float(t[-1]), **info)
                    if np.any(d * (span[1] - t) < -64 * eps * max(1.0, abs(span[1]))):
                        fail("overshoot", **info)
                    if len(t) != len(y) or not np.all(np.isfinite(t)) or not np.all(np.isfinite(y)) or t.dtype != dtype or y.dtype != dtype:
                        fail("paired-finite-dtype", tdtype=str(t.dtype), ydtype=str(y.dtype), **info)
                    if name in methods_fixed:
                        h = min(abs(dt0), abs(span[1] - span[0]) / 2) if abs(dt0) > abs(span[1] - span[0]) else abs(dt0)
                        steps = np.abs(np.diff(t))
                        if len(steps) > 1 and np.max(np.abs(steps[:-1] - h)) > 64 * eps * max(1.0, abs(span[0]), abs(span[1])):
                            fail("fixed-step-exact", h=h, max_dev=float(np.max(np.abs(steps[:-1] - h))), **info)
                        if np.max(steps) > h * (1 + 64 * eps) + 64 * eps * max(abs(span[0]), abs(span[1])):
                            fail("fixed-step-none-longer", h=h, longest=float(np.max(steps)), **info)
                    if name in methods_impl and not cls.__name__.startswith("Radau"):
                        steps = np.abs(np.diff(t))
                        if np.max(steps) > abs(dt0) * (1 + 1e-9):
                            fail("implicit-fixed-step-longer-than-dt", longest=float(np.max(steps)), **info)
    # several calls, reversal, beyond the pre-allocated buffer
    a = de.OdeSystem(rhs, y0=np.array([1.0, 0.0]), t=(0.0, 10.0), dt=0.25)
    a.method = I.RK4Solver
    for target in (5.0, 2.0, 7.5, 7.5, -1.0):
        cases += 1
        n0 = len(a.t)
        t_before = np.asarray(a.t).copy()
        a.integrate(target)
        t = np.asarray(a.t)
        seg = t[n0 - 1:]
        d = np.sign(target - t_before[-1])
        if not np.array_equal(t[:n0], t_before):
            fail("history-prefix", target=target)
        if len(seg) > 1 and not np.all(d * np.diff(seg) > 0):
            fail("history-monotone", target=target, seg=[float(x) for x in seg[:6]])
        if abs(t[-1] - target) > 1e-12:
            fail("history-ends-at-target", target=target, last=float(t[-1]))
    a = de.OdeSystem(rhs, y0=np.array([1.0, 0.0]), t=(0.0, 3.0), dt=1e-4)
    a.method = I.RK4Solver
    a.integrate()
    cases += 1
    if len(a.t) != 30001 or abs(a.t[-1] - 3.0) > 1e-9 or not np.all(np.diff(np.asarray(a.t)) > 0):
        fail("beyond-preallocated-buffer", n=len(a.t), last=float(a.t[-1]))
    print(json.dumps(dict(cases=cases, failures=failures,
                          bound="%d dtypes x 9 spans (mixed-sign, |t0|>|tf|, backward) x 3 initial dt x 8-11 methods; 5-call history with reversals; 30 000-step run" % len(dtypes))))


if __name__ == "__main__":
    main()
