"""Runs under /venv/bin/python: bounded native family for C20 (counters and callbacks)."""
import json
import sys
import warnings

import numpy as np

warnings.filterwarnings("ignore")


def main():
    req = json.loads(sys.stdin.read())
    import desolver as de
    from monitor import watchdog
    watchdog.install(de)
    from desolver import integrators as I
    failures, cases = {}, 0

    def fail(cl, **info):
        failures.setdefault(cl, [])
        if len(failures[cl]) < 3:
            failures[cl].append(info)

    methods = [I.RK45CKSolver, I.RK4Solver, I.DOPRI45, I.ImplicitMidpoint, I.RadauIIA5, I.SymplecticEulerSolver, I.generate_richardson_integrator(I.RK4Solver, 3)]
    for m in methods:
        for dense in (False, True):
            for userjac in (False, True):
                count = [0]
                jcount = [0]

                def rhs(t, y, **kw):
                    count[0] += 1
                    return np.stack([y[1], -y[0]])
                a = de.OdeSystem(rhs, y0=np.array([1.0, 0.0]), t=(0.0, 1.5), dt=0.2, dense_output=dense, rtol=1e-6, atol=1e-6)
                if userjac:
                    def jac(t, y, **kw):
                        jcount[0] += 1
                        return np.array([[0.0, 1.0], [-1.0, 0.0]])
                    a.equ_rhs.hook_jacobian_call(jac)
                a.method = m
                log = []
                order = []

                def cb1(s):
                    order.append(1)
                    log.append((s.counter, float(s.t[-1]), len(s.t)))

                def cb2(s):
                    order.append(2)
                name = getattr(m, "__name__", str(m))
                cases += 1
                a.integrate(callback=[cb1, cb2])
                if a.nfev != count[0]:
                    fail("nfev-mismatch", method=name, dense=dense, userjac=userjac, nfev=int(a.nfev), actual=count[0])
                if userjac and a.njev != jcount[0]:
                    fail("njev-mismatch", method=name, njev=int(a.njev), actual=jcount[0])
                n = len(a.t)
                if len(log) != n - 1 or order != [1, 2] * (n - 1):
                    fail("callbacks-not-once-per-step-in-order", method=name, steps=n - 1, invocations=len(log))
                if any(c != i + 1 or ln != i + 2 or abs(tt - a.t[i + 1]) > 0 for i, (c, tt, ln) in enumerate(log)):
                    fail("callback-does-not-see-new-state", method=name)
                a.reset()
                if a.nfev != 0:
                    fail("nfev-not-reset", method=name)
                count[0] = 0
                a.integrate()
                if a.nfev != count[0]:
                    fail("nfev-mismatch-after-reset", method=name, nfev=int(a.nfev), actual=count[0])
        # dt assigned by a callback is used for the next step (fixed-step method)
        if m in (I.RK4Solver, I.SymplecticEulerSolver):
            a = de.OdeSystem(lambda t, y, **kw: np.stack([y[1], -y[0]]), y0=np.array([1.0, 0.0]), t=(0.0, 2.0), dt=0.1)
            a.method = m
            sizes = [0.05, 0.2, 0.15, 0.1, 0.3]

            def setdt(s, sizes=sizes):
                k = s.counter
                if k <= len(sizes):
                    s.dt = sizes[k - 1]
            a.integrate(callback=setdt)
            cases += 1
            steps = np.diff(np.asarray(a.t))
            if np.max(np.abs(steps[1:len(sizes) + 1] - np.array(sizes))) > 1e-12:
                fail("callback-dt-not-used-for-next-step", method=m.__name__, steps=[float(x) for x in steps[:7]])
    print(json.dumps(dict(cases=cases, failures=failures, bound="7 method families x dense on/off x user/finite-difference Jacobian, two ordered callbacks, reset; dt hand-over for 2 fixed-step methods")))


if __name__ == "__main__":
    main()
