"""Runs under /venv/bin/python against /repo's working tree: bounded native family for the Brent solvers (C14).

mode=search : enumerated + seeded family (functions, scales, brackets in either order, tolerances, dtypes);
              evaluates the property's clauses natively; returns failures per clause.  Bounded stand-in and
              witness search for refuted obligations; never counted as proved.
mode=witness: one recorded input (known finding) -> does the clause still fail?
"""
import json
import math
import random
import sys
import warnings

import numpy as np

warnings.filterwarnings("ignore")


def make_fn(kind, r, s, dtype):
    if kind == "lin":
        return lambda x: s * (x - r)
    if kind == "cub":
        return lambda x: s * (x - r) ** 3
    if kind == "step":
        return lambda x: s * (np.sign(x - r) + (x == r) * 1.0)     # jump discontinuity, +s at r
    if kind == "atan":
        return lambda x: s * np.arctan(5 * (x - r))
    if kind == "quadpos":
        return lambda x: s * ((x - r) ** 2 + 1.0)                  # no root
    if kind == "expm":
        return lambda x: s * (np.exp(x - r) - 1.0)
    raise ValueError(kind)


def sign_change_within(f, x, tol, lo, hi):
    """|f(x)| == 0, or f changes sign on [x - tol, x + tol] (clipped to the bracket)."""
    a, b = max(min(lo, hi), x - tol), min(max(lo, hi), x + tol)
    fa, fb = f(a), f(b)
    return f(x) == 0 or fa == 0 or fb == 0 or (fa < 0) != (fb < 0)


def check_case(U, kind, r, s, lo, hi, tol, dtype, failures, counts, req_all_p7=True):
    f = make_fn(kind, r, s, dtype)
    lo_d, hi_d = np.asarray(lo, dtype=dtype), np.asarray(hi, dtype=dtype)
    eps = float(np.finfo(dtype).eps) * 4
    tol_eff = max(float(np.asarray(tol, dtype=dtype)), eps) if tol is not None else eps
    tol_arg = None if tol is None else np.asarray(tol, dtype=dtype)
    try:
        root, ok = U.brentsroot(f, [lo_d, hi_d], tol_arg)
        rv, okv = U.brentsrootvec([f], [lo_d, hi_d], tol_arg)
    except Exception as e:       # the solvers must not raise on these inputs
        failures.setdefault("raises", []).append(dict(kind=kind, r=r, s=s, lo=lo, hi=hi, tol=tol, dtype=str(dtype), exc=repr(e)))
        return
    root_f, ok, rv_f, okv = float(root), bool(ok), float(rv[0]), bool(okv[0])
    flo, fhi = float(f(lo_d)), float(f(hi_d))
    sc = flo * fhi < 0
    case = dict(kind=kind, r=r, s=s, lo=lo, hi=hi, tol=tol, dtype=np.dtype(dtype).name, scalar=[root_f, ok], vector=[rv_f, okv])
    counts["cases"] += 1
    key = (kind, round(math.log10(abs(s)), 0), lo < hi, tol, np.dtype(dtype).name)
    counts["distinct"].add(key)

    def fail(clause):
        if len(failures.setdefault(clause, [])) < 4:
            failures[clause].append(case)
        counts["fail_" + clause] = counts.get("fail_" + clause, 0) + 1

    span = abs(hi - lo)
    ulp_slack = 4 * float(np.finfo(dtype).eps) * max(abs(lo), abs(hi), 1.0)
    # P1 inside the bracket
    if not (min(lo, hi) <= root_f <= max(lo, hi)):
        # the documented early exit (inf, False) for a bracket without sign change is a recorded finding of its own
        fail("P1-scalar-early-exit" if (flo * fhi > 0 and math.isinf(root_f) and not ok) else "P1-scalar")
    if not (min(lo, hi) <= rv_f <= max(lo, hi)):
        fail("P1-vector")
    # P4 success => zero within tol or sign change within tol
    for nm, x, k in (("scalar", root_f, ok), ("vector", rv_f, okv)):
        if k and not (abs(float(f(np.asarray(x, dtype=dtype)))) <= tol_eff or sign_change_within(f, np.asarray(x, dtype=dtype), max(tol_eff, ulp_slack), lo, hi)):
            fail("P4-" + nm)
    # P5/P2 sign change => success and located (only where the 64-iteration cap cannot bind: span/tol < 2^40)
    reachable = True          # the stopping test |b - a| <= tol * max(1, |a|, |b|) can be met by adjacent floats of any magnitude (F9b repaired)
    if sc and reachable and span / tol_eff < 2.0 ** 40:
        for nm, x, k in (("scalar", root_f, ok), ("vector", rv_f, okv)):
            if not k:
                fail("P5-" + nm)
            if not sign_change_within(f, np.asarray(x, dtype=dtype), 2 * max(tol_eff, ulp_slack), lo, hi):
                fail("P2-" + nm)
    # P6 no sign change, no end-point root => no success (unless |f| <= tol there)
    if flo * fhi > 0:
        for nm, x, k in (("scalar", root_f, ok), ("vector", rv_f, okv)):
            if k and math.isfinite(x) and abs(float(f(np.asarray(x, dtype=dtype)))) > tol_eff:
                fail("P6-" + nm)
    # P7 agreement (under a strict sign change)
    if sc:
        # roots agree to tolerance everywhere; flags are compared where the stopping test is reachable in this dtype
        if abs(root_f - rv_f) > 2 * max(tol_eff, ulp_slack) or (reachable and ok != okv):
            fail("P7-agree")


def main():
    req = json.loads(sys.stdin.read())
    from desolver.utilities import optimizer as U
    mode = req["mode"]
    if mode == "witness":
        w = req["witness"]
        failures, counts = {}, dict(cases=0, distinct=set())
        check_case(U, w["kind"], w["r"], w["s"], w["lo"], w["hi"], w.get("tol"), getattr(np, w.get("dtype", "float64")), failures, counts)
        print(json.dumps(dict(failed_clauses=sorted(failures), detail={k: v[:1] for k, v in failures.items()})))
        return
    if mode == "search":
        rng = random.Random(req.get("seed", 0))
        n_rand = req.get("n_random", 50)
        failures, counts = {}, dict(cases=0, distinct=set())
        dtypes = [np.float64, np.float32] + ([np.longdouble] if req.get("longdouble") else [])
        scales = [1e-6, 1e-3, 1.0, 10.0, 1e3, 1e6, 1e9]
        for dtype in dtypes:
            for kind in ("lin", "cub", "step", "atan", "expm", "quadpos"):
                for s in scales:
                    for (lo, hi, r) in ((0.0, 1.0, 0.3), (1.0, 0.0, 0.3), (-2.0, 5.0, 0.0), (10.0, 10.25, 10.1), (0.0, 1.0, 0.0), (0.0, 1.0, 1.0)):
                        for tol in (None, 1e-3, 1e-9):
                            if dtype == np.float32 and s >= 1e9 and kind == "cub":
                                continue     # float32 overflow inside the interpolation step (outside A1); reported separately
                            check_case(U, kind, r, s, lo, hi, tol, dtype, failures, counts)
        for _ in range(n_rand):
            kind = rng.choice(["lin", "cub", "atan", "expm", "step"])
            s = 10 ** rng.uniform(-6, 9) * rng.choice([-1, 1])
            lo = rng.uniform(-10, 10)
            hi = lo + rng.choice([-1, 1]) * 10 ** rng.uniform(-3, 1)
            r = lo + (hi - lo) * rng.uniform(-0.2, 1.2)
            tol = rng.choice([None, 1e-3, 1e-6, 1e-12])
            check_case(U, kind, r, s, lo, hi, tol, np.float64, failures, counts)
        # the caller's bracket: array-valued brackets (callable and list front ends) are the caller's after the call as they were before it, so
        # the same arrays serve the next call -- a second function solved over the *same* bracket arrays gets the bracket that was asked for
        for dtype in dtypes:
            for front in ("callable", "list"):
                lo_a, hi_a = np.array([0.0, 0.0, 3.0], dtype=dtype), np.array([1.0, 2.0, -1.0], dtype=dtype)
                lo0, hi0 = lo_a.copy(), hi_a.copy()
                r1, r2 = np.array([0.5, 1.0, 0.25], dtype=dtype), np.array([0.125, 1.75, 2.5], dtype=dtype)
                counts["cases"] += 1
                try:
                    for rr in (r1, r2):
                        f_ = (lambda x, rr=rr: x - rr) if front == "callable" else [(lambda x, c=c: x - c) for c in rr]
                        xr, okr = U.brentsrootvec(f_, [lo_a, hi_a], np.asarray(1e-6, dtype=dtype))
                        if not (np.all(okr) and np.all(np.abs(np.asarray(xr, dtype=np.float64) - rr.astype(np.float64)) <= 1e-5)):
                            if len(failures.setdefault("same-bracket-arrays-reused-for-the-next-call", [])) < 4:
                                failures["same-bracket-arrays-reused-for-the-next-call"].append(dict(front=front, dtype=str(dtype), roots=[float(v) for v in rr], got=[float(v) for v in xr], success=[bool(v) for v in okr]))
                except Exception as e:
                    failures.setdefault("raises", []).append(dict(front=front, dtype=str(dtype), exc=repr(e), case="bracket reuse"))
                if not (np.array_equal(lo_a, lo0) and np.array_equal(hi_a, hi0)):
                    if len(failures.setdefault("caller-bracket-arrays-modified", [])) < 4:
                        failures["caller-bracket-arrays-modified"].append(dict(front=front, dtype=str(dtype), lower_after=[float(v) for v in lo_a], upper_after=[float(v) for v in hi_a]))
        out = dict(cases=counts["cases"], distinct=len(counts["distinct"]), failures=failures,
                   fail_counts={k[5:]: v for k, v in counts.items() if k.startswith("fail_")})
        print(json.dumps(out))
        return
    raise SystemExit("unknown mode")


if __name__ == "__main__":
    main()
