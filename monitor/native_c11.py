"""Runs under /venv/bin/python: bounded native clause of C11 -- one accepted step of every implicit method on the linear
test equation agrees with the scheme's stability function and does not increase |y|."""
import json
import sys
import warnings
from fractions import Fraction

import numpy as np

warnings.filterwarnings("ignore")


def poly(coeffs, z):
    r = 0.0
    for c in reversed(coeffs):
        r = r * z + c
    return r


def main():
    req = json.loads(sys.stdin.read())
    from desolver import integrators as I
    from desolver.differential_system import DiffRHS
    from desolver import exception_types as E
    zs_real = [-1e-3, -0.5, -3.0, -50.0, -1e3, -1e6] + ([-1e8] if req["tier"] == "thorough" else [])
    zs_cplx = [complex(-0.3, 2.5), complex(-2.0, 1.0), complex(-0.01, 0.7)]
    failures, cases, rejected = [], 0, 0
    for name, pd in req["methods"].items():
        cls = getattr(I, name)
        N = [float(Fraction(c)) for c in pd["N"]]
        D = [float(Fraction(c)) for c in pd["D"]]
        for z in zs_real + zs_cplx:
            for h in (0.25, -0.25):
                lam = z / h
                if isinstance(lam, complex):
                    Amat = np.array([[lam.real, -lam.imag], [lam.imag, lam.real]])
                    y0 = np.array([1.0, 0.5])
                else:
                    Amat = np.array([[lam]])
                    y0 = np.array([1.0])
                f = DiffRHS(lambda t, y, A=Amat: A @ y)
                f.hook_jacobian_call(lambda t, y, A=Amat: A)
                integ = cls(y0.shape, dtype=np.float64, rtol=1e-10, atol=1e-10)
                try:
                    _, (dt, dy) = integ(f, np.float64(0.0), y0, {}, np.float64(h))
                except (E.FailedToMeetTolerances, Exception):
                    rejected += 1
                    continue
                cases += 1
                zz = lam * float(dt)            # the step actually accepted
                Rz = poly(N, zz) / poly(D, zz)
                y1 = y0 + dy
                if isinstance(lam, complex):
                    y1c = complex(y1[0], y1[1])
                    want = Rz * complex(y0[0], y0[1])
                    err = abs(y1c - want)
                    growth = abs(y1c) / abs(complex(y0[0], y0[1]))
                else:
                    want = Rz * y0[0]
                    err = abs(y1[0] - want)
                    growth = abs(y1[0]) / abs(y0[0])
                tol = 1e-6 * (1 + abs(want))
                if err > tol or growth > 1 + 1e-8:
                    failures.append(dict(method=name, z=str(zz), h=float(dt), y1=[float(x) for x in y1], expected=str(want), err=float(err), growth=float(growth)))
    print(json.dumps(dict(cases=cases, failures=failures, rejected=rejected,
                          bound="16 implicit classes x %d real and %d complex z x h = +-0.25 (float64, user Jacobian attached)" % (len(zs_real), len(zs_cplx)))))


if __name__ == "__main__":
    main()
