"""Runs under /venv/bin/python: bounded native family for C18 (solve_ivp facade)."""
import json
import sys
import warnings

import numpy as np

warnings.filterwarnings("ignore")


def main():
    req = json.loads(sys.stdin.read())
    import desolver as de
    from monitor import watchdog
    watchdog.install(de)
    from desolver import integrators as I
    import scipy.integrate
    failures, cases = {}, 0

    def fail(cl, **info):
        failures.setdefault(cl, [])
        if len(failures[cl]) < 3:
            failures[cl].append(info)

    def osc(t, y, k=1.0, c=0.0):
        return np.stack([y[1], -k * y[0] - c * y[1]])

    for method in ("RK45", I.RK45CKSolver, "RK87", I.RadauIIA5):
        mname = method if isinstance(method, str) else method.__name__
        for shape in ((2,), (2, 2), (2, 1, 3)):
            y0 = np.zeros(shape)
            y0[0] = 1.0

            def f(t, y):
                out = np.zeros_like(y)
                out[0], out[1] = y[1], -y[0]
                return out
            for span in ((0.0, 2.0), (2.0, 0.0)):
                cases += 1
                try:
                    r = de.solve_ivp(f, span, y0, method=method, rtol=1e-8, atol=1e-8)
                except Exception as e:
                    fail("raises", method=mname, shape=shape, span=span, exc=repr(e)[:80], cause=repr(e.__cause__)[:80])
                    continue
                nt = len(r.t)
                if r.t.shape != (nt,) or r.y.shape != shape + (nt,):
                    fail("shapes", method=mname, shape=shape, t_shape=list(r.t.shape), y_shape=list(r.y.shape))
                    continue
                if not np.array_equal(r.y[..., 0], y0) or r.t[0] != span[0] or abs(r.t[-1] - span[1]) > 1e-12:
                    fail("starts-at-initial-condition-ends-at-tf", method=mname, shape=shape, span=span)
                sys_ = r.ode_system
                if not all(np.array_equal(r.y[..., i], sys_.y[i]) for i in range(nt)) or not np.array_equal(r.t, sys_.t):
                    fail("columns-do-not-pair-with-times", method=mname, shape=shape)
                if r.nfev != sys_.nfev or r.njev != sys_.njev or r.success is not sys_.success:
                    fail("result-fields", method=mname)
                # parity with the object API
                a = de.OdeSystem(f, y0=y0, t=span, dt=1.0, rtol=1e-8, atol=1e-8)
                a.method = method
                a.integrate()
                if not np.array_equal(np.asarray(a.t), r.t):
                    fail("object-api-parity", method=mname, shape=shape, span=span)
        # t_eval subsets
        y0 = np.array([1.0, 0.0])
        for span in ((0.0, 3.0), (3.0, 0.0)):
            lo, hi = min(span), max(span)
            for te in ([0.5, 1.0, 2.5], [2.5, 0.5, 1.0], [lo, 1.0, hi], [1.0, 1.0, 2.0], [hi], [lo]):
                cases += 1
                try:
                    r = de.solve_ivp(lambda t, y: osc(t, y), span, y0, method=method, t_eval=te, rtol=1e-9, atol=1e-9)
                except Exception as e:
                    fail("t_eval-raises", method=mname, span=span, t_eval=te, exc=repr(e)[:80])
                    continue
                want = sorted(te, reverse=span[1] < span[0])
                if r.t.shape != (len(te),) or r.y.shape != (2, len(te)) or np.max(np.abs(r.t - np.array(want))) > 1e-12:
                    fail("t_eval-times", method=mname, span=span, t_eval=te, got=[float(x) for x in r.t])
                    continue
                exact = np.stack([np.cos(r.t - span[0]), -np.sin(r.t - span[0])])
                if np.max(np.abs(r.y - exact)) > 1e-6:
                    fail("t_eval-solution-to-tolerance", method=mname, span=span, t_eval=te, err=float(np.max(np.abs(r.y - exact))))
        # args binding, max_step
        cases += 1
        r = de.solve_ivp(osc, (0.0, 2.0), y0, method=method, args=(4.0, 0.1), rtol=1e-8, atol=1e-8)
        s = scipy.integrate.solve_ivp(osc, (0.0, 2.0), y0, method="DOP853", args=(4.0, 0.1), rtol=1e-10, atol=1e-10)
        if np.max(np.abs(r.y[:, -1] - s.y[:, -1])) > 1e-5:
            fail("args-or-scipy-parity", method=mname, err=float(np.max(np.abs(r.y[:, -1] - s.y[:, -1]))))
        for span in ((0.0, 2.0), (2.0, 0.0)):
            for ms in (0.05, 0.3):
                for fs in (None, 1.0):
                    cases += 1
                    kw = dict(max_step=ms)
                    if fs is not None:
                        kw["first_step"] = fs
                    try:
                        r = de.solve_ivp(lambda t, y: osc(t, y), span, y0, method=method, rtol=1e-3, atol=1e-3, **kw)
                    except Exception as e:
                        fail("max_step-raises", method=mname, span=span, max_step=ms, exc=repr(e.__cause__)[:80])
                        continue
                    steps = np.abs(np.diff(r.t))
                    if len(steps) == 0 or np.max(steps) > ms * (1 + 1e-12) or abs(r.t[-1] - span[1]) > 1e-12:
                        fail("max_step-exceeded-or-run-incomplete", method=mname, span=span, max_step=ms, first_step=fs, longest=float(np.max(steps)) if len(steps) else None, last=float(r.t[-1]))
    # t_eval together with a terminal event: the requested times that lie before the event must come back as they are; what comes back for
    # the requested times *after* the stop is known finding F33 (the loop keeps calling integrate(), the event time is returned in their place)
    def osc(t, y):
        return np.array([y[1], -y[0]])

    def hit(t, y):
        return y[0]
    hit.is_terminal = True
    for sgn in (1.0, -1.0):
        cases += 1
        te = sgn * np.linspace(0.0, 5.0, 11)
        try:
            r = de.solve_ivp(osc, (0.0, sgn * 5.0), np.array([1.0, 0.0]), t_eval=te, events=[hit], rtol=1e-9, atol=1e-9)
        except Exception as e:
            fail("t_eval-with-terminal-event-raises", direction=sgn, exc=repr(e)[:120])
            continue
        t_ev = np.pi / 2
        tr = np.asarray(r.t, dtype=float)
        before = [x for x in te if abs(x) < t_ev - 1e-6]
        if len(tr) < len(before) or np.max(np.abs(tr[:len(before)] - np.array(before))) > 1e-9:
            fail("t_eval-before-a-terminal-event-not-returned-as-requested", direction=sgn, got=[float(x) for x in tr[:6]])
        elif len(tr) != len(before) and (len(tr) != len(te) or np.max(np.abs(tr - te)) > 1e-9):
            fail("t_eval-after-a-terminal-event-returns-event-times-in-place-of-the-requested-ones", direction=sgn, got=[float(x) for x in tr[len(before):len(before) + 4]], requested=[float(x) for x in te[len(before):len(before) + 4]])
    print(json.dumps(dict(cases=cases, failures=failures, bound="4 methods (by name and by class) x 3 state shapes x 2 directions; 6 t_eval subsets x 2 directions; args + scipy parity; max_step x first_step x 2 directions")))


if __name__ == "__main__":
    main()
