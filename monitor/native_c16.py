"""Runs under /venv/bin/python: stencil dump and bounded native family for C16."""
import json
import sys
import warnings

import numpy as np

warnings.filterwarnings("ignore")


def main():
    req = json.loads(sys.stdin.read())
    from desolver.utilities import utilities as U
    from desolver.differential_system import DiffRHS
    if req.get("mode") == "stencils":
        out = []
        for bo in (2, 3, 5):
            w = U.JacobianWrapper(lambda y: y, base_order=bo)
            out.append(dict(base_order=bo, nodes=[float(x).hex() for x in np.asarray(w.nodal_points)], weights=[float(x).hex() for x in np.asarray(w.weights)]))
        print(json.dumps(dict(stencils=out)))
        return
    rng = np.random.default_rng(req.get("seed", 0))
    failures, cases = {}, 0

    def fail(cl, **info):
        failures.setdefault(cl, [])
        if len(failures[cl]) < 3:
            failures[cl].append(info)

    reps = 3 if req["tier"] == "quick" else 20
    for bo in (2, 3, 5):
        for shape_in, shape_out in (((3,), (2,)), ((2, 2), (3,)), ((), ()), ((2,), (2, 2))):
            n = int(np.prod(shape_in)) if shape_in else 1
            m = int(np.prod(shape_out)) if shape_out else 1
            for _ in range(reps):
                W = rng.normal(size=(m, n))
                b = rng.normal(size=m)
                scale = rng.choice([1e-3, 1.0, 30.0])
                y0 = rng.normal(size=shape_in) * scale if shape_in else np.asarray(rng.normal() * scale)

                def f(y):
                    z = W @ np.reshape(y, (-1,)) + b
                    return np.reshape(np.tanh(z) + 0.5 * z, shape_out)

                def J(y):
                    z = W @ np.reshape(y, (-1,)) + b
                    return np.reshape(((1 - np.tanh(z) ** 2) + 0.5)[:, None] * W, shape_out + shape_in)
                jw = U.JacobianWrapper(f, base_order=bo, flat=False)
                got = np.asarray(jw(y0))
                cases += 1
                want = J(y0)
                if got.shape != want.shape:
                    fail("layout", base_order=bo, shape_in=shape_in, shape_out=shape_out, got=list(got.shape), want=list(want.shape))
                    continue
                err = float(np.max(np.abs(got - want)) / (1 + np.max(np.abs(want))))
                if err > 1e-6:
                    fail("accuracy", base_order=bo, shape_in=shape_in, shape_out=shape_out, err=err)
                # linear map: to rounding
                lin = lambda y: np.reshape(W @ np.reshape(y, (-1,)) + b, shape_out)
                gl = np.asarray(U.JacobianWrapper(lin, base_order=bo, flat=False)(y0))
                errl = float(np.max(np.abs(gl - np.reshape(W, shape_out + shape_in))) / (1 + np.max(np.abs(W))))
                if errl > 1e-9:
                    fail("linear-to-rounding", base_order=bo, err=errl)
    # maps mixing linear entries with slowly converging nonlinear ones of one sign (adaptive extrapolation must not stop early)
    for bo in (2, 3, 5):
        for sgn in (1.0, -1.0):
            for y0 in (np.array([0.3, 0.7]), np.array([0.7, 0.3]), np.array([-0.2, 1.1])):
                fm = lambda y, sgn=sgn: np.array([2 * y[0] - 3 * y[1], sgn * np.exp(2 * y[1])])
                want = np.array([[2.0, -3.0], [0.0, sgn * 2 * np.exp(2 * y0[1])]])
                got = np.asarray(U.JacobianWrapper(fm, base_order=bo, flat=False)(y0))
                cases += 1
                err = float(np.max(np.abs(got - want)) / (1 + np.max(np.abs(want))))
                if err > 1e-9:
                    fail("accuracy-mixed-entries", base_order=bo, sign=sgn, y0=list(map(float, y0)), err=err)
    # dispatch sequences at varying t
    def rhs(t, y):
        return np.array([-(1 + t) * y[0] + y[1], -t * t * y[1]])
    Jt = lambda t, y: np.array([[-(1 + t), 1.0], [0.0, -t * t]])
    for seq in ([0.0, 0.5, 1.0], [1.0, 0.25, -0.5], [-1.0, -1.0, 2.0, 0.0]):
        d = DiffRHS(rhs)
        y = np.array([0.3, -0.7])
        for t in seq:
            cases += 1
            got = np.asarray(d.jac(t, y))
            if np.max(np.abs(got - Jt(t, y))) > 1e-6:
                fail("fd-at-requested-time", seq=seq, t=t)
        d.hook_jacobian_call(lambda t, y: 7 * Jt(t, y))
        cases += 1
        if np.max(np.abs(np.asarray(d.jac(0.3, y)) - 7 * Jt(0.3, y))) > 0:
            fail("hook-honoured", seq=seq)
        d.unhook_jacobian_call()
        cases += 1
        try:
            got = np.asarray(d.jac(0.7, y))
            if np.max(np.abs(got - Jt(0.7, y))) > 1e-6:
                fail("after-unhook-wrong-value", seq=seq)
        except Exception as e:
            fail("after-unhook-raises", seq=seq, exc=repr(e))
    print(json.dumps(dict(cases=cases, failures=failures, bound="3 base orders x 4 input/output shapes x %d random smooth maps (scales 1e-3, 1, 30) + 3 jac-call sequences with hook/unhook" % reps)))


if __name__ == "__main__":
    main()
