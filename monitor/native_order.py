"""Runs under /venv/bin/python against /repo: native one-step order measurement (replay of refuted C01 obligations
and bounded evidence).  Local error of one step of size h from exact data on a smooth non-autonomous nonlinear
problem, measured at h and h/2 in longdouble: slope ~ p + 1.

request: {"cases": [{"method": <class name>, "richardson": 0|2..5, "sign": +1|-1}], "h": 0.2}
"""
import json
import math
import sys
import warnings

import numpy as np

warnings.filterwarnings("ignore")
LD = np.longdouble


def bernoulli_rhs(t, y, **kw):
    # y' = -y + t*y^2 (component 0), coupled with a rotation so that the state is a vector: (y, u, v), u' = v + t, v' = -u*y
    return np.stack([-y[0] + t * y[0] ** 2, y[2] + t, -y[1] * y[0]])


def pendulum_rhs(t, y, **kw):
    # separable Hamiltonian H = p^2/2 - cos(q) + 0.1*q^3/3, time independent; state (q, p)
    return np.stack([y[1], -np.sin(y[0]) - 0.1 * y[0] ** 2])


def reference(rhs, t0, y0, h, I):
    """Reference solution at t0+h by RK1412 with 256 substeps in longdouble."""
    cls = I.RK1412Solver
    integ = cls(y0.shape, dtype=LD)
    integ.is_adaptive = False if hasattr(type(integ), "is_adaptive") else None
    n = 256
    y = y0.copy()
    t = LD(t0)
    from desolver.differential_system import DiffRHS
    f = DiffRHS(rhs)
    for _ in range(n):
        integ2 = cls(y0.shape, dtype=LD)
        integ2.is_adaptive = False
        _, (dt, dy) = integ2(f, t, y, {}, LD(h) / n)
        y = y + dy
        t = t + dt
    return y


def one_step(cls, rich, rhs, t0, y0, h, I):
    from desolver.differential_system import DiffRHS
    if rich:
        cls = I.generate_richardson_integrator(cls, richardson_iter=rich)
        integ = cls(y0.shape, dtype=LD, rtol=LD(1e-30), atol=LD(1e-30))
        _, (dt_z, dy), _diff = integ.adaptive_richardson(DiffRHS(rhs), LD(t0), y0, {}, LD(h))
        return y0 + dy, float(dt_z)
    integ = cls(y0.shape, dtype=LD, rtol=LD(1e-12), atol=LD(1e-12))
    try:
        integ.is_adaptive = False
    except Exception:
        pass
    dt, dy = integ.step(DiffRHS(rhs), LD(t0), y0, {}, LD(h))[1] if not hasattr(integ, "solver_dict") or True else (None, None)
    return y0 + dy, float(dt)


def measure(name, rich, sign, h, I):
    cls = getattr(I, name)
    splitting = issubclass(cls, I.ExplicitSymplecticIntegrator)
    if splitting:
        rhs, y0, t0 = pendulum_rhs, np.array([0.7, 0.3], dtype=LD), 0.3
    else:
        rhs, y0, t0 = bernoulli_rhs, np.array([0.5, 0.4, -0.3], dtype=LD), 0.3
    errs = []
    for hh in (h, h / 2):
        hs = sign * hh
        ref = reference(rhs, t0, y0, hs, I)
        y1, dt = one_step(cls, rich, rhs, t0, y0, hs, I)
        if abs(dt - hs) > 1e-12 * abs(hs):
            return dict(method=name, richardson=rich, sign=sign, error="step shortened to %r" % dt)
        errs.append(float(np.max(np.abs(y1 - ref))))
    slope = math.log(errs[0] / errs[1], 2) if errs[1] > 0 and errs[0] > 0 else float("inf")
    return dict(method=name, richardson=rich, sign=sign, h=h, local_errors=errs, local_slope=slope, observed_order=slope - 1,
                declared_order=float(cls.__order__))


def main():
    req = json.loads(sys.stdin.read())
    from desolver import integrators as I
    out = []
    for c in req["cases"]:
        try:
            out.append(measure(c["method"], c.get("richardson", 0), c.get("sign", 1), req.get("h", 0.2), I))
        except Exception as e:
            out.append(dict(method=c["method"], richardson=c.get("richardson", 0), error=repr(e)))
    print(json.dumps(dict(results=out)))


if __name__ == "__main__":
    main()
