"""Per-call watchdog for the bounded native families: a call of OdeSystem.integrate that does not return within LIMIT seconds is
interrupted (SIGALRM) and reported by the family as a failure of that case ("did not return"), instead of hanging the whole check until
the driver's timeout kills it and loses the verdicts already reached."""
import signal

LIMIT = 90


class DidNotReturn(Exception):
    pass


def install(de, limit=LIMIT):
    cls = de.OdeSystem
    if getattr(cls.integrate, "_watchdog", False):
        return
    real = cls.integrate
    depth = [0]

    def on_alarm(signum, frame):
        raise DidNotReturn("OdeSystem.integrate did not return within %d s (watchdog of the native family)" % limit)

    def integrate(self, *a, **k):
        outer = depth[0] == 0
        depth[0] += 1
        if outer:
            signal.signal(signal.SIGALRM, on_alarm)
            signal.alarm(limit)
        try:
            return real(self, *a, **k)
        finally:
            depth[0] -= 1
            if outer:
                signal.alarm(0)
    integrate._watchdog = True
    integrate.__doc__ = real.__doc__
    cls.integrate = integrate
