"""Runs under /venv/bin/python: bounded native family for C15 -- nonlinear solvers only claim success at an actual solution.
Smooth systems R^n -> R^n (n = 1..12, several array shapes), with and without a user Jacobian, nonlinear_roots on float64 (MINPACK
path) and longdouble (built-in dogleg path), hybrj and newtontrustregion directly, good and bad starts, singular Jacobians, a system
without a root.  Witness search only: never counted as proved."""
import json
import sys
import warnings

import numpy as np

warnings.filterwarnings("ignore")


def systems(n, dtype):
    c = np.linspace(1.0, 2.0, n).astype(dtype)
    out = []
    out.append(("quadratic", lambda x: x ** 2 - c.reshape(x.shape), lambda x: np.diag(2 * x.reshape(-1)), np.sqrt(c), True))
    out.append(("atan-no-root", lambda x: np.arctan(x) - 2, lambda x: np.diag(1 / (1 + x.reshape(-1) ** 2)), None, False))
    out.append(("double-root", lambda x: (x - 1) ** 2, lambda x: np.diag(2 * (x.reshape(-1) - 1)), np.ones(n, dtype=dtype), True))
    out.append(("exp", lambda x: np.exp(x) - c.reshape(x.shape), lambda x: np.diag(np.exp(x.reshape(-1))), np.log(c), True))
    # arctan(v) = 0 (root at the origin): Newton-type steps overshoot from |v| > 1.39 and the iterates run away to where the Jacobian vanishes
    out.append(("atan-root", lambda x: np.arctan(x), lambda x: np.diag(1 / (1 + x.reshape(-1) ** 2)), np.zeros(n, dtype=dtype), True))
    # steep systems that do have a root, started where the residual is astronomically large (step-size rule under stress)
    out.append(("steep-exp", lambda x: np.exp(40 * x) - 1, lambda x: np.diag(40 * np.exp(40 * x.reshape(-1))), np.zeros(n, dtype=dtype), True))
    out.append(("septic", lambda x: x ** 7 - 1, lambda x: np.diag(7 * x.reshape(-1) ** 6), np.ones(n, dtype=dtype), True))
    if n >= 2:
        def coupled(x):
            v = x.reshape(-1)
            r = np.empty_like(v)
            r[0] = np.sum(v ** 2) - n
            r[1:] = v[1:] - v[:-1]
            return r.reshape(x.shape)

        def jcoupled(x):
            v = x.reshape(-1)
            J = np.zeros((n, n), dtype=v.dtype)
            J[0, :] = 2 * v
            for i in range(1, n):
                J[i, i], J[i, i - 1] = 1, -1
            return J
        out.append(("coupled", coupled, jcoupled, np.ones(n, dtype=dtype), True))
    return out


def main():
    req = json.loads(sys.stdin.read())
    thorough = req.get("tier") == "thorough"
    from desolver.utilities import optimizer as O
    failures, cases = {}, [0]

    def fail(cl, **info):
        failures.setdefault(cl, [])
        if len(failures[cl]) < 3:
            failures[cl].append({k: (v if isinstance(v, (int, float, str, bool, list, tuple, type(None))) else repr(v)) for k, v in info.items()})

    dims = (1, 2, 3, 6, 12) if thorough else (1, 2, 5)
    for dtype in (np.float64, np.longdouble):
        tol0 = 32 * np.finfo(dtype).eps * 1e3
        for n in dims:
            shapes = [(n,)] + ([(n, 1)] if n > 1 else []) + ([(2, n // 2)] if n % 2 == 0 and n > 2 else [])
            for shape in shapes:
                for name, F, J, root, has_root in systems(n, dtype):
                    starts = [("good", (root if root is not None else np.zeros(n)) + 0.1), ("bad", np.full(n, 25.0)), ("at-singular", np.ones(n) if name == "double-root" else np.full(n, 1e-3))]
                    if name == "atan-root":
                        starts = [("good", np.full(n, 0.5)), ("bad", np.array([3.0, -4.0] * n)[:n])]
                    if name == "steep-exp":
                        starts = [("good", np.full(n, 0.01)), ("bad", np.linspace(0.5, 1.0, n))]
                    if name == "septic":
                        starts = [("good", np.full(n, 1.1)), ("bad", np.linspace(30.0, 100.0, n))]
                    for sname, x0 in starts:
                        x0 = np.asarray(x0, dtype=dtype).reshape(shape)
                        for with_jac in (True, False):
                          for tol in ((tol0, dtype(1e-10)) if name.startswith("atan") else (tol0,)):
                            for solver in ("nonlinear_roots", "hybrj", "newtontrustregion"):
                                if solver == "hybrj" and not with_jac and name not in ("steep-exp", "septic"):
                                    continue
                                info = dict(system=name, n=n, shape=list(shape), dtype=np.dtype(dtype).name, start=sname, jac=with_jac, solver=solver, tol_requested=float(tol))
                                cases[0] += 1
                                try:
                                    if solver == "nonlinear_roots":
                                        x, res = O.nonlinear_roots(F, x0, jac=J if with_jac else None, tol=tol)
                                    elif solver == "hybrj":
                                        x, res = O.hybrj(F, x0, J if with_jac else None, tol=tol)
                                    else:
                                        x, res = O.newtontrustregion(F, x0, jac=J if with_jac else None, tol=tol)
                                except Exception as e:
                                    # an exception is a reported failure, not a false success
                                    continue
                                success = bool(res[0])
                                x = np.asarray(x)
                                if x.shape != x0.shape:
                                    fail("result-shape-differs-from-the-initial-guess", got=list(x.shape), **info)
                                    continue
                                resid = float(np.linalg.norm(np.asarray(F(x), dtype=np.longdouble)))
                                if success and not (resid <= 1e3 * tol * (n + 1)):
                                    runaway = float(np.linalg.norm(np.asarray(x, dtype=np.longdouble))) > 1e6
                                    fail(("success-with-large-residual-after-the-iterates-ran-away[%s]" if runaway else "success-with-large-residual[%s]") % solver,
                                         residual=resid, tol=float(tol), x_norm=float(np.linalg.norm(np.asarray(x, dtype=np.longdouble))), **info)
                                if solver == "nonlinear_roots":
                                    prec = float(np.asarray(res[-1], dtype=np.longdouble).reshape(-1)[0]) if np.ndim(res[-1]) else float(res[-1])
                                    if success and abs(prec - resid) > 1e-6 * max(1.0, resid) + 10 * float(tol):
                                        fail("reported-residual-is-not-the-residual-at-the-returned-point", reported=prec, residual=resid, **info)
                                if not has_root and success:
                                    fail("success-on-a-system-without-a-root[%s]" % solver, residual=resid, **info)
    # starts on a critical point of one equation (singular Jacobian at the start) and on stationary points of ||F||^2 that are not roots:
    # no solver may present them as solutions (an exception is a reported failure)
    def mixed(x):
        x = np.asarray(x)
        f = x ** 2 - 2.0
        f.reshape(-1)[0] = x.reshape(-1)[0] ** 2 + 1.0          # first equation has no real root, zero derivative at 0
        return f

    def mixed_jac(x):
        return np.diag(2.0 * np.asarray(x).reshape(-1))
    even = [("x^2+1", lambda x: np.asarray(x) ** 2 + 1.0, lambda x: np.diag(2.0 * np.asarray(x).reshape(-1))),
            ("cosh", lambda x: np.cosh(np.asarray(x)), lambda x: np.diag(np.sinh(np.asarray(x)).reshape(-1)))]
    for dtype in (np.float64, np.longdouble):
        tol = 32 * np.finfo(dtype).eps * 1e3
        for n in (2, 3):
            x_crit = np.full(n, 3.0, dtype=dtype)
            x_crit[0] = 0.0
            trials = [("critical-point-of-one-equation", mixed, mixed_jac, x_crit)] + [("stationary-non-root[%s]" % nm, F_, J_, np.zeros(n, dtype=dtype)) for nm, F_, J_ in even]
            for nm, F_, J_, x0 in trials:
                for with_jac in (True, False):
                    for solver in ("nonlinear_roots", "hybrj", "newtontrustregion"):
                        info = dict(system=nm, n=n, dtype=np.dtype(dtype).name, jac=with_jac, solver=solver)
                        cases[0] += 1
                        try:
                            if solver == "nonlinear_roots":
                                x, res = O.nonlinear_roots(F_, x0, jac=J_ if with_jac else None, tol=tol)
                            elif solver == "hybrj":
                                x, res = O.hybrj(F_, x0, J_ if with_jac else None, tol=tol)
                            else:
                                x, res = O.newtontrustregion(F_, x0, jac=J_ if with_jac else None, tol=tol)
                        except Exception:
                            continue
                        if bool(res[0]):
                            resid = float(np.linalg.norm(np.asarray(F_(x), dtype=np.longdouble)))
                            if not (resid <= 1e3 * tol * (n + 1)):
                                fail("success-on-a-system-without-a-root[%s]" % solver, residual=resid, **info)
    # loose tolerances (1e-3, 1e-4: what the implicit integrators pass, not the near-machine-precision default) on systems without a
    # real root: the step-size exit of the Newton trust-region solver must not be reachable by ever shorter accepted steps
    def f_circ(x):
        return np.array([x[0] ** 2 + x[1] ** 2 + 1, x[0] - x[1]], dtype=x.dtype)

    def j_circ(x):
        return np.array([[2 * x[0], 2 * x[1]], [1, -1]], dtype=x.dtype)
    loose = [("x^2+1", lambda x: x ** 2 + 1, lambda x: np.diag(2 * np.ravel(x)), [3.0, -2.0]), ("circle-without-root", f_circ, j_circ, [2.0, 1.0]),
             ("cubic-from-its-newton-cycle", lambda x: x ** 3 - 2 * x + 2, lambda x: np.diag(3 * np.ravel(x) ** 2 - 2), [0.0, 1.0])]
    for dtype in (np.float64, np.longdouble):
        for tol in (1e-3, 1e-4):
            for nm, F_, J_, start in loose:
                for with_jac in (True, False):
                    for solver in ("nonlinear_roots", "newtontrustregion"):
                        x0 = np.array(start, dtype=dtype)
                        info = dict(system=nm, n=2, dtype=np.dtype(dtype).name, jac=with_jac, solver=solver, tol_requested=tol)
                        cases[0] += 1
                        try:
                            x, res = getattr(O, solver)(F_, x0.copy(), jac=J_ if with_jac else None, tol=tol)
                        except Exception:
                            continue
                        resid = float(np.linalg.norm(np.asarray(F_(np.asarray(x)), dtype=np.longdouble)))
                        if bool(res[0]) and not (resid <= 10 * tol * (2 + float(np.linalg.norm(np.asarray(x, dtype=np.longdouble))))):
                            fail("success-at-a-loose-tolerance-without-a-root[%s]" % solver, residual=resid, **info)
    json.dump(dict(bound="8 smooth systems x n in %s x shapes x float64/longdouble x 3 starts x with/without Jacobian x 3 solvers" % (list(dims),), cases=cases[0], failures=failures), sys.stdout)


if __name__ == "__main__":
    main()
