"""Runs under /venv/bin/python: bounded native family for C19 (trajectory lookup by index and by time)."""
import json
import sys
import warnings

import numpy as np

warnings.filterwarnings("ignore")


def rhs(t, y, **kw):
    return np.stack([y[1], -y[0]])


def build(de, span, dt, method, dense):
    a = de.OdeSystem(rhs, y0=np.array([1.0, 0.0]), dense_output=dense, t=span, dt=dt, rtol=1e-6, atol=1e-6)
    a.method = method
    a.integrate()
    return a


def main():
    req = json.loads(sys.stdin.read())
    import desolver as de
    from monitor import watchdog
    watchdog.install(de)
    failures = {}
    cases = 0

    def fail(clause, **info):
        failures.setdefault(clause, [])
        if len(failures[clause]) < 3:
            failures[clause].append(info)

    configs = [((0.0, 2.0), 0.25, "RK4"), ((0.0, 2.0), 0.3, "RK45"), ((0.0, -2.0), 0.25, "RK4"), ((-3.0, -1.0), 0.25, "RK4"), ((1.0, -1.5), 0.25, "RK4")]
    for span, dt, method in configs:
        try:
            a = build(de, span, dt, method, False)
        except Exception as e:
            fail("integrate-raises", span=span, method=method, exc=repr(e))
            continue
        t, y = np.asarray(a.t), np.asarray(a.y)
        n = len(t)
        back = "-backward" if span[1] < span[0] else ""
        if len(a) != n:
            fail("len", span=span)
        for i in range(-n - 2, n + 3):
            cases += 1
            try:
                r = a[i]
                ok = -n <= i < n and r.t == t[i] and np.array_equal(r.y, y[i])
            except IndexError:
                ok = not (-n <= i < n)
            except Exception as e:
                ok = False
            if not ok:
                fail("int", span=span, index=i, n=n)
        seen = [(float(s.t), tuple(s.y)) for s in a]
        if seen != [(float(tt), tuple(yy)) for tt, yy in zip(t, y)]:
            fail("iteration", span=span)
        lo, hi = min(span), max(span)
        for q in np.linspace(lo - 0.3, hi + 0.3, 41):
            cases += 1
            r = a[float(q)]
            best = np.min(np.abs(t - q))
            if abs(float(r.t) - q) > best + 1e-12 or not any(r.t == tt and np.array_equal(r.y, yy) for tt, yy in zip(t, y)):
                fail("nearest" + back, span=span, query=float(q), returned=float(r.t), nearest=float(t[np.argmin(np.abs(t - q))]))
        cases += 1
        for (s0, s1) in ((lo, hi), (lo - 1.0, hi + 1.0)):
            r = a[s0:s1]
            if len(r.t) != n or not np.array_equal(np.asarray(r.t), t):
                fail("slice-whole" + back, span=span, start=s0, stop=s1, returned=len(r.t), n=n)
        try:
            b = build(de, span, dt, method, True)
            tb = np.asarray(b.t)
            for q in tb:
                cases += 1
                r = b[float(q)]
                if float(r.t) != float(q) or np.max(np.abs(np.asarray(r.y) - np.asarray(b.sol(float(q))))) != 0:
                    fail("dense" + back, span=span, query=float(q))
        except Exception as e:
            fail("dense-raises" + back, span=span, exc=repr(e))
    print(json.dumps(dict(cases=cases, failures=failures, bound="5 recorded grids (uniform/adaptive, forward/backward, mixed-sign) x all integer indices in [-len-2, len+2] x 41 query times x whole-run slices x dense lookups")))


if __name__ == "__main__":
    main()
