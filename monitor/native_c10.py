"""Runs under /venv/bin/python: bounded native clause of C10."""
import itertools
import json
import sys
import warnings

import numpy as np

warnings.filterwarnings("ignore")


def ham_rhs(t, y, **kw):
    n = len(y) // 2
    q, p = y[:n], y[n:]
    return np.concatenate([p + 0.1 * p ** 3, -np.sin(q) - 0.2 * q ** 3])


def one_step(cls, y, h, dtype, mask=None):
    from desolver.differential_system import DiffRHS
    from desolver import integrators as I
    kw = {}
    if issubclass(cls, I.ExplicitSymplecticIntegrator) and mask is not None:
        kw["staggered_mask"] = mask
    integ = cls(y.shape, dtype=dtype, rtol=dtype(1e-13), atol=dtype(1e-13), **kw)
    out = integ(DiffRHS(ham_rhs), dtype(0.2), y, {}, dtype(h))
    return y + out[1][1], float(out[1][0])


def main():
    req = json.loads(sys.stdin.read())
    from desolver import integrators as I
    failures, cases = [], 0
    rng = np.random.default_rng(req.get("seed", 0))
    dtype = np.float64
    for name in req["methods"]:
        cls = getattr(I, name)
        implicit = not issubclass(cls, I.ExplicitSymplecticIntegrator)
        for trial in range(2 if req["tier"] == "quick" else 6):
            n = 2
            y0 = rng.normal(size=2 * n) * 0.7
            for h in (0.1, -0.1):
                try:
                    y1, dt = one_step(cls, y0, h, dtype)
                    if abs(dt - h) > 1e-14:
                        continue
                    yb, dtb = one_step(cls, y1, -h, dtype)
                except Exception as e:
                    continue
                cases += 1
                tol = 1e-7 if implicit else 1e-12
                if np.max(np.abs(yb - y0)) > tol:
                    failures.append(dict(method=name, clause="reversible", h=h, err=float(np.max(np.abs(yb - y0)))))
                # Jacobian by central differences
                d = 1e-6
                M = np.zeros((2 * n, 2 * n))
                ok = True
                for j in range(2 * n):
                    e = np.zeros(2 * n)
                    e[j] = d
                    try:
                        yp, _ = one_step(cls, y0 + e, h, dtype)
                        ym, _ = one_step(cls, y0 - e, h, dtype)
                    except Exception:
                        ok = False
                        break
                    M[:, j] = (yp - ym) / (2 * d)
                if not ok:
                    continue
                J = np.block([[np.zeros((n, n)), np.eye(n)], [-np.eye(n), np.zeros((n, n))]])
                err = float(np.max(np.abs(M.T @ J @ M - J)))
                if err > (1e-5 if implicit else 1e-8):
                    failures.append(dict(method=name, clause="M^T J M = J", h=h, err=err))
    # mask construction (exhaustive small scope): kick mask 0/1, drift = 1 - kick, default = second half
    for cls in (I.SymplecticEulerSolver, I.BABs9o7HSolver, I.ABAs5o6HSolver):
        for dim in range(2, 7):
            integ = cls((dim,), dtype=np.float64)
            cases += 1
            want = np.zeros(dim)
            want[dim // 2:] = 1
            if not (np.array_equal(np.asarray(integ.kick_mask), want) and np.array_equal(np.asarray(integ.drift_mask), 1 - want)):
                failures.append(dict(method=cls.__name__, clause="default mask", dim=dim))
            if dim <= 4:
                for bits in itertools.product([False, True], repeat=dim):
                    cases += 1
                    try:
                        integ = cls((dim,), dtype=np.float64, staggered_mask=np.array(bits))
                    except Exception as e:
                        failures.append(dict(method=cls.__name__, clause="explicit mask constructor raises", bits=list(map(bool, bits)), exc=repr(e)))
                        break
                    k = np.asarray(integ.kick_mask)
                    if not (np.array_equal(k, np.array(bits, dtype=float)) and np.array_equal(np.asarray(integ.drift_mask), 1 - k)):
                        failures.append(dict(method=cls.__name__, clause="explicit mask", bits=list(map(bool, bits))))
    print(json.dumps(dict(cases=cases, failures=failures, bound="6 symplectic methods x random states x h=+-0.1 (4-d separable nonlinear Hamiltonian); masks: dims 2..6, all masks for dim <= 4")))


if __name__ == "__main__":
    main()
