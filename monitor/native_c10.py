"""Runs under /venv/bin/python: bounded native clause of C10."""
import itertools
import json
import sys
import warnings

import numpy as np

warnings.filterwarnings("ignore")


def ham_rhs(t, y, **kw):
    n = len(y) // 2
    q, p = y[:n], y[n:]
    return np.concatenate([p + 0.1 * p ** 3, -np.sin(q) - 0.2 * q ** 3])


def one_step(cls, y, h, dtype, mask=None):
    from desolver.differential_system import DiffRHS
    from desolver import integrators as I
    kw = {}
    if issubclass(cls, I.ExplicitSymplecticIntegrator) and mask is not None:
        kw["staggered_mask"] = mask
    integ = cls(y.shape, dtype=dtype, rtol=dtype(1e-13), atol=dtype(1e-13), **kw)
    out = integ(DiffRHS(ham_rhs), dtype(0.2), y, {}, dtype(h))
    return y + out[1][1], float(out[1][0])


def main():
    req = json.loads(sys.stdin.read())
    from desolver import integrators as I
    failures, cases = [], 0
    rng = np.random.default_rng(req.get("seed", 0))
    dtype = np.float64
    for name in req["methods"]:
        cls = getattr(I, name)
        implicit = not issubclass(cls, I.ExplicitSymplecticIntegrator)
        for trial in range(2 if req["tier"] == "quick" else 6):
            n = 2
            y0 = rng.normal(size=2 * n) * 0.7
            for h in (0.1, -0.1):
                try:
                    y1, dt = one_step(cls, y0, h, dtype)
                    if abs(dt - h) > 1e-14:
                        continue
                    yb, dtb = one_step(cls, y1, -h, dtype)
                except Exception as e:
                    continue
                cases += 1
                tol = 1e-7 if implicit else 1e-12
                if np.max(np.abs(yb - y0)) > tol:
                    failures.append(dict(method=name, clause="reversible", h=h, err=float(np.max(np.abs(yb - y0)))))
                # Jacobian by central differences
                d = 1e-6
                M = np.zeros((2 * n, 2 * n))
                ok = True
                for j in range(2 * n):
                    e = np.zeros(2 * n)
                    e[j] = d
                    try:
                        yp, _ = one_step(cls, y0 + e, h, dtype)
                        ym, _ = one_step(cls, y0 - e, h, dtype)
                    except Exception:
                        ok = False
                        break
                    M[:, j] = (yp - ym) / (2 * d)
                if not ok:
                    continue
                J = np.block([[np.zeros((n, n)), np.eye(n)], [-np.eye(n), np.zeros((n, n))]])
                err = float(np.max(np.abs(M.T @ J @ M - J)))
                if err > (1e-5 if implicit else 1e-8):
                    failures.append(dict(method=name, clause="M^T J M = J", h=h, err=err))
    # a kick mask other than the default, given to an instance that is *not the first of its class in the process* (nothing may be shared
    # between instances): interleaved layout y = (q1, p1, q2, p2), mask (0, 1, 0, 1); the one-step map is symplectic for the interleaved J
    def ham_rhs_interleaved(t, y, **kw):
        q, p = y[0::2], y[1::2]
        out = np.empty_like(y)
        out[0::2] = p + 0.1 * p ** 3
        out[1::2] = -np.sin(q) - 0.2 * q ** 3
        return out
    from desolver.differential_system import DiffRHS
    Ji = np.kron(np.eye(2), np.array([[0.0, 1.0], [-1.0, 0.0]]))
    for name in req["methods"]:
        cls = getattr(I, name)
        if not issubclass(cls, I.ExplicitSymplecticIntegrator):
            continue
        y0 = rng.normal(size=4) * 0.7
        first = cls((4,), dtype=dtype)                                  # default mask, used once
        first(DiffRHS(ham_rhs), dtype(0.0), y0, {}, dtype(0.05))
        for h in (0.05, -0.05):
            def step(y):
                integ = cls((4,), dtype=dtype, staggered_mask=np.array([0, 1, 0, 1], dtype=bool))
                return y + integ(DiffRHS(ham_rhs_interleaved), dtype(0.0), y, {}, dtype(h))[1][1]
            d = 1e-6
            M = np.zeros((4, 4))
            try:
                for j in range(4):
                    e = np.zeros(4)
                    e[j] = d
                    M[:, j] = (step(y0 + e) - step(y0 - e)) / (2 * d)
            except Exception as e_:
                failures.append(dict(method=name, clause="explicit mask on a later instance raises", exc=repr(e_)[:100]))
                continue
            cases += 1
            err = float(np.max(np.abs(M.T @ Ji @ M - Ji)))
            if err > 1e-8:
                failures.append(dict(method=name, clause="M^T J M = J with kick mask (0,1,0,1) on an instance built after a default-mask one", h=h, err=err))
    # one instance reused across a faulted call: a step of h1, then a call at another step size in which the right-hand side raises
    # half-way, then h1 followed by -h1 must still return to the start (nothing of the aborted call may survive in the instance)
    class Boom(Exception):
        pass
    for name in req["methods"]:
        cls = getattr(I, name)
        if not issubclass(cls, I.ExplicitSymplecticIntegrator):
            continue
        y0 = rng.normal(size=4) * 0.7
        integ = cls((4,), dtype=dtype)
        h1 = dtype(0.05)
        integ(DiffRHS(ham_rhs), dtype(0.0), y0, {}, h1)
        calls = [0]

        def faulty(t, y, **kw):
            calls[0] += 1
            if calls[0] >= 2:
                raise Boom()
            return ham_rhs(t, y)
        try:
            integ(DiffRHS(faulty), dtype(0.0), y0, {}, dtype(0.4))
        except Boom:
            pass
        except Exception:
            pass
        try:
            y1 = y0 + integ(DiffRHS(ham_rhs), dtype(0.0), y0, {}, h1)[1][1]
            yb = y1 + integ(DiffRHS(ham_rhs), h1, y1, {}, -h1)[1][1]
        except Exception as e_:
            failures.append(dict(method=name, clause="instance unusable after a faulted call", exc=repr(e_)[:100]))
            continue
        cases += 1
        fresh = cls((4,), dtype=dtype)
        y1f = y0 + fresh(DiffRHS(ham_rhs), dtype(0.0), y0, {}, h1)[1][1]
        if np.max(np.abs(yb - y0)) > 1e-12 or np.max(np.abs(y1 - y1f)) > 1e-14:
            failures.append(dict(method=name, clause="reversible and equal to a fresh instance after a faulted call at another step size", err=float(np.max(np.abs(yb - y0))), diff_to_fresh=float(np.max(np.abs(y1 - y1f)))))
    # mask construction (exhaustive small scope): kick mask 0/1, drift = 1 - kick, default = second half
    for cls in (I.SymplecticEulerSolver, I.BABs9o7HSolver, I.ABAs5o6HSolver):
        for dim in range(2, 7):
            integ = cls((dim,), dtype=np.float64)
            cases += 1
            want = np.zeros(dim)
            want[dim // 2:] = 1
            if not (np.array_equal(np.asarray(integ.kick_mask), want) and np.array_equal(np.asarray(integ.drift_mask), 1 - want)):
                failures.append(dict(method=cls.__name__, clause="default mask", dim=dim))
            if dim <= 4:
                for bits in itertools.product([False, True], repeat=dim):
                    cases += 1
                    try:
                        integ = cls((dim,), dtype=np.float64, staggered_mask=np.array(bits))
                    except Exception as e:
                        failures.append(dict(method=cls.__name__, clause="explicit mask constructor raises", bits=list(map(bool, bits)), exc=repr(e)))
                        break
                    k = np.asarray(integ.kick_mask)
                    if not (np.array_equal(k, np.array(bits, dtype=float)) and np.array_equal(np.asarray(integ.drift_mask), 1 - k)):
                        failures.append(dict(method=cls.__name__, clause="explicit mask", bits=list(map(bool, bits))))
    # one instance reused after a step that overflowed (a right-hand side that returns inf / nan at a rejected step size): the next step at
    # a sane step size is the one a fresh instance takes (nothing non-finite of the earlier attempt may survive in the increment buffer)
    def stiff_rhs(t, y, **kw):
        return np.array([y[1], -1e200 * y[0] ** 3])
    for name in req["methods"]:
        cls = getattr(I, name)
        if not issubclass(cls, I.ExplicitSymplecticIntegrator):
            continue
        cases += 1
        try:
            with np.errstate(all="ignore"):
                used = cls((2,), dtype=dtype)
                used(stiff_rhs, dtype(0.0), np.array([1.0, 0.0]), {}, dtype(1e200))
                got = used(stiff_rhs, dtype(0.0), np.array([1e-80, 1.0]), {}, dtype(1e-3))[1][1]
                want = cls((2,), dtype=dtype)(stiff_rhs, dtype(0.0), np.array([1e-80, 1.0]), {}, dtype(1e-3))[1][1]
            if np.all(np.isfinite(want)) and not np.array_equal(np.asarray(got), np.asarray(want)):
                failures.append(dict(method=name, clause="step after an overflowed step differs from a fresh instance's", got=[float(v) for v in got], fresh=[float(v) for v in want]))
        except Exception as e_:
            failures.append(dict(method=name, clause="step after an overflowed step raises", exc=repr(e_)[:100]))
    print(json.dumps(dict(cases=cases, failures=failures, bound="6 symplectic methods x random states x h=+-0.1 (4-d separable nonlinear Hamiltonian); masks: dims 2..6, all masks for dim <= 4")))


if __name__ == "__main__":
    main()
