"""Runs under /venv/bin/python: bounded native family for C05(a) -- global error of adaptive runs vs tolerances."""
import json
import sys
import warnings

import numpy as np
import scipy.linalg

warnings.filterwarnings("ignore")


def main():
    req = json.loads(sys.stdin.read())
    import desolver as de
    from monitor import watchdog
    watchdog.install(de)
    from desolver import integrators as I
    rng = np.random.default_rng(req.get("seed", 0))
    failures, cases, ratios = {}, 0, {}

    def fail(cl, **info):
        failures.setdefault(cl, [])
        if len(failures[cl]) < 3:
            failures[cl].append(info)

    K = 20.0
    adaptive = [c for c in I.explicit_methods() + I.implicit_methods() if not issubclass(c, I.ExplicitSymplecticIntegrator) and np.asarray(c.tableau_final).shape[0] == 2]
    names = [c.__name__ for c in adaptive]
    tols = [1e-3, 1e-8] if req["tier"] == "quick" else [1e-3, 1e-5, 1e-7, 1e-9, 1e-11]
    mats = [np.array([[-0.5, 2.0], [-2.0, -0.5]]), np.array([[0.0, 1.0], [-1.0, 0.0]]), np.array([[-1.0, 0.3], [0.1, -2.0]])]
    if req["tier"] == "quick":
        mats = mats[:2]
    for cls in adaptive:
        for A in mats:
            for tol in tols:
                for (t0, tf) in (((0.0, 2.0), (3.0, 1.0)) if req["tier"] == "quick" else ((0.0, 2.0), (0.0, -1.5), (3.0, 1.0))):
                    for dt0 in ((1e-4, 5.0) if req["tier"] == "quick" else (1e-4, 0.1, 5.0)):
                        if cls.__name__.startswith("Radau") and tol < 1e-8:
                            continue
                        y0 = np.array([1.0, -0.5])
                        f = lambda t, y, A=A: A @ y
                        a = de.OdeSystem(f, y0=y0, t=(t0, tf), dt=dt0, rtol=tol, atol=tol)
                        a.method = cls
                        try:
                            a.integrate()
                        except Exception as e:
                            fail("raises", method=cls.__name__, tol=tol, span=(t0, tf), dt=dt0, cause=repr(e.__cause__)[:90])
                            continue
                        cases += 1
                        t, y = np.asarray(a.t), np.asarray(a.y)
                        err = 0.0
                        bound = 0.0
                        worst = 0.0
                        for ti, yi in zip(t, y):
                            ex = scipy.linalg.expm(A * (ti - t0)) @ y0
                            amp = max(1.0, np.linalg.norm(scipy.linalg.expm(A * (ti - t0)), 2)) * max(1.0, abs(ti - t0))
                            r = float(np.max(np.abs(yi - ex)) / ((tol + tol * np.max(np.abs(ex))) * amp))
                            worst = max(worst, r)
                        ratios[cls.__name__] = max(ratios.get(cls.__name__, 0.0), worst)
                        if worst > K:
                            fail("global-error-exceeds-K*tol", method=cls.__name__, tol=tol, span=(t0, tf), dt=dt0, ratio=worst)
    # strongly decaying solution with rtol dominating atol: the error scale must follow |y| down (per-step tolerance, no stale scaling)
    A = np.array([[-3.0, 1.0], [-1.0, -3.0]])
    for cls in adaptive:
        if cls.__name__.startswith(("Radau", "Lobatto", "HeunEuler")):
            continue
        y0 = np.array([800.0, -600.0])
        a = de.OdeSystem(lambda t, y: A @ y, y0=y0, t=(0.0, 5.0), dt=1e-2, rtol=1e-6, atol=1e-11)
        a.method = cls
        try:
            a.integrate()
        except Exception as e:
            fail("raises", method=cls.__name__, problem="decay", cause=repr(e.__cause__)[:90])
            continue
        cases += 1
        t, y = np.asarray(a.t), np.asarray(a.y)
        worst = 0.0
        for ti, yi in zip(t, y):
            ex = scipy.linalg.expm(A * ti) @ y0
            worst = max(worst, float(np.max(np.abs(yi - ex)) / (1e-11 + 1e-6 * np.max(np.abs(ex)))))
        ratios[cls.__name__ + ":decay"] = worst
        if worst > K:
            fail("global-error-exceeds-K*tol", method=cls.__name__, problem="decay", ratio=worst)
    # closed-form nonlinear problem: y' = -y + t*y^2, y = 1/(t + 1 + C e^t)
    for cls in adaptive:
        for tol in tols:
            if cls.__name__.startswith("Radau") and tol < 1e-8:
                continue
            C = 1.0
            sol = lambda t: 1.0 / (t + 1 + C * np.exp(t))
            a = de.OdeSystem(lambda t, y: -y + t * y ** 2, y0=np.array([sol(0.0)]), t=(0.0, 2.0), dt=0.3, rtol=tol, atol=tol)
            a.method = cls
            try:
                a.integrate()
            except Exception as e:
                fail("raises", method=cls.__name__, tol=tol, problem="bernoulli", cause=repr(e.__cause__)[:90])
                continue
            cases += 1
            t, y = np.asarray(a.t), np.asarray(a.y)[:, 0]
            r = float(np.max(np.abs(y - sol(t)) / (tol + tol * np.abs(sol(t)))))
            ratios[cls.__name__] = max(ratios.get(cls.__name__, 0.0), r)
            if r > K:
                fail("global-error-exceeds-K*tol", method=cls.__name__, tol=tol, problem="bernoulli", ratio=r)
    # components of very different size: the bound is per component (atol + rtol*|y_i|), a large component must not lend its tolerance to the
    # small ones (u' = -0.05 u from 1e7 together with an O(1) oscillator of frequency 4)
    for cls in [c for c in adaptive if c.__name__ in ("RK45CKSolver", "DOPRI45", "RK8713MSolver")]:
        for sgn in (1.0, -1.0):
            tol = 1e-7
            f = lambda t, y, sgn=sgn: sgn * np.array([-0.05 * y[0], 4.0 * y[2], -4.0 * y[1]])
            a = de.OdeSystem(f, y0=np.array([1e7, 1.0, 0.0]), t=(0.0, sgn * 3.0), dt=1e-3, rtol=tol, atol=tol)
            a.method = cls
            cases += 1
            try:
                a.integrate()
            except Exception as e:
                fail("raises", method=cls.__name__, tol=tol, problem="mixed-scale", cause=repr(e.__cause__)[:90])
                continue
            t, y = np.asarray(a.t), np.asarray(a.y)
            s_ = np.abs(t)
            ex = np.stack([1e7 * np.exp(-0.05 * s_), np.cos(4 * s_), -np.sin(4 * s_)], axis=1)
            r = float(np.max(np.abs(y - ex) / (tol + tol * np.abs(ex)) / np.maximum(1.0, s_)[:, None]))
            if r > 5 * K:
                fail("global-error-exceeds-K*tol-per-component[mixed scales]", method=cls.__name__, tol=tol, direction=sgn, ratio=r)
    # fast decay with an initial step far too large for it (dt >= the span, |lambda| * span = 50 .. 200): the first attempts of the first
    # step are rejected several times; the step that is finally recorded must meet the tolerance like any other (defect F31: the error
    # scale and the controller memory of the rejected attempts were carried into the judgement of the retry)
    for cls in [c for c in adaptive if not np.any(np.triu(np.asarray(c.tableau_intermediate)[:, 1:]))]:          # explicit embedded pairs
        for lam in (-50.0, -200.0):
            for sgn in (1.0, -1.0):
                for dt0 in (1.0, 10.0):
                    for tol in ((1e-6,) if req["tier"] == "quick" else (1e-4, 1e-6, 1e-9)):
                        f = lambda t, y, lam=lam, sgn=sgn: sgn * lam * y
                        a = de.OdeSystem(f, y0=np.array([1.0]), t=(0.0, sgn * 1.0), dt=dt0, rtol=tol, atol=tol)
                        a.method = cls
                        cases += 1
                        try:
                            a.integrate()
                        except Exception as e:
                            continue          # raising instead of recording an inaccurate state is what the property asks for
                        t, y = np.asarray(a.t), np.asarray(a.y)[:, 0]
                        ex = np.exp(lam * np.abs(t))
                        r = float(np.max(np.abs(y - ex) / (tol + tol * np.abs(ex))))
                        if r > 5 * K:
                            fail("global-error-exceeds-K*tol-after-an-oversized-initial-step", method=cls.__name__, tol=tol, lam=lam, direction=sgn, dt=dt0, ratio=r, first_step=float(abs(t[1] - t[0])))
    # Richardson wrappers (explicit, implicit and symplectic bases), both directions: the run returns (a watchdog turns a hang into a
    # failure) and meets its tolerance on the harmonic oscillator
    import signal

    def on_alarm(signum, frame):
        raise TimeoutError("integration did not return within the watchdog time")
    signal.signal(signal.SIGALRM, on_alarm)
    # (an adaptive base method -- RK45CK -- shortens the first pass now and then: defect F32 made the passes of the table cover different
    # intervals in decreasing time)
    bases = [I.RK4Solver, I.SymplecticEulerSolver, I.ABAs5o6HSolver, I.RK45CKSolver] + ([I.ImplicitMidpoint, I.DOPRI45] if req["tier"] != "quick" else [])
    for base in bases:
        for levels in ((4,) if req["tier"] == "quick" else (2, 3, 4, 5)):
            for span in ((0.0, 2.0), (0.0, -2.0)):
                R = I.generate_richardson_integrator(base, levels)
                a = de.OdeSystem(lambda t, y: np.stack([y[1], -y[0]]), y0=np.array([0.0, 1.0]), t=span, dt=0.05, rtol=1e-6, atol=1e-6)
                a.method = R
                cases += 1
                signal.alarm(60)
                try:
                    a.integrate()
                    signal.alarm(0)
                except BaseException as e:
                    signal.alarm(0)
                    hung = isinstance(e, (TimeoutError, watchdog.DidNotReturn)) or isinstance(getattr(e, "__cause__", None), (TimeoutError, watchdog.DidNotReturn))
                    fail("richardson-run-hangs" if hung else "raises", method="Richardson(%s,%d)" % (base.__name__, levels), span=span, cause=repr(getattr(e, "__cause__", e))[:90])
                    continue
                err = float(np.max(np.abs(np.asarray(a.y[-1]) - np.array([np.sin(span[1]), np.cos(span[1])]))))
                if abs(float(a.t[-1]) - span[1]) > 1e-12 or err > K * 1e-6 * 4:
                    fail("richardson-run-inaccurate", method="Richardson(%s,%d)" % (base.__name__, levels), span=span, err=err, t_end=float(a.t[-1]))
    print(json.dumps(dict(cases=cases, failures=failures, worst_ratio_per_method=ratios, K=K, methods=names,
                          bound="%d embedded pairs x 3 linear systems with exact exponentials x %d tolerances x 3 spans (both directions) x initial dt from 1e-4 to 5 + Bernoulli problem; accepted if error <= %g*(atol+rtol|y|)*amplification" % (len(names), len(tols), K))))


if __name__ == "__main__":
    main()
