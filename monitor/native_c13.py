"""Runs under /venv/bin/python: bounded native history family for C13."""
import json
import sys
import warnings

import numpy as np

warnings.filterwarnings("ignore")


def rhs(t, y, k=1.0):
    return np.stack([y[1], -k * y[0]])


def main():
    req = json.loads(sys.stdin.read())
    import desolver as de
    from monitor import watchdog
    watchdog.install(de)
    from desolver import integrators as I
    failures, cases = {}, 0

    def fail(cl, **info):
        failures.setdefault(cl, [])
        if len(failures[cl]) < 3:
            failures[cl].append(info)

    def fresh(method, span=(0.0, 2.0), dt=0.3, dense=False, tol=1e-8):
        a = de.OdeSystem(rhs, y0=np.array([1.0, 0.0]), t=span, dt=dt, dense_output=dense, rtol=tol, atol=tol, constants=dict(k=1.5))
        a.method = method
        return a

    methods = [I.RK45CKSolver, I.RK4Solver, I.ImplicitMidpoint, I.SymplecticEulerSolver, I.RK8713MSolver]
    for m in methods:
        for span in ((0.0, 2.0), (0.0, -2.0)):
            ref = fresh(m, span)
            ref.integrate()
            tref, yref = np.asarray(ref.t).copy(), np.asarray(ref.y).copy()
            name = m.__name__
            # identical call sequences: bit for bit
            b = fresh(m, span)
            b.integrate()
            cases += 1
            if not (np.array_equal(np.asarray(b.t), tref) and np.array_equal(np.asarray(b.y), yref)):
                fail("identical-sequence-not-bitwise", method=name, span=span)
            # a call when already at the target changes nothing
            n0, dt0, nf0 = len(b.t), b.dt, b.nfev
            b.integrate()
            b.integrate(span[1])
            cases += 1
            if len(b.t) != n0 or b.dt != dt0 or b.nfev != nf0:
                fail("call-at-target-changes-state", method=name, span=span)
            # split spans: within tolerance
            c = fresh(m, span)
            for frac in (0.3, 0.55, 1.0):
                c.integrate(span[0] + frac * (span[1] - span[0]))
            cases += 1
            exact = np.array([np.cos(np.sqrt(1.5) * (span[1] - span[0])), -np.sqrt(1.5) * np.sin(np.sqrt(1.5) * (span[1] - span[0]))])
            e_ref = np.max(np.abs(yref[-1] - exact))
            e_split = np.max(np.abs(np.asarray(c.y)[-1] - exact))
            if abs(c.t[-1] - span[1]) > 1e-12 or e_split > 10 * e_ref + 1e-6:
                fail("split-span-disagrees", method=name, span=span, err_split=float(e_split), err_single=float(e_ref))
            # reset after: a run, an event-terminated run, a failing run, method and tolerance changes
            y0 = np.array([1.0, 0.0])
            consts = dict(k=1.5)
            a = de.OdeSystem(rhs, y0=y0, t=span, dt=0.3, rtol=1e-8, atol=1e-8, constants=consts)
            a.method = m
            histories = []
            histories.append(("run", lambda a: a.integrate()))
            def ev_run(a):
                ev = lambda t, y, **kw: y[0] - 0.5
                ev.is_terminal = True
                a.integrate(events=[ev])
            histories.append(("event-terminated", ev_run))
            def failing(a):
                cnt = [0]
                def cb(s):
                    cnt[0] += 1
                    if cnt[0] == 2:
                        raise RuntimeError("boom")
                try:
                    a.integrate(callback=cb)
                except Exception:
                    pass
            histories.append(("failing", failing))
            def change_method(a):
                a.method = I.RK4Solver
                a.integrate(span[0] + 0.5 * (span[1] - span[0]))
                a.method = m
            histories.append(("method-change", change_method))
            def change_tol(a):
                a.rtol = 1e-4
                a.atol = 1e-4
                a.integrate(span[0] + 0.5 * (span[1] - span[0]))
                a.rtol = 1e-8
                a.atol = 1e-8
            histories.append(("tolerance-change", change_tol))
            for hname, h in histories:
                try:
                    h(a)
                except Exception as e:
                    fail("history-raises", method=name, span=span, history=hname, exc=repr(e)[:80])
                a.reset()
                cases += 1
                ok0 = len(a.t) == 1 and a.t[0] == span[0] and np.array_equal(a.y[0], np.array([1.0, 0.0])) and not a.events and a.nfev == 0 and (a.sol is None or len(a.sol) == 0)
                if not ok0:
                    fail("reset-not-pristine", method=name, span=span, history=hname)
                    continue
                try:
                    a.integrate()
                except Exception as e:
                    fail("rerun-after-reset-raises", method=name, span=span, history=hname, exc=repr(e.__cause__)[:80])
                    continue
                if not (np.array_equal(np.asarray(a.t), tref) and np.array_equal(np.asarray(a.y), yref)):
                    fail("rerun-after-reset-differs-from-fresh", method=name, span=span, history=hname,
                         n=len(a.t), nref=len(tref), maxdiff=float(np.max(np.abs(np.asarray(a.y)[-1] - yref[-1]))))
                a.reset()
            if not np.array_equal(y0, np.array([1.0, 0.0])) or consts != dict(k=1.5):
                fail("caller-data-modified", method=name, span=span)
    # reset() after a run in the *other* time direction, dense output kept: the re-run answers queries strictly inside its steps exactly as
    # a freshly built system does (nothing about the direction of the earlier run survives in the dense output)
    def osc(t, y, **kw):
        return np.stack([y[1], -y[0]])
    for first, second in (((0.0, -3.0), (0.0, 3.0)), ((0.0, 3.0), (0.0, -3.0))):
        a = de.OdeSystem(osc, y0=np.array([1.0, 0.0]), t=first, dt=0.1, dense_output=True, rtol=1e-9, atol=1e-9)
        cases += 1
        try:
            a.integrate()
            a.reset()
            a.tf = second[1]
            a.integrate()
            b = de.OdeSystem(osc, y0=np.array([1.0, 0.0]), t=second, dt=0.1, dense_output=True, rtol=1e-9, atol=1e-9)
            b.integrate()
        except Exception as e:
            fail("history-raises", history="reverse-direction-after-reset", exc=repr(e)[:100])
            continue
        tb = np.asarray(b.t)
        qs = 0.5 * (tb[:-1] + tb[1:])
        if len(a.t) != len(b.t) or not np.array_equal(np.asarray(a.y), np.asarray(b.y)):
            fail("rerun-after-reset-differs-from-fresh", history="reverse-direction-after-reset", n=len(a.t), nref=len(b.t))
        elif max(float(np.max(np.abs(a.sol(float(q)) - b.sol(float(q))))) for q in qs) > 0.0 or float(np.max(np.abs(a.sol(qs) - b.sol(qs)))) > 0.0:
            fail("dense-output-after-reset-differs-from-fresh", history="reverse-direction-after-reset", first=list(first), second=list(second))
    print(json.dumps(dict(cases=cases, failures=failures, bound="5 methods x 2 directions x {identical sequences, call at target, 3-way split, reset after 5 kinds of history}")))


if __name__ == "__main__":
    main()
