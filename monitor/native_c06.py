"""Runs under /venv/bin/python: bounded native family for C06 (dense output)."""
import json
import sys
import warnings

import numpy as np

warnings.filterwarnings("ignore")


def rhs(t, y, **kw):
    return np.stack([y[1], -y[0] + 0.1 * np.sin(t)])


def main():
    req = json.loads(sys.stdin.read())
    import desolver as de
    from monitor import watchdog
    watchdog.install(de)
    from desolver import integrators as I
    failures, cases = {}, 0

    def fail(cl, **info):
        failures.setdefault(cl, [])
        if len(failures[cl]) < 3:
            failures[cl].append(info)

    methods = [I.RK45CKSolver, I.RK4Solver, I.DOPRI45, I.RK8713MSolver, I.ImplicitMidpoint, I.RadauIIA5, I.SymplecticEulerSolver, I.ABAs5o6HSolver]
    rich = I.generate_richardson_integrator(I.RK4Solver, 3)
    # deep extrapolation tables (the refinement may stop early once converged): the pieces handed out must be those of *this* step --
    # ordered, tiling the recorded range, ending at the recorded end point
    for levels in (6,):
        deep = I.generate_richardson_integrator(I.RK4Solver, levels)
        for span in ((0.0, 3.0), (0.0, -3.0)):
            a = de.OdeSystem(rhs, y0=np.array([1.0, 0.0]), t=span, dt=0.2, dense_output=True, rtol=1e-9, atol=1e-9)
            a.method = deep
            try:
                a.integrate()
            except Exception as e:
                fail("raises", method="Richardson(RK4,%d)" % levels, span=span, cause=repr(e.__cause__)[:80])
                continue
            cases += 1
            te = np.asarray([float(x) for x in a.sol.t_eval])
            sgn = 1.0 if span[1] > span[0] else -1.0
            if not np.all(np.diff(te) > 0):
                fail("sub-divided-step-pieces-out-of-order", method="Richardson(RK4,%d)" % levels, span=span, n=len(te))
            elif abs((te[-1] if sgn > 0 else te[0]) - float(a.t[-1])) > 1e-9:
                fail("sub-divided-step-pieces-do-not-end-at-the-recorded-end", method="Richardson(RK4,%d)" % levels, span=span)
            else:
                bad = max(float(np.max(np.abs(a.sol(float(tt)) - yy))) for tt, yy in zip(a.t, a.y))
                if bad > 1e-4:
                    fail("nodes-not-reproduced", method="Richardson(RK4,%d)" % levels, span=span, err_scalar=bad)
    for m in methods + [rich]:
        for span in ((0.0, 3.0), (0.0, -3.0)):
            name = getattr(m, "__name__", str(m))
            back = "-backward" if span[1] < span[0] else ""
            a = de.OdeSystem(rhs, y0=np.array([1.0, 0.0]), t=span, dt=0.2, dense_output=True, rtol=1e-7, atol=1e-7)
            a.method = m
            try:
                a.integrate(span[0] + 0.6 * (span[1] - span[0]))
                a.integrate()                      # continued call
            except Exception as e:
                fail("raises" + back, method=name, span=span, cause=repr(e.__cause__)[:80])
                continue
            cases += 1
            t, y = np.asarray(a.t), np.asarray(a.y)
            sol = a.sol
            tol_node = 1e-5 if m is rich else 1e-12
            # recorded states reproduced at recorded times (scalar and array queries)
            err_s = max(float(np.max(np.abs(sol(float(tt)) - yy))) for tt, yy in zip(t, y))
            err_v = float(np.max(np.abs(sol(t) - y)))
            if err_s > tol_node or err_v > tol_node:
                fail("nodes-not-reproduced" + back, method=name, span=span, err_scalar=err_s, err_array=err_v)
            # one piece per step, ordered
            te = np.asarray([float(x) for x in sol.t_eval])
            if m is not rich and (len(te) != len(t) - 1 or not np.all(np.diff(te) > 0)):
                fail("pieces-not-one-per-step-ordered" + back, method=name, span=span, pieces=len(te), steps=len(t) - 1)
            # every interior query answered by the containing piece: compare with the Hermite cubic built from the recorded data of that step
            if m is not rich:
                worst = 0.0
                slope_err = 0.0
                for i in range(len(t) - 1):
                    t0, t1 = t[i], t[i + 1]
                    f0, f1 = rhs(t0, y[i]), rhs(t1, y[i + 1])
                    for frac in (0.25, 0.5, 0.9):
                        q = t0 + frac * (t1 - t0)
                        s_ = frac
                        h00, h10, h01, h11 = 2 * s_ ** 3 - 3 * s_ ** 2 + 1, s_ ** 3 - 2 * s_ ** 2 + s_, -2 * s_ ** 3 + 3 * s_ ** 2, s_ ** 3 - s_ ** 2
                        want = h00 * y[i] + h10 * (t1 - t0) * f0 + h01 * y[i + 1] + h11 * (t1 - t0) * f1
                        worst = max(worst, float(np.max(np.abs(sol(float(q)) - want))))
                    slope_err = max(slope_err, float(np.max(np.abs(sol.grad(float(t1)) - f1))) if i < len(t) - 2 else 0.0)
                if worst > 1e-9:
                    fail("query-not-answered-by-containing-piece" + back, method=name, span=span, err=worst)
                if slope_err > 1e-9:
                    fail("end-slopes-not-rhs" + back, method=name, span=span, err=slope_err)
        # O(h^4): halving the step divides the mid-step interpolation error by ~16 (fixed-step RK4 on a smooth problem)
    errs = []
    for dt in (0.2, 0.1):
        a = de.OdeSystem(lambda t, y: np.stack([y[1], -y[0]]), y0=np.array([1.0, 0.0]), t=(0.0, 2.0), dt=dt, dense_output=True)
        a.method = I.RK8713MSolver
        a.rtol = 1e-13
        a.atol = 1e-13
        a.method = I.RK4Solver
        a.integrate()
        t = np.asarray(a.t)
        mids = 0.5 * (t[:-1] + t[1:])
        errs.append(max(abs(float(a.sol(float(q))[0]) - np.cos(q)) for q in mids))
    cases += 1
    if not (errs[0] / errs[1] > 10):
        fail("interpolation-order-below-4", errs=errs)
    print(json.dumps(dict(cases=cases, failures=failures, bound="9 methods (incl. a Richardson wrapper) x 2 directions, continued calls, scalar and array queries at nodes and 3 points per step; order check on RK4")))


if __name__ == "__main__":
    main()
