"""Runs under /venv/bin/python: bounded native fault-injection family for C12 (and reset/history clauses of C13)."""
import json
import sys
import warnings

import numpy as np

warnings.filterwarnings("ignore")


class Fault(Exception):
    pass


def main():
    req = json.loads(sys.stdin.read())
    import desolver as de
    from monitor import watchdog
    watchdog.install(de)
    from desolver import integrators as I
    from desolver import exception_types as E
    failures, cases = {}, 0

    def fail(cl, **info):
        failures.setdefault(cl, [])
        if len(failures[cl]) < 3:
            failures[cl].append(info)

    def mk(method, span, dt, dense, counter, fault_at, exc):
        def rhs(t, y, **kw):
            counter[0] += 1
            if fault_at is not None and counter[0] == fault_at[0]:
                raise exc("injected fault at call %d" % counter[0])
            return np.stack([y[1], -y[0]])
        a = de.OdeSystem(rhs, y0=np.array([1.0, 0.0]), t=span, dt=dt, dense_output=dense, rtol=1e-6, atol=1e-6)
        a.method = method
        return a

    configs = [(I.RK4Solver, (0.0, 1.0), 0.25), (I.RK45CKSolver, (0.0, 1.5), 0.9), (I.ImplicitMidpoint, (0.0, 0.6), 0.2),
               (I.SymplecticEulerSolver, (0.0, 1.0), 0.25), (I.RK4Solver, (0.0, -1.0), 0.25), (I.RK45CKSolver, (1.0, -0.5), 0.9)]
    if req.get("tier") == "thorough":
        configs += [(I.DOPRI45, (0.0, 1.5), 0.9), (I.RadauIIA5, (0.0, 0.5), 0.25), (I.generate_richardson_integrator(I.RK4Solver, 3), (0.0, 1.0), 0.5)]
    for method, span, dt in configs:
        for dense in (False, True):
            c0 = [0]
            ref = mk(method, span, dt, dense, c0, None, Fault)
            n_init = c0[0]
            ref.integrate()
            N = c0[0]
            tref, yref = np.asarray(ref.t), np.asarray(ref.y)
            name = getattr(method, "__name__", str(method))
            for exc in (Fault, KeyboardInterrupt) + ((ValueError,) if dense is False else ()):
                for k in range(n_init + 1, N + 1):
                    cnt = [0]
                    fa = [k]
                    a = mk(method, span, dt, dense, cnt, fa, exc)
                    cases += 1
                    info = dict(method=name, span=span, dense=dense, k=k, N=N, exc=exc.__name__)
                    try:
                        a.integrate()
                        if exc is ValueError:
                            fail("value-error-swallowed", **info)
                        else:
                            fail("no-exception-raised", **info)
                        continue
                    except KeyboardInterrupt as e:
                        if exc is not KeyboardInterrupt:
                            fail("wrong-exception", got="KeyboardInterrupt", **info)
                            continue
                        if "KeyboardInterrupt" not in a.integration_status:
                            fail("status-not-keyboard-interrupt", status=a.integration_status[:60], **info)
                    except E.FailedIntegration as e:
                        if exc is KeyboardInterrupt:
                            fail("keyboard-interrupt-wrapped", **info)
                        if not isinstance(e.__cause__, exc):
                            fail("cause-lost", cause=repr(e.__cause__)[:60], **info)
                        if "failed" not in a.integration_status:
                            fail("status-not-failed", status=a.integration_status[:60], **info)
                    except Exception as e:
                        fail("wrong-exception", got=repr(e)[:60], **info)
                        continue
                    t, y = np.asarray(a.t), np.asarray(a.y)
                    n = len(t)
                    d = np.sign(span[1] - span[0])
                    if n != len(y) or n > len(tref) or not np.array_equal(t, tref[:n]) or not np.array_equal(y, yref[:n]) or not np.all(np.isfinite(y)):
                        fail("prefix-not-consistent", n=n, **info)
                    if n > 1 and not np.all(d * np.diff(t) > 0):
                        fail("prefix-not-monotone", **info)
                    if dense and a.sol is not None and len(a.sol) > 0:
                        npieces = len(a.sol.y_interpolants)
                        if npieces != n - 1:
                            fail("dense-output-covers-other-steps", pieces=npieces, steps=n - 1, **info)
                    # resume
                    fa[0] = -1
                    try:
                        a.integrate()
                        if abs(a.t[-1] - span[1]) > 1e-12:
                            fail("resume-does-not-reach-target", last=float(a.t[-1]), **info)
                        else:
                            exact = np.array([np.cos(span[1] - span[0]), -np.sin(span[1] - span[0])])
                            e_ref = float(np.max(np.abs(yref[-1] - exact)))
                            e_res = float(np.max(np.abs(a.y[-1] - exact)))
                            if e_res > 10 * e_ref + 1e-5:
                                fail("resume-wrong-final-state", err_resumed=e_res, err_fault_free=e_ref, **info)
                        tt = np.asarray(a.t)
                        if not np.all(d * np.diff(tt) > 0):
                            fail("resume-not-monotone", **info)
                    except Exception as e2:
                        fail("resume-raises", exc2=repr(e2)[:60], cause=repr(e2.__cause__)[:60], **info)
                    # reset restores a pristine system
                    a.reset()
                    if len(a.t) != 1 or a.t[0] != span[0] or not np.array_equal(a.y[0], np.array([1.0, 0.0])) or a.nfev != 0 or a.events or \
                            a.integration_status != "Integration has not been run.":
                        fail("reset-not-pristine", **info)
                    else:
                        try:
                            a.integrate()
                            if not np.array_equal(np.asarray(a.t), tref) or not np.array_equal(np.asarray(a.y), yref):
                                fail("reset-rerun-differs-from-fresh", **info)
                        except Exception as e3:
                            fail("reset-rerun-raises", exc3=repr(e3)[:60], **info)
            # callback faults at every step, two successive faults
            for kstep in range(1, len(tref)):
                calls = [0]

                def cb(sys_, calls=calls, kstep=kstep):
                    calls[0] += 1
                    if calls[0] == kstep:
                        raise Fault("callback fault")
                a = mk(method, span, dt, dense, [0], None, Fault)
                cases += 1
                try:
                    a.integrate(callback=cb)
                    fail("callback-fault-not-raised", method=name, kstep=kstep)
                except E.FailedIntegration as e:
                    t = np.asarray(a.t)
                    if len(t) != kstep + 1 or not np.array_equal(t, tref[:kstep + 1]):
                        fail("callback-fault-prefix", method=name, kstep=kstep, n=len(t))
                    try:
                        a.integrate()
                        if abs(a.t[-1] - span[1]) > 1e-12:
                            fail("callback-fault-resume", method=name, kstep=kstep)
                    except Exception as e2:
                        fail("callback-fault-resume-raises", method=name, kstep=kstep, exc2=repr(e2.__cause__)[:60])
    # event-function faults at every position k (both directions, dense output on and off): the step whose events were being resolved is
    # not recorded, its interpolant is not kept, the run resumes and finds the events
    for span in ((0.0, 3.0), (0.0, -3.0)):
        for dense in (True, False):
            def count_calls():
                cnt = [0]

                def g(t, y, **kw):
                    cnt[0] += 1
                    return y[1] - 0.5
                a = mk(I.RK45CKSolver, span, 0.1, dense, [0], None, Fault)
                a.integrate(events=[g])
                return cnt[0], np.asarray(a.t), [float(e.t) for e in a.events]
            total, tref_e, evref = count_calls()
            for k in range(1, total + 1, 1 if req.get("tier") == "thorough" else 3):
                cnt = [0]

                def g(t, y, cnt=cnt, k=k, **kw):
                    cnt[0] += 1
                    if cnt[0] == k:
                        raise Fault("event function fault")
                    return y[1] - 0.5
                a = mk(I.RK45CKSolver, span, 0.1, dense, [0], None, Fault)
                cases += 1
                info = dict(span=span, dense=dense, k=k, N=total)
                try:
                    a.integrate(events=[g])
                    fail("event-fault-not-raised", **info)
                    continue
                except E.FailedIntegration as e:
                    if not isinstance(e.__cause__, Fault):
                        fail("event-fault-cause-lost", cause=repr(e.__cause__)[:60], **info)
                except Exception as e:
                    fail("event-fault-wrong-exception", got=repr(e)[:60], **info)
                    continue
                t = np.asarray(a.t)
                n = len(t)
                if n > len(tref_e) or not np.array_equal(t, tref_e[:n]):
                    fail("event-fault-prefix-not-consistent", n=n, **info)
                sol = a._OdeSystem__sol
                te = [float(x) for x in (sol.t_eval or [])]
                if dense and (len(te) != n - 1 or sorted(te) != sorted(float(x) for x in t[1:])):
                    fail("event-fault-dense-output-covers-other-steps", pieces=len(te), steps=n - 1, **info)
                if not dense and te and not any(abs(x - float(t[-1])) < 1e-12 for x in te) and n > 1:
                    fail("event-fault-kept-interpolants-do-not-end-at-the-current-time", **info)
                try:
                    a.integrate(events=[g])
                    if abs(a.t[-1] - span[1]) > 1e-12:
                        fail("event-fault-resume-does-not-reach-target", **info)
                    ev_now = [float(e.t) for e in a.events]
                    if len(ev_now) != len(evref) or any(abs(x - y) > 1e-6 for x, y in zip(ev_now, evref)):
                        fail("event-fault-resume-events-differ", got=ev_now, want=evref, **info)
                    if dense:
                        te = [float(x) for x in a.sol.t_eval]
                        if len(te) != len(a.t) - 1 or te != sorted(te):
                            fail("event-fault-resume-dense-output-miscounted-or-unordered", pieces=len(te), steps=len(a.t) - 1, **info)
                except Exception as e2:
                    fail("event-fault-resume-raises", exc2=repr(e2)[:80], **info)
    print(json.dumps(dict(cases=cases, failures=failures, bound="%d method/span configurations x dense on/off x every position k of a failing rhs call (RuntimeError-like, KeyboardInterrupt, ValueError) x resume x reset; callback faults at every step; event-function faults at every (third) position, both directions, dense on/off" % len(configs))))


if __name__ == "__main__":
    main()
