"""Runs under /venv/bin/python: bounded native event family for C07 (genuine / located / ordered / unique), C08 (none missed) and
C09 (terminal stop).  Harmonic oscillator y = (sin t, cos t) from (0, 1) (closed-form crossings), forward and backward, event
functions s * (h(t, y) - c) over 12 orders of magnitude of s, state / time / derivative dependent, 1..6 monitored at once, dense
output on and off, several integrator families.  Witness search only: never counted as proved."""
import json
import math
import sys
import warnings

import numpy as np

warnings.filterwarnings("ignore")


def exact_roots(kind, c, lo, hi):
    """all t in (lo, hi) with h(t) == c for h = sin (kind 0), cos (kind 1), t (kind 2)"""
    out = []
    if kind == 2:
        return [c] if lo < c < hi else []
    base = math.asin(c) if kind == 0 else math.acos(c)
    k0, k1 = int(math.floor(lo / (2 * math.pi))) - 1, int(math.ceil(hi / (2 * math.pi))) + 1
    for k in range(k0, k1 + 1):
        for r in ((base + 2 * math.pi * k, math.pi - base + 2 * math.pi * k) if kind == 0 else (base + 2 * math.pi * k, -base + 2 * math.pi * k)):
            if lo < r < hi and all(abs(r - x) > 1e-9 for x in out):
                out.append(r)
    return sorted(out)


def slope(kind, t):
    return math.cos(t) if kind == 0 else (-math.sin(t) if kind == 1 else 1.0)


def make_event(kind, c, s, direction=0, terminal=False, dstate=False):
    if dstate:
        # derivative dependent: dy0/dt - c  (= cos t - c on the exact solution): same roots as kind 1
        def g(t, y, dy, **kw):
            return s * (dy[0] - c)
        g.requires_dstate = True
        g.kind = 1
    elif kind == 2:
        def g(t, y, **kw):
            return s * (t - c)
        g.kind = 2
    else:
        def g(t, y, **kw):
            return s * (y[kind] - c)
        g.kind = kind
    g.c, g.s = c, s
    if direction:
        g.direction = direction
    if terminal:
        g.is_terminal = True
    g.want_direction, g.terminal = direction, terminal
    return g


def main():
    req = json.loads(sys.stdin.read())
    props = set(req.get("props") or ["C07", "C08", "C09"])
    thorough = req.get("tier") == "thorough"
    import desolver as de
    from monitor import watchdog
    watchdog.install(de)
    failures, cases = {}, [0]

    def fail(cl, **info):
        failures.setdefault(cl, [])
        if len(failures[cl]) < 3:
            failures[cl].append({k: (v if isinstance(v, (int, float, str, bool, list, tuple, type(None))) else repr(v)) for k, v in info.items()})

    def rhs(t, y, **kw):
        return np.stack([y[1], -y[0]])

    def system(method, span, dense, dt=0.1, tol=1e-9):
        a = de.OdeSystem(rhs, y0=np.array([0.0, 1.0]), dense_output=dense, t=span, dt=dt, rtol=tol, atol=tol)
        a.method = method
        return a

    methods = ["RK45CK", "RK4", "RK108"] + (["DOPRI45", "RadauIIA5", "ImplicitMidpoint", "ABAs5o6HSolver"] if thorough else ["ImplicitMidpoint"])
    # accuracy the closed-form comparisons can expect: the event is located on the cubic Hermite piece of the step, so it is as good as
    # that piece (RK108 takes steps of order 1: 1e-3; ImplicitMidpoint is sent through the step controller -- known finding F8 -- and
    # its trajectory is too far from the exact one for any closed-form comparison: None = compared with its own recorded trajectory only)
    tol_of = {"RK4": 1e-5, "RK108": 1e-3, "ImplicitMidpoint": None, "ABAs5o6HSolver": 1e-4, "RadauIIA5": 1e-5}
    spans = [(0.0, 6.0), (0.0, -6.0)]
    scales = [1e-6, 1e-3, 1.0, 1e3, 1e6] if not thorough else [10.0 ** k for k in range(-6, 7)]

    def expected(evs, span, stop=None):
        lo, hi = min(span), max(span)
        sgn = 1.0 if span[1] > span[0] else -1.0
        out = []
        for i, g in enumerate(evs):
            for r in exact_roots(g.kind, g.c, lo, hi):
                d = slope(g.kind, r) * g.s * sgn                 # crossing direction as met along the integration
                if g.want_direction == 0 or (g.want_direction > 0) == (d > 0):
                    out.append((r, i))
        out.sort(key=lambda x: sgn * x[0])
        if stop is not None:
            out = [x for x in out if sgn * x[0] <= sgn * stop + 1e-7]
        return out

    def gval(g, t, y):
        y = np.asarray(y, dtype=float)
        return float(g(t, y, rhs(t, y))) if getattr(g, "requires_dstate", False) else float(g(t, y))

    def check_run(a, evs, span, info, loc_tol, terminal_expected, exact_ok=True):
        sgn = 1.0 if span[1] > span[0] else -1.0
        rec = [(float(e.t), evs.index(e.event), np.asarray(e.y, dtype=float)) for e in a.events]
        t_end = float(a.t[-1])
        tr, yr = np.asarray(a.t, dtype=float), np.asarray(a.y, dtype=float)
        exp_all = expected(evs, span)
        first_term = next((x for x in exp_all if evs[x[1]].terminal), None)
        stopped = a.integration_status == "Integration terminated upon finding a triggered event."
        if "C07" in props:
            for k, (t, i, y) in enumerate(rec):
                g = evs[i]
                # the terminal record was taken on the interpolant of the rolled-back step; the dense output kept is the re-integration
                # up to the event: they agree to the integration tolerance, not to the last bit
                slack = 1e-12 if not (g.terminal and k == len(rec) - 1) else max(100 * loc_tol, 1e-6)
                if a.sol is not None and np.max(np.abs(np.asarray(a.sol(t), dtype=float) - y)) > slack:
                    fail("event-state-is-not-the-dense-solution", t=t, event=i, diff=float(np.max(np.abs(np.asarray(a.sol(t), dtype=float) - y))), **info)
                val = gval(g, t, y)
                # derivative-dependent events are located on the derivative of the cubic piece (one order less accurate)
                gtol = max(loc_tol, 1e-6) * (1e2 if getattr(g, "requires_dstate", False) else 1.0)
                if abs(val) > abs(g.s) * gtol:
                    fail("g-not-small-at-reported-event", t=t, event=i, g=float(val), **info)
                if not (min(span) - 1e-9 <= t <= max(span) + 1e-9) or sgn * t > sgn * t_end + 1e-9:
                    fail("event-outside-the-integrated-range", t=t, t_end=t_end, **info)
                # inside a recorded step whose ends show the sign change (or touch zero)
                j = int(np.searchsorted(sgn * tr, sgn * t, side="left"))
                j = min(max(j, 1), len(tr) - 1)
                if not (sgn * tr[j - 1] - 1e-12 <= sgn * t <= sgn * tr[j] + 1e-12):
                    fail("event-not-inside-a-recorded-step", t=t, step=[float(tr[j - 1]), float(tr[j])], **info)
                if exact_ok:
                    roots_i = exact_roots(g.kind, g.c, min(span) - 1e-6, max(span) + 1e-6)
                    etol = loc_tol * (1e2 if getattr(g, "requires_dstate", False) else 1.0)
                    if not roots_i or min(abs(t - r) for r in roots_i) > etol:
                        fail("event-far-from-the-exact-root", t=t, event=i, nearest=min(roots_i, key=lambda r: abs(t - r)) if roots_i else None, **info)
                    elif g.want_direction:
                        r = min(roots_i, key=lambda r_: abs(t - r_))
                        if (slope(g.kind, r) * g.s * sgn > 0) != (g.want_direction > 0):
                            fail("event-direction-incompatible", t=t, event=i, **info)
            ts = [sgn * t for (t, i, y) in rec]
            if any(ts[k] > ts[k + 1] + 1e-13 for k in range(len(ts) - 1)):
                fail("events-out-of-integration-order", times=[r[0] for r in rec], **info)
            for k in range(len(rec)):
                for m in range(k + 1, len(rec)):
                    if rec[k][1] == rec[m][1] and abs(rec[k][0] - rec[m][0]) < max(loc_tol, 1e-7):
                        fail("crossing-reported-twice", t1=rec[k][0], t2=rec[m][0], event=rec[k][1], **info)
        if "C08" in props:
            # the property's own oracle: a strict sign change of g between the two ends of a recorded step => an event of that function
            # with a compatible direction inside that step
            for i, g in enumerate(evs):
                vals = [gval(g, tr[k], yr[k]) for k in range(len(tr))]
                for k in range(len(tr) - 1):
                    if vals[k] * vals[k + 1] < 0:
                        upward = vals[k + 1] > vals[k]
                        if g.want_direction and (g.want_direction > 0) != upward:
                            continue
                        lo_, hi_ = min(tr[k], tr[k + 1]) - 1e-12, max(tr[k], tr[k + 1]) + 1e-12
                        if not any(j == i and lo_ <= t <= hi_ for (t, j, y) in rec):
                            fail("crossing-missed", step=[float(tr[k]), float(tr[k + 1])], g_at_ends=[vals[k], vals[k + 1]], event=i, event_scale=g.s, reported=[(x[0], x[1]) for x in rec][:8], **info)
        if "C09" in props and terminal_expected:
            tt = [x for x in rec if evs[x[1]].terminal]
            if exact_ok and first_term is not None and not stopped:
                fail("terminal-event-not-honoured", status=a.integration_status, first_terminal_root=first_term[0], **info)
            if not stopped:
                if tt:
                    fail("terminal-event-recorded-but-run-not-stopped", **info)
                return
            if not a.success:
                fail("terminal-status-not-a-success", status=a.integration_status, **info)
            if len(tt) != 1:
                fail("not-exactly-one-terminal-event", n=len(tt), **info)
            elif rec[-1][1] != tt[0][1] or rec[-1][0] != tt[0][0]:
                fail("terminal-event-is-not-the-last-record", **info)
            else:
                if abs(t_end - tt[0][0]) > 1e-12 * max(1.0, abs(t_end)):
                    fail("last-time-is-not-the-event-time", t_end=t_end, t_event=tt[0][0], **info)
                if exact_ok and first_term is not None and abs(tt[0][0] - first_term[0]) > max(loc_tol, 1e-6):
                    fail("stopped-at-a-later-terminal-event", t_event=tt[0][0], first=first_term[0], **info)
                g = evs[tt[0][1]]
                val = gval(g, t_end, yr[-1])
                # needs the re-integrated state to agree with the interpolant the root was found on: only where the method meets its tolerance
                if exact_ok and abs(val) > abs(g.s) * max(10 * loc_tol, 1e-6):
                    fail("last-state-not-on-the-event-surface", g=float(val), **info)
            if np.any(sgn * np.diff(tr) <= 0):
                fail("trajectory-not-monotone-after-terminal-stop", **info)
            if a.sol is not None:
                te = [float(x) for x in a.sol.t_eval]
                if te != sorted(te) or len(te) != len(tr) - 1:
                    fail("dense-output-unordered-or-miscounted-after-terminal-stop", n_pieces=len(te), n_steps=len(tr) - 1, **info)
                else:
                    # every piece reproduces the recorded states at its ends and is the one that answers queries inside its step
                    bad = 0.0
                    for k in range(len(tr)):
                        bad = max(bad, float(np.max(np.abs(np.asarray(a.sol(tr[k]), dtype=float) - yr[k]))))
                    if bad > 1e-12:
                        fail("dense-output-does-not-reproduce-the-recorded-states-after-terminal-stop", err=bad, **info)
                    if exact_ok:
                        err = max(float(np.max(np.abs(np.asarray(a.sol(t)) - np.array([math.sin(t), math.cos(t)])))) for t in np.linspace(span[0], t_end, 23))
                        if err > max(100 * loc_tol, 1e-5):
                            fail("dense-output-wrong-after-terminal-stop", err=err, **info)

    # ---------------------------------------------------------------- families
    for method in methods:
        loc = tol_of.get(method, 1e-6)
        exact_ok = loc is not None
        loc = loc if exact_ok else 1e-2
        for span in spans:
            for dense in (False, True):
                base = dict(method=method, span=list(span), dense=dense)
                # (a) one event, scales, kinds
                for s in scales:
                    for kind, c in ((0, 0.5), (1, -0.3), (2, 1.2345 if span[1] > 0 else -1.2345)):
                        evs = [make_event(kind, c, s)]
                        a = system(method, span, dense, tol=1e-9 if method not in ('RK4', 'ImplicitMidpoint', 'ABAs5o6HSolver') else 1e-6)
                        cases[0] += 1
                        try:
                            a.integrate(events=evs)
                        except Exception as e:
                            fail("integration-with-events-raised", error=repr(e)[:200], scale=s, kind=kind, **base)
                            continue
                        check_run(a, evs, span, dict(base, scale=s, kind=kind, family="single"), loc, False, exact_ok)
                # (b) several events at once, directions
                many = [make_event(0, 0.5, 1.0), make_event(1, -0.3, 10.0, direction=1), make_event(0, -0.2, 1e-3, direction=-1), make_event(2, 2.5 if span[1] > 0 else -2.5, 1e3),
                        make_event(1, 0.7, 1.0, dstate=True), make_event(0, 0.9, 5.0)]
                for k in (2, 4, 6) if not thorough else (1, 2, 3, 4, 5, 6):
                    evs = many[:k]
                    a = system(method, span, dense, tol=1e-9 if method not in ('RK4', 'ImplicitMidpoint', 'ABAs5o6HSolver') else 1e-6)
                    cases[0] += 1
                    try:
                        a.integrate(events=evs)
                    except Exception as e:
                        fail("integration-with-events-raised", error=repr(e)[:200], n_events=k, **base)
                        continue
                    check_run(a, evs, span, dict(base, n_events=k, family="many"), loc, False, exact_ok)
                # (c) terminal mixes + continuation without the terminal event
                if "C09" in props or "C07" in props:
                    for mix in ([make_event(0, 0.5, 1.0, terminal=True)], [make_event(1, -0.3, 1.0), make_event(0, 0.5, 100.0, terminal=True)],
                                [make_event(0, 0.5, 1.0, terminal=True), make_event(1, -0.3, 1.0, terminal=True), make_event(2, 0.2 if span[1] > 0 else -0.2, 1.0)]):
                        a = system(method, span, dense, tol=1e-9 if method not in ('RK4', 'ImplicitMidpoint', 'ABAs5o6HSolver') else 1e-6)
                        cases[0] += 1
                        try:
                            a.integrate(events=mix)
                        except Exception as e:
                            fail("integration-with-events-raised", error=repr(e)[:200], family="terminal", **base)
                            continue
                        check_run(a, mix, span, dict(base, family="terminal", n_events=len(mix)), loc, True, exact_ok)
                        if "C09" in props:
                            n_before = len(a.events)
                            others = [g for g in mix if not g.terminal]
                            try:
                                a.integrate(events=others or None)
                                if abs(float(a.t[-1]) - span[1]) > 1e-9:
                                    fail("continuation-does-not-reach-the-end", t_end=float(a.t[-1]), **base)
                                tr = np.asarray(a.t, dtype=float)
                                if np.any((1 if span[1] > span[0] else -1) * np.diff(tr) <= 0):
                                    fail("trajectory-not-monotone-after-continuation", **base)
                                if a.sol is not None:
                                    te = [float(x) for x in a.sol.t_eval]
                                    if te != sorted(te) or len(te) != len(tr) - 1:
                                        fail("dense-output-unordered-or-miscounted-after-continuation", n_pieces=len(te), n_steps=len(tr) - 1, **base)
                                err = float(np.max(np.abs(np.asarray(a.y[-1]) - np.array([math.sin(span[1]), math.cos(span[1])]))))
                                if err > max(1e3 * loc, 1e-4):
                                    fail("continuation-ends-at-a-wrong-state", err=err, **base)
                            except Exception as e:
                                fail("continuation-raised", error=repr(e)[:200], **base)
                            # continuing with the *same* terminal event still monitored: it must not be re-reported at the point it stopped at
                            b = system(method, span, dense, tol=1e-9 if method not in ('RK4', 'ImplicitMidpoint', 'ABAs5o6HSolver') else 1e-6)
                            try:
                                b.integrate(events=mix[:1] if mix[0].terminal else mix[-1:])
                                t_stop = float(b.t[-1])
                                for _ in range(3):
                                    b.integrate(events=mix[:1] if mix[0].terminal else mix[-1:])
                                tts = [float(e.t) for e in b.events]
                                if any(abs(tts[i] - tts[j]) < 1e-6 for i in range(len(tts)) for j in range(i + 1, len(tts))):
                                    fail("continuation-retriggers-the-terminal-event-it-stopped-at", times=tts[:6], **base)
                            except Exception as e:
                                fail("continuation-raised", error=repr(e)[:200], same_event=True, **base)
    # (a') long runs: crossings at |t| >= 8, where the spacing of doubles exceeds an absolute tolerance of a few eps (defect F9b)
    for span in ((0.0, 20.0), (0.0, -20.0)):
        for s_ in (1.0, 1e3, 1e6):
            for kind, c in ((0, 0.5), (1, -0.3)):
                evs = [make_event(kind, c, s_)]
                a = system("RK45CK", span, False, tol=1e-9)
                cases[0] += 1
                try:
                    a.integrate(events=evs)
                except Exception as e:
                    fail("integration-with-events-raised", error=repr(e)[:200], scale=s_, kind=kind, span=list(span))
                    continue
                check_run(a, evs, span, dict(method="RK45CK", span=list(span), dense=False, scale=s_, kind=kind, family="long"), 1e-6, False, True)
    # (a-large-t) the same oscillator started at |t0| = 1e8, 1e9: the step (0.05) times eps**0.5 is below the spacing of doubles there; crossings
    # must still be reported, terminal ones must still stop the run (defect F34: the samples that classify a crossing collapsed onto the root)
    if "C08" in props or "C09" in props:
        for t0_ in (1e8, -1e9):
            for terminal in (False, True):
                def g_(t, y, **kw):
                    return y[0] - 0.5
                g_.is_terminal = terminal
                a = de.OdeSystem(rhs, y0=np.array([1.0, 0.0]), t=(t0_, t0_ + 10.0), dt=0.05, rtol=1e-9, atol=1e-9)
                a.method = "RK45CK"
                cases[0] += 1
                try:
                    a.integrate(events=[g_])
                except Exception as e:
                    fail("integration-with-events-raised", error=repr(e)[:200], t0=t0_, family="large-t")
                    continue
                gv = np.asarray(a.y)[:, 0] - 0.5
                changes = int(np.sum(gv[:-1] * gv[1:] < 0))
                if terminal:
                    if a.integration_status != "Integration terminated upon finding a triggered event." or len(a.events) != 1:
                        fail("terminal-event-missed-at-large-t", t0=t0_, status=a.integration_status, n_events=len(a.events))
                elif len(a.events) < changes or changes < 2:
                    fail("crossing-missed-at-large-t", t0=t0_, n_events=len(a.events), sign_changes_between_recorded_steps=changes)
    # (a'') sub-divided steps: a Richardson-extrapolated integrator adds one interpolant per sub-step; a terminal stop (roll-back of the
    # step) must leave a dense output that is ordered, ends at the event and reproduces the recorded states (defect F30, repaired)
    if "C09" in props or "C07" in props:
        from desolver import integrators as I_
        for base_cls, levels in ((I_.RK4Solver, 3), (I_.RK45CKSolver, 2)):
            for span in spans:
                for dense in (True, False):
                    a = system(I_.generate_richardson_integrator(base_cls, levels), span, dense, dt=0.3, tol=1e-8)
                    mix = [make_event(0, 0.5, 1.0, terminal=True)]
                    info = dict(method="Richardson(%s,%d)" % (base_cls.__name__, levels), span=list(span), dense=dense, family="sub-divided-steps")
                    cases[0] += 1
                    try:
                        a.integrate(events=mix)
                    except Exception as e:
                        fail("integration-with-events-raised", error=repr(e)[:200], **info)
                        continue
                    sg = 1.0 if span[1] > span[0] else -1.0
                    if a.integration_status != "Integration terminated upon finding a triggered event." or len(a.events) != 1:
                        fail("terminal-event-not-reported-with-sub-divided-steps", status=a.integration_status, n_events=len(a.events), **info)
                        continue
                    if a.sol is not None:
                        te = np.array([float(x) for x in a.sol.t_eval])
                        if np.any(np.diff(te) <= 0):
                            fail("dense-output-out-of-order-after-terminal-stop", t_eval_tail=[float(x) for x in te[-5:]], **info)
                        elif sg * (te[-1] if sg > 0 else te[0]) > sg * float(a.t[-1]) + 1e-9:
                            fail("dense-output-covers-more-than-the-run-after-terminal-stop", t_end=float(a.t[-1]), **info)
                        else:
                            bad = max(float(np.max(np.abs(np.asarray(a.sol(t)) - y))) for t, y in zip(a.t, a.y))
                            if bad > 1e-6:
                                fail("dense-output-does-not-reproduce-the-recorded-states-after-terminal-stop", err=bad, **info)
    # (d0) a *shallow* event (slope 1e-6) crossing 1e-10 before a step boundary: one crossing, one record.  Known finding F35: the next step
    # starts inside the band |g| <= eps, the absolute acceptance test of the root finder certifies its first point, the direction samples
    # reach back over the crossing, and the two times differ by more than the duplicate width eps**0.7
    if "C07" in props:
        def rhs0(t, y, **kw):
            return np.array([1.0])

        def shallow(t, y, **kw):
            return 1e-6 * (y[0] - (1.0 - 1e-10))
        a = de.OdeSystem(rhs0, y0=np.array([0.0]), t=(0.0, 2.0), dt=0.125, rtol=1e-3, atol=1e-3)
        a.method = "RK4"
        cases[0] += 1
        try:
            a.integrate(events=[shallow])
            if len(a.events) != 1:
                fail("shallow-crossing-just-before-a-step-boundary-reported-twice", times=[float(e.t) for e in a.events])
        except Exception as e:
            fail("integration-with-events-raised", error=repr(e)[:200], family="shallow-boundary")
    # (d1) the same event function *objects* given to a second system (another initial state, another direction, dense output on) and to the
    # first one again after reset(): each run reports the crossings of its own solution (nothing about an earlier run's solution is kept)
    def osc(t, y, **kw):
        return np.stack([y[1], -y[0]])

    def g_shared(t, y, **kw):
        return y[0] - 0.5
    shared = [g_shared]

    def crossings_of(a):
        ys = np.asarray(a.y)[:, 0] - 0.5
        return int(np.sum(ys[:-1] * ys[1:] < 0))
    try:
        cases[0] += 1
        a = de.OdeSystem(osc, y0=np.array([1.0, 0.0]), t=(0.0, 10.0), dt=0.1, rtol=1e-8, atol=1e-8)
        a.method = "RK45CK"
        a.integrate(events=shared)
        b = de.OdeSystem(osc, y0=np.array([0.0, 2.0]), t=(0.0, -10.0), dt=0.1, rtol=1e-8, atol=1e-8, dense_output=True)
        b.method = "RK8713M"
        b.integrate(events=shared)
        n_a = len(a.events)
        a.reset()
        a.integrate(events=shared)
        for label, sys_, want in (("second-system", b, crossings_of(b)), ("first-system-after-reset", a, n_a)):
            if len(sys_.events) != want:
                fail("event-functions-reused-by-another-run-miss-its-crossings", run=label, reported=len(sys_.events), sign_changes=want)
    except Exception as e:
        fail("integration-with-events-raised", error=repr(e)[:200], family="shared-event-functions")
    # (d) crossings exactly on step boundaries, fixed step (y' = 1): two events sharing a step, one root on the boundary
    def rhs1(t, y, **kw):
        return np.array([1.0])
    for span in ((0.0, 1.0), (0.0, -1.0)):
        sg = 1.0 if span[1] > 0 else -1.0
        for dense in (False, True):
            for cs in ((0.5,), (0.5, 0.4), (0.4, 0.5), (0.25, 0.5, 0.75), (0.5, 0.5)):
                evs = []
                for c in cs:
                    def g(t, y, c=c, **kw):
                        return y[0] - sg * c
                    evs.append(g)
                a = de.OdeSystem(rhs1, y0=np.array([0.0]), dense_output=dense, t=span, dt=0.25, rtol=1e-3, atol=1e-3)
                a.method = "RK4"
                cases[0] += 1
                try:
                    a.integrate(events=evs)
                except Exception as e:
                    fail("integration-with-events-raised", error=repr(e)[:200], family="boundary", span=list(span))
                    continue
                rec = [(float(e.t), evs.index(e.event)) for e in a.events]
                info = dict(family="boundary", span=list(span), dense=dense, levels=list(cs), reported=rec)
                if "C07" in props:
                    for k in range(len(rec)):
                        for m in range(k + 1, len(rec)):
                            if rec[k][1] == rec[m][1] and abs(rec[k][0] - rec[m][0]) < 1e-6:
                                fail("crossing-reported-twice", **info)
                if "C08" in props:
                    for i, c in enumerate(cs):
                        if not any(j == i and abs(t - sg * c) < 1e-6 for (t, j) in rec):
                            fail("crossing-missed", exact_root=sg * c, event=i, **info)
    # (e) infinite target with a terminal event
    if "C09" in props:
        for tf in (np.inf,):
            a = de.OdeSystem(rhs, y0=np.array([0.0, 1.0]), dense_output=False, t=(0.0, tf), dt=0.1, rtol=1e-9, atol=1e-9)
            a.method = "RK45CK"
            ev = make_event(0, 0.5, 1.0, terminal=True)
            cases[0] += 1
            try:
                a.integrate(events=[ev])
                if abs(float(a.t[-1]) - math.asin(0.5)) > 1e-6 or not a.success:
                    fail("infinite-target-terminal-stop-wrong", t_end=float(a.t[-1]))
            except Exception as e:
                fail("integration-with-events-raised", error=repr(e)[:200], family="infinite-target")
    json.dump(dict(bound="harmonic oscillator and y' = 1; %d methods x 2 directions x dense on/off x %d scales x 3 kinds; 1..6 simultaneous events; terminal mixes with continuation; boundary crossings" % (len(methods), len(scales)),
                   cases=cases[0], failures=failures), sys.stdout)


if __name__ == "__main__":
    main()
