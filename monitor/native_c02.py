"""Runs under /venv/bin/python: bounded native clause of C02 -- accepted steps satisfy the defining equations in floating point."""
import json
import sys
import warnings

import numpy as np

warnings.filterwarnings("ignore")


def make_rhs(rng, dim):
    W = rng.normal(size=(dim, dim)) * 0.5
    v = rng.normal(size=dim)

    def rhs(t, y, **kw):
        return np.tanh(W @ y) * 0.7 + np.sin(t) * v - 0.3 * y
    return rhs


def main():
    req = json.loads(sys.stdin.read())
    from desolver import integrators as I
    from desolver.differential_system import DiffRHS
    from desolver import exception_types as E
    rng = np.random.default_rng(req.get("seed", 0))
    reps = 1 if req["tier"] == "quick" else 4
    failures, cases = [], 0
    dtypes = [np.float64, np.float32] + ([np.longdouble] if req["tier"] == "thorough" else [])
    for cls in I.explicit_methods() + I.implicit_methods():
        name = cls.__name__
        splitting = issubclass(cls, I.ExplicitSymplecticIntegrator)
        for dtype in dtypes:
            eps = float(np.finfo(dtype).eps)
            for _ in range(reps):
                for sign in (1, -1):
                    dim = 4
                    rhs = make_rhs(rng, dim)
                    f = DiffRHS(rhs)
                    y0 = rng.normal(size=dim).astype(dtype)
                    t0 = dtype(0.3)
                    h = dtype(sign * 0.05)
                    tol = max(1e-9, 64 * eps)
                    integ = cls(y0.shape, dtype=dtype, rtol=dtype(tol), atol=dtype(tol))
                    try:
                        integ.is_adaptive = False
                    except Exception:
                        pass
                    try:
                        out = integ(f, t0, y0, {}, h)
                    except E.FailedToMeetTolerances:
                        continue
                    dt, dy = out[1]
                    cases += 1
                    T = np.asarray(cls.tableau_intermediate, dtype=np.longdouble)
                    y0l, hl, t0l = y0.astype(np.longdouble), np.longdouble(dt), np.longdouble(t0)
                    if splitting:
                        acc = np.zeros(dim, dtype=np.longdouble)
                        cur = t0l
                        kick = np.asarray(integ.kick_mask, dtype=np.longdouble)
                        drift = 1 - kick
                        for row in T:
                            k = rhs(cur, y0l + acc)
                            acc = acc + hl * k * (row[1] * drift + row[2] * kick)
                            cur = cur + hl * row[1]
                        err = float(np.max(np.abs(acc - dy)))
                        if err > 200 * eps * (1 + float(np.max(np.abs(acc)))):
                            failures.append(dict(method=name, dtype=np.dtype(dtype).name, h=float(dt), clause="splitting composition", err=err))
                        continue
                    b = np.asarray(cls.tableau_final, dtype=np.longdouble)[0, 1:]
                    K = np.asarray(integ.stage_values, dtype=np.longdouble)           # (dim, s)
                    s = T.shape[0]
                    res = 0.0
                    for i in range(s):
                        Yi = y0l + hl * (K @ T[i, 1:])
                        res = max(res, float(np.max(np.abs(K[:, i] - rhs(t0l + T[i, 0] * hl, Yi)))))
                    inc = hl * (K @ b)
                    err = float(np.max(np.abs(inc - dy)))
                    explicit = bool(integ.is_explicit)
                    lim_res = 500 * eps * (1 + float(np.max(np.abs(K)))) if explicit else 50 * tol * (1 + float(np.max(np.abs(K))))
                    if res > lim_res:
                        failures.append(dict(method=name, dtype=np.dtype(dtype).name, h=float(dt), clause="stage equations", residual=res, limit=lim_res))
                    if err > 500 * eps * (1 + float(np.max(np.abs(inc)))):
                        failures.append(dict(method=name, dtype=np.dtype(dtype).name, h=float(dt), clause="increment h*sum(b k)", err=err))
    print(json.dumps(dict(cases=cases, failures=failures,
                          bound="32 shipped methods x %d dtypes x %d random smooth non-autonomous 4-d systems x h = +-0.05" % (len(dtypes), reps))))


if __name__ == "__main__":
    main()
