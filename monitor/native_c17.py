"""Runs under /venv/bin/python against /repo's working tree.

mode=replay : evaluate one contract clause of C17 natively on concrete inputs.
mode=enum   : bounded cross-check (never counted as proved): all strictly increasing arrays of length 1..L over a
              G-point grid, all queries on the refined grid; scalar and vector bisection against the specification.
mode=hermite: random cubics, both orientations: end values / slopes / exactness / grad (bounded).
"""
import json
import sys
import itertools
import random

import numpy as np


def spec_index(arr, val):
    for i, a in enumerate(arr):
        if a >= val:
            return i
    return len(arr) - 1


def post_ok(arr, val, r):
    n = len(arr)
    if not (0 <= r < n):
        return False
    if any(not (arr[k] < val) for k in range(r)):
        return False
    return arr[r] >= val or r == n - 1


def main():
    req = json.loads(sys.stdin.read())
    from desolver.utilities import utilities as U
    from desolver.utilities.interpolation import CubicHermiteInterp
    mode = req["mode"]
    if mode == "replay":
        fn = req["function"]
        if fn in ("search_bisection", "search_bisection_vec"):
            arr = [float.fromhex(x) for x in req["array"]]
            val = float.fromhex(req["val"])
            if fn == "search_bisection":
                r = int(U.search_bisection(arr, val))
            else:
                r = int(U.search_bisection_vec(np.array(arr), np.array([val]))[0])
            ok = post_ok(arr, val, r)
            print(json.dumps(dict(returned=r, expected=spec_index(arr, val), clause_value=bool(ok), array=arr, val=val)))
            return
        if fn in ("CubicHermiteInterp.__call__", "CubicHermiteInterp.grad"):
            g = {k: float.fromhex(v) for k, v in req["inputs"].items()}
            a, b, c, d = g.get("a", 0.0), g.get("b", 0.0), g.get("c", 0.0), g.get("d", 0.0)
            P = lambda x: ((a * x + b) * x + c) * x + d
            dP = lambda x: (3 * a * x + 2 * b) * x + c
            t0, t1, x = g["t0"], g["t1"], g["x"]
            if "p0" in g:
                h = CubicHermiteInterp(t0, t1, g["p0"], g["p1"], g["m0"], g["m1"])
            else:
                h = CubicHermiteInterp(t0, t1, P(t0), P(t1), dP(t0), dP(t1))
            got = float(h(x)) if fn.endswith("__call__") else float(h.grad(x))
            if "a" not in g:
                # end-value / end-slope clauses on arbitrary data
                e0, e1 = (g["p0"], g["p1"]) if fn.endswith("__call__") else (g["m0"], g["m1"])
                ok = (x != t0 or got == e0) and (x != t1 or got == e1)
                print(json.dumps(dict(returned=got, expected_at_t0=e0, expected_at_t1=e1, clause_value=bool(ok))))
                return
            want = req.get("want")
            if want is None:
                want = P(x) if fn.endswith("__call__") else dP(x)
            else:
                want = float.fromhex(want)
            scale = max(1.0, abs(want), abs(a * x ** 3), abs(b * x * x), abs(c * x), abs(d))
            ok = abs(got - want) <= 1e-9 * scale * max(1.0, abs((x - t0) / (t1 - t0)) ** 3)
            print(json.dumps(dict(returned=got, expected=want, clause_value=bool(ok))))
            return
        raise SystemExit("unknown function " + fn)
    if mode == "enum":
        L, G = req["max_len"], req["grid"]
        grid = [float(i) for i in range(G)]
        queries = [i / 2.0 - 1.0 for i in range(2 * G + 3)]
        cases = 0
        distinct = 0
        failures = []
        for n in range(1, L + 1):
            for arr in itertools.combinations(grid, n):
                distinct += 1
                arr_l = list(arr)
                arr_np = np.array(arr_l)
                rv = U.search_bisection_vec(arr_np, np.array(queries))
                for q, r2 in zip(queries, rv):
                    cases += 1
                    r1 = int(U.search_bisection(arr_l, q))
                    want = spec_index(arr_l, q)
                    if r1 != want or int(r2) != want:
                        if len(failures) < 5:
                            failures.append(dict(array=arr_l, val=q, scalar=r1, vector=int(r2), expected=want))
        print(json.dumps(dict(cases=cases, arrays=distinct, failures=failures)))
        return
    if mode == "hermite":
        rng = random.Random(req.get("seed", 0))
        n = req["n"]
        failures = []
        for k in range(n):
            a, b, c, d = [rng.uniform(-3, 3) for _ in range(4)]
            t0 = rng.uniform(-5, 5)
            t1 = t0 + rng.choice([-1, 1]) * rng.uniform(0.1, 3)
            P = lambda x: ((a * x + b) * x + c) * x + d
            dP = lambda x: (3 * a * x + 2 * b) * x + c
            shape = rng.choice([(), (3,), (2, 2)])
            w = np.ones(shape) if shape else 1.0
            h = CubicHermiteInterp(t0, t1, P(t0) * w, P(t1) * w, dP(t0) * w, dP(t1) * w)
            for x in [t0, t1, t0 + 0.3 * (t1 - t0), t0 - 0.7 * (t1 - t0), t1 + 1.3 * (t1 - t0)]:
                e1 = float(np.max(np.abs(h(x) - P(x) * w)))
                e2 = float(np.max(np.abs(h.grad(x) - dP(x) * w)))
                tol = 1e-9 * max(1.0, abs(P(x)), abs(dP(x))) * 50
                if e1 > tol or e2 > tol:
                    if len(failures) < 5:
                        failures.append(dict(coeffs=[a, b, c, d], t0=t0, t1=t1, x=x, err_value=e1, err_grad=e2))
        print(json.dumps(dict(cases=n * 5, failures=failures)))
        return
    raise SystemExit("unknown mode")


if __name__ == "__main__":
    main()
