#!/bin/sh
# setup_cmd: builds nothing; verifies the tooling the checks rely on is present (offline).
set -e
cd "$(dirname "$0")"
PY=python3-vt
command -v $PY >/dev/null 2>&1 || PY=/opt/veriftools/pyvenv/bin/python
$PY -c "import z3, sympy, jsonschema; print('z3', z3.get_version_string(), 'sympy', sympy.__version__)"
/venv/bin/python -c "import sys; sys.path.insert(0, '${VERIF_REPO:-/repo}'); import desolver, numpy, scipy; print('desolver from', desolver.__file__)" 2>&1 | tail -1
mkdir -p evidence replays
chmod +x check tools/*.sh 2>/dev/null || true
echo setup-ok
