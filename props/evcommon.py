"""Shared driver of the three event properties C07, C08, C09: verification jobs in parallel processes, known-finding filter,
bounded native event family, triage."""
from pyvc import source, solver
from . import common, integrate_core as IC, C03

F = IC.F
ASSUME_EVENTS = [
    "event functions g_k(t, y) are uninterpreted (any scale, any dependence); the dense solution is a list of pieces with uninterpreted values piece_value(id, t)",
    "integrate() with events is verified with dense output off (step interpolants pruned to the last two) in both time directions, and with dense output kept (one piece per recorded step) for the configurations listed in the job list; the remaining dense configurations are in the thorough tier",
    "'within tolerance of a true root of g along the exact trajectory' compares with the exact ODE solution: numerical analysis, not a contract on code (bounded native family against closed-form solutions only)",
    "the recursive integrate(root) at a terminal event is replaced by integrate's own contract (proved in this run for events None, no callbacks)",
    "one DenseOutput object serves runs in one time direction only (a backward call after a forward one on the same system is outside the contract)",
]


def obligations_of(reg, R, jobs, workers=None):
    for j in jobs:
        j.setdefault("timeout_ms", reg.timeout_ms)
    summ = common.run_jobs(reg, jobs, workers)
    R.extra_cov["jobs"] = summ
    return summ


def finish(R, reg, native_props, tier, native_name):
    PID = R.pid
    known_refuted = []
    for ob in list(reg.obligations):
        if not ob.discharged and ob.kind != "cover":
            e = R.kf.match(PID, ob.name)
            if e:
                reg.obligations.remove(ob)
                ob.kf = e
                known_refuted.append(ob)
    nat = None
    try:
        nat = common.run_native("monitor/native_events.py", dict(tier=tier, props=native_props), timeout=2400)
        R.bounded.append(dict(name=native_name, bound=nat["bound"], cases=nat["cases"], failing_clauses={k: len(v) for k, v in nat["failures"].items()}, label="bounded"))
    except Exception as e:
        R.notes.append("native family could not run: %r" % (e,))
    C03.triage(R, reg, nat)
    for e in R.kf.for_property(PID):
        hit = [o for o in known_refuted if getattr(o, "kf", None) is e]
        nat_hit = nat and any(cl in nat["failures"] for cl in e.get("native_clauses", []))
        R.known(e, bool(hit) or bool(nat_hit), "obligations %s; native %s" % ([o.name for o in hit[:2]], [cl for cl in e.get("native_clauses", []) if nat and cl in nat["failures"]]))
    R.extra_cov["known_finding_obligations"] = [o.to_json() for o in known_refuted][:20]
    return R.finish()


def configs(tier, which):
    """(n, terminals, direction, dense) configurations of the integrate-with-events harness per property and tier."""
    out = []
    if which == "nonterminal":
        out = [(1, (False,), 1, False), (1, (False,), -1, False), (2, (False, False), 1, False)]
        if tier == "thorough":
            out += [(2, (False, False), -1, False), (1, (False,), 1, True), (1, (False,), -1, True)]
    elif which == "terminal":
        out = [(1, (True,), 1, False), (1, (True,), -1, False), (1, (True,), 1, True)]
        if tier == "thorough":
            out += [(2, (False, True), 1, False), (2, (True, True), 1, False), (2, (False, True), -1, False), (2, (True, False), -1, False), (1, (True,), -1, True), (2, (False, True), 1, True)]
    return out
