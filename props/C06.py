"""C06 -- dense output is a consistent continuous extension of the computed trajectory.

E1: (a) DenseOutput under contract (props/dense.py): add_interpolant keeps the ordering/coverage invariant and the cache invariant,
lookup (scalar, gradient, vector) answers every query inside the integrated range from the piece whose interval contains it,
remove_interpolant drops the oldest / newest piece per run direction; (b) integrate() with dense output kept, both run directions
(props/integrate_core.py, the real add_interpolant executed on symbolic-length lists): exactly one piece per recorded step, the piece
of step i spanning [t_i, t_{i+1}], on normal and exceptional exit and for continued calls;
(c) TableauIntegrator.dense_output builds the Hermite piece from (t, y, f) at both ends of the last step, and the integrators'
__call__ leave initial_rhs == rhs(t, y), final_rhs == rhs(t + dTime, y + dState) (uninterpreted rhs, LinComb domain), whatever
point the previous call ended at; with C17 (end values / end slopes / cubic exactness of the Hermite piece) this gives: recorded
states reproduced at recorded times, C^1 joins with slopes equal to the right-hand side.  O(h^4) between nodes: cubic exactness
(C17) + Peano kernel theorem (A8), constant not computed.  Backward-in-time lookups: defect F11, repaired (obligations discharged).
"""
import z3

from pyvc import source, solver
from pyvc.executor import Executor, State, Ctx, Raised, Unsupported
from pyvc.values import LinComb, Poly, UFunc, Opaque, Ref
from . import common, dense as DN, integrate_core as IC, intcall, e2common, C02, C03

PID = "C06"
FT = "desolver/integrators/integrator_types.py"


def check_dense_output_method(reg, src):
    out = []
    for cls in ("TableauIntegrator", "ExplicitSymplecticIntegrator"):
        fi = src.func(FT, cls + ".dense_output")
        ex = Executor(src, reg, prop=PID)
        made = []

        def new_piece(ex_, st_, ctx, args, kwargs):
            r = st_.new_obj("CubicHermiteInterp", fields=dict(zip(("t0", "t1", "p0", "p1", "m0", "m1"), args)))
            made.append(r)
            return r
        ex.call_hooks["CubicHermiteInterp"] = new_piece
        ex.call_hooks["new:CubicHermiteInterp"] = new_piece
        st = State()
        t, dT, y, dS, k0, k1 = Poly.sym("t"), Poly.sym("dT"), LinComb.sym("y"), LinComb.sym("dS"), LinComb.sym("k_start"), LinComb.sym("k_end")
        selfobj = st.new_obj(cls, fields=dict(initial_time=t, dTime=dT, initial_state=y, dState=dS, initial_rhs=k0, final_rhs=k1))
        ctx = Ctx(fi, None, fi.cls, tag=cls + ".dense_output")
        paths = ex.call_function(fi, [selfobj], {}, st, ctx)
        ok = False
        if len(paths) == 1 and not isinstance(paths[0][1], Raised):
            s, (t_end, piece) = paths[0]
            f = s.obj(piece).fields if isinstance(piece, Ref) else {}
            ok = t_end == t + dT and f.get("t0") == t and f.get("t1") == t + dT and f.get("p0") == y and f.get("p1") == y + dS and f.get("m0") == k0 and f.get("m1") == k1
        reg.ground("%s/%s/hermite-piece-of-the-last-step" % (PID, ctx.tag), "post", cls + ".dense_output", bool(ok), backend="symbolic-exec",
                   detail="returns (t + dTime, CubicHermiteInterp(t, t + dTime, y, y + dState, initial_rhs, final_rhs))")
        out.append(fi)
    return out


def check_call_slopes(reg, src):
    """RungeKuttaIntegrator.__call__ / ExplicitSymplecticIntegrator.__call__: the slopes kept for dense output are the right-hand side at
    the two ends of the returned step -- from a fresh integrator, from a cache that describes (t, y), and from a stale cache."""
    out = []
    t, y, h = Poly.sym("t"), LinComb.sym("y"), Poly.sym("h")
    rhs = UFunc("rhs", "lincomb")
    for cache in ("none", "valid", "stale", "stale-same-time"):
        ex = Executor(src, reg, prop=PID)
        fi = src.func(FT, "RungeKuttaIntegrator.__call__")

        def step_stub(ex_, st_, ctx, args, kwargs):
            # contract of RungeKuttaIntegrator.step for an explicit table (proved in C02: dState formula, final_rhs at the step end;
            # final_time / final_state: proved below by check_step_end_point)
            selfref, t_, y_, ts = args[0], args[2], args[3], args[5]
            o = st_.obj(selfref).fields
            dS = LinComb.app("Phi", t_, y_, ts)
            o["dTime"], o["dState"] = ts, dS
            o["final_rhs"] = LinComb.app("rhs", t_ + ts, y_ + dS)
            o["final_time"], o["final_state"] = t_ + ts, y_ + dS
            return (ts, (ts, dS))
        ex.call_hooks["RungeKuttaIntegrator.step"] = step_stub
        st = State()
        selfobj = intcall.rk_self(st, False, False)
        o = st.obj(selfobj).fields
        o["final_time"], o["final_state"] = None, None
        tp, yp = Poly.sym("t_prev_end"), LinComb.sym("y_prev_end")
        if cache == "valid":
            o["final_rhs"], o["final_time"], o["final_state"] = LinComb.app("rhs", t, y), t, y
        elif cache == "stale":
            o["final_rhs"], o["final_time"], o["final_state"] = LinComb.app("rhs", tp, yp), tp, yp
        elif cache == "stale-same-time":
            o["final_rhs"], o["final_time"], o["final_state"] = LinComb.app("rhs", t, yp), t, yp
        ctx = Ctx(fi, None, fi.cls, tag="RungeKuttaIntegrator.__call__[slope-cache=%s]" % cache)
        consts = st.new_obj("dict", "dict", items={})
        for k, (s, v) in enumerate(ex.call_function(fi, [selfobj, rhs, t, y, consts, h], {}, st, ctx)):
            if isinstance(v, Raised):
                reg.ground("%s/%s/no-exception#%d" % (PID, ctx.tag, k), "post-exc", "__call__", False, detail=repr(v.exc))
                continue
            f = s.obj(selfobj).fields
            new_dt, (dT, dS) = v
            ok0 = f["initial_rhs"] == LinComb.app("rhs", t, y)
            if not ok0 and cache == "stale":
                # the path on which the stale cache's time happens to equal t is only feasible if t_prev_end == t
                pass
            reg.ground("%s/%s/initial-slope-is-rhs-at-step-start#%d" % (PID, ctx.tag, k), "post", "RungeKuttaIntegrator.__call__", bool(ok0), backend="lincomb-exact",
                       detail="initial_rhs == rhs(t, y) (cache %s)" % cache)
            reg.ground("%s/%s/final-slope-is-rhs-at-step-end#%d" % (PID, ctx.tag, k), "post", "RungeKuttaIntegrator.__call__",
                       f["final_rhs"] == LinComb.app("rhs", t + dT, y + dS) and f["initial_time"] == t and f["initial_state"] == y, backend="lincomb-exact")
        out.append(fi)
    # splitting integrators: run the real __call__ with the real step (SymplecticEuler table), twice in a row
    ex = Executor(src, reg, prop=PID)
    ex.inline.update(["ExplicitSymplecticIntegrator.step"])
    fi = src.func(FT, "ExplicitSymplecticIntegrator.__call__")
    from pyvc.values import BlockVec, TabVal
    from fractions import Fraction
    T = TabVal([[Fraction(1, 2), 0, Fraction(1, 2)], [0, 1, 0], [Fraction(1, 2), 0, Fraction(1, 2)]])
    st = State()
    one, zero = Poly.const(1), Poly.const(0)
    selfobj = st.new_obj("ExplicitSymplecticIntegrator", fields=dict(tableau_intermediate=T, dState=BlockVec([LinComb.zero(), LinComb.zero()]), dTime=None, initial_rhs=None,
                                                                     final_rhs=None, initial_state=None, initial_time=None, drift_mask=BlockVec([one, zero]), kick_mask=BlockVec([zero, one])))
    yb = BlockVec([LinComb.sym("q"), LinComb.sym("p")])
    rb = UFunc("rhs", "block", attrs=dict(nblocks=2))
    ctx = Ctx(fi, None, fi.cls, tag="ExplicitSymplecticIntegrator.__call__[two-steps]")
    consts = st.new_obj("dict", "dict", items={})
    p1 = ex.call_function(fi, [selfobj, rb, t, yb, consts, h], {}, st, ctx)
    s1, v1 = p1[0]
    dS1 = v1[1][1]
    p2 = ex.call_function(fi, [selfobj, rb, t + h, yb + dS1, consts, h], {}, s1, ctx)
    s2, v2 = p2[0]
    dS2 = v2[1][1]
    f = s2.obj(selfobj).fields
    want_i = BlockVec(LinComb.app("rhs.%d" % k, t + h, yb + dS1) for k in range(2))
    want_f = BlockVec(LinComb.app("rhs.%d" % k, t + h + h, yb + dS1 + dS2) for k in range(2))
    reg.ground("%s/%s/initial-slope-is-rhs-at-step-start" % (PID, ctx.tag), "post", "ExplicitSymplecticIntegrator.__call__", f["initial_rhs"] == want_i, backend="lincomb-exact")
    reg.ground("%s/%s/final-slope-is-rhs-at-step-end" % (PID, ctx.tag), "post", "ExplicitSymplecticIntegrator.__call__", f["final_rhs"] == want_f, backend="lincomb-exact",
               detail="second of two consecutive steps: the end slope is recomputed for this step, not kept from the first one")
    out.append(fi)
    return out


def check_step_end_point(reg, src, d):
    """RungeKuttaIntegrator.step records the point its end slope belongs to (final_time, final_state), for one explicit and one implicit table."""
    for name in ("RK4Solver", "DOPRI45", "GaussLegendre4"):
        m = d["methods"][name]
        T, Tf = C02.tab(m["tableau_intermediate"]), C02.tab(m["tableau_final"])
        ex = C02.make_executor(src, reg)
        ex.prop = PID
        n = len(T.rows)

        def nl_roots(ex_, st_, ctx, args, kwargs, n=n):
            root = st_.new_obj("stages", "stages", items=[LinComb.sym("K%d" % i) for i in range(n)])
            return (root, (z3.Bool("nl_ok"), 5, 0, 0, Opaque("prec")))
        ex.call_hooks["nonlinear_roots"] = nl_roots
        fi = src.func(FT, "RungeKuttaIntegrator.step")
        st = State()
        selfobj = C02.make_rk_self(st, m, T, Tf, extra=dict(final_time=None, final_state=None))
        t, h, y = Poly.sym("t"), Poly.sym("h"), LinComb.sym("y")
        consts = st.new_obj("dict", "dict", items={})
        ctx = Ctx(fi, None, fi.cls, tag="RungeKuttaIntegrator.step[%s]" % name)
        for k, (s, v) in enumerate(ex.call_function(fi, [selfobj, UFunc("rhs", "lincomb"), t, y, consts, h], {}, st, ctx)):
            if isinstance(v, Raised):
                continue
            f = s.obj(selfobj).fields
            dS = v[1][1]
            reg.ground("%s/%s/end-point-of-cached-slope-recorded#%d" % (PID, ctx.tag, k), "post", "RungeKuttaIntegrator.step",
                       f.get("final_time") == t + h and f.get("final_state") == y + dS and f["final_rhs"] == LinComb.app("rhs", t + h, y + dS), backend="lincomb-exact",
                       detail="final_time == t + dTime, final_state == y + dState, final_rhs == rhs(final_time, final_state)")


def run(tier):
    R = common.Run(PID, "proof", tier)
    R.assume("A1", "A2", "A3", "A4", "A8")
    R.assume("Richardson wrappers: their pieces come from the last sub-division; only 'they tile [t, t + dTime]' is covered, natively (bounded); 'to tolerance' is bounded")
    R.assume("interpolation error O(h^4) between nodes: cubic exactness (C17, proved) + Peano kernel theorem (A8); the constant is not computed")
    R.assume("integrate() with dense output is verified for forward calls on trajectories recorded forward and for backward calls on trajectories recorded backward (one DenseOutput serves one direction); event handling is C07-C09")
    R.trust("z3", "pyvc executor (symbolic-length lists as parallel z3 arrays)", "contracts of search_bisection(_vec) proved in C17")
    src = source.load_all()
    reg = solver.Registry(solver.THOROUGH_TIMEOUT_MS if tier == "thorough" else 30000)
    R.add_registry(reg)
    known_refuted = []
    try:
        for fi in DN.check_add_interpolant(reg, src, PID):
            R.under_contract(fi)
        R.under_contract(DN.check_remove_interpolant(reg, src, PID))
        for direction in ("forward", "backward"):
            for fi in DN.check_lookup(reg, src, PID, direction):
                R.under_contract(fi)
        R.under_contract(DN.check_t_eval_arr(reg, src, PID))
        for fi in check_dense_output_method(reg, src):
            R.under_contract(fi)
        # the piece built from (t, y, f) at both ends keeps each end's data with that end (the constructor of the Hermite piece)
        from . import C17
        R.under_contract(C17.check_hermite_init(reg, src, PID))
        for fi in check_call_slopes(reg, src):
            R.under_contract(fi)
        d = e2common.load_tables(R)
        check_step_end_point(reg, src, d)
        R.under_contract(src.func(IC.F, "OdeSystem.integrate"))
        IC.verify_integrate_dense(src, reg, PID + "/integrate[dense,forward]", callbacks=0)
        IC.verify_integrate_dense(src, reg, PID + "/integrate[dense,forward,callback]", callbacks=1)
        IC.verify_integrate_dense(src, reg, PID + "/integrate[dense,backward]", callbacks=0, direction=-1)
        IC.verify_integrate_dense(src, reg, PID + "/integrate[dense,backward,callback]", callbacks=1, direction=-1)
        # "... and after events": the event block with dense output kept (one piece per recorded step survives event handling, a
        # terminal stop and an exception from an event function); the event properties themselves are C07-C09
        from . import integrate_events as IE
        reg.fail_fast = (3, 25)          # no obligation of this check is expected to fail: stop after the first few that do
        for terms in ((False,), (True,)) if tier == "thorough" else ((True,),):
            IE.verify_integrate_events(src, reg, PID + "/" + IE.config_label(1, terms, 1, 0, True), n=1, terminals=terms, direction=1, dense=True)
    except Unsupported as e:
        reg.undecided(PID + "/executor/unsupported", "unsupported", "executor", str(e))
    except solver.FailFast as e:
        R.notes.append(str(e))
    for ob in list(reg.obligations):
        if not ob.discharged and ob.kind != "cover":
            e = R.kf.match(PID, ob.name)
            if e:
                reg.obligations.remove(ob)
                ob.kf = e
                known_refuted.append(ob)
    nat = None
    try:
        nat = common.run_native("monitor/native_c06.py", dict(tier=tier), timeout=1800)
        R.bounded.append(dict(name="native dense-output family (nodes reproduced, containing piece, C^1 joins with rhs slopes, O(h^4), scalar/array queries, continued calls, failures)",
                              bound=nat["bound"], cases=nat["cases"], failing_clauses={k: len(v) for k, v in nat["failures"].items()}, label="bounded"))
    except Exception as e:
        R.notes.append("native family could not run: %r" % (e,))
    C03.triage(R, reg, nat)
    for e in R.kf.for_property(PID):
        hit = [o for o in known_refuted if getattr(o, "kf", None) is e]
        nat_hit = nat and any(cl in nat["failures"] for cl in e.get("native_clauses", []))
        R.known(e, bool(hit) or bool(nat_hit), "obligations %s; native %s" % ([o.name for o in hit[:2]], [cl for cl in e.get("native_clauses", []) if nat and cl in nat["failures"]]))
    R.extra_cov["known_finding_obligations"] = [o.to_json() for o in known_refuted][:20]
    return R.finish()
