"""C20 -- evaluation counters and callbacks are exact.

E1: DiffRHS.__call__ counts completed user calls only (raising call not counted), jac counts one request per call and its
finite-difference closures go through the counted __call__ (from C16's state machine), reset() zeroes nfev;
no-bypass frame obligation over the whole package (AST): the raw `.rhs` of a DiffRHS is called only inside DiffRHS.__call__;
integrate(): in every loop iteration each callback is invoked exactly once, in list order, after counter was advanced and the new
row (t, y) written (the callback sees the new state), and the step size stored by a callback is the one handed to the next
integrator call unless that step is the clamped final one.
"""
import ast
import os
import z3

from pyvc import source, solver
from pyvc.executor import Unsupported, Raised
from pyvc.values import ExcVal, fresh_name
from . import common, integrate_core as IC, C16, C03

PID = "C20"


def no_bypass_scan(reg, src):
    """Calls of `<x>.rhs(...)`: allowed only in DiffRHS.__call__ (the counted path) and inside JacobianWrapper (its own closure field)."""
    offenders = []
    sites = 0
    for rel in source.ALL_FILES:
        text, tree = src.load(rel)
        for cls in [n for n in ast.walk(tree) if isinstance(n, ast.ClassDef)] + [tree]:
            pass
        for fn in [n for n in ast.walk(tree) if isinstance(n, (ast.FunctionDef, ast.Lambda))]:
            for c in ast.walk(fn):
                if isinstance(c, ast.Call) and isinstance(c.func, ast.Attribute) and c.func.attr == "rhs":
                    sites += 1
                    owner = _enclosing(tree, c)
                    if owner in ("DiffRHS.__call__",) or owner.startswith("JacobianWrapper."):
                        continue
                    offenders.append("%s:%d in %s: %s" % (rel, c.lineno, owner, ast.unparse(c)[:60]))
    offenders = sorted(set(offenders))
    reg.ground(PID + "/package/no-bypass-of-counted-call", "frame", "desolver/*", not offenders, backend="ast-scan",
               detail="call sites of a `.rhs(...)` attribute: %d; outside DiffRHS.__call__ / JacobianWrapper: %r" % (sites, offenders))


def _enclosing(tree, node):
    best = "<module>"
    for cls in [n for n in ast.walk(tree) if isinstance(n, ast.ClassDef)]:
        for fn in [n for n in cls.body if isinstance(n, ast.FunctionDef)]:
            if fn.lineno <= node.lineno <= fn.end_lineno:
                best = "%s.%s" % (cls.name, fn.name)
    if best == "<module>":
        for fn in [n for n in ast.walk(tree) if isinstance(n, ast.FunctionDef)]:
            if fn.lineno <= node.lineno <= fn.end_lineno:
                best = fn.name
    return best


def callbacks_in_integrate(reg, src, n=2):
    ex = IC.base_executor(src, reg, PID)
    base_contract = ex.contracts["Integrator.__call__"]
    orig_apply = ex.apply_contract

    def apply(c, args, kwargs, st, ctx, node):
        if c is base_contract:
            sysref = st.env["self"]
            o = st.obj(sysref).fields
            cnt = o["counter"]
            st.ghost["iter"] = dict(counter=cnt, t=z3.Select(o["_OdeSystem__t"].arr, cnt), y=z3.Select(o["_OdeSystem__y"].arr, cnt), cb=[],
                                    dt_field=o["_OdeSystem__dt"], final=st.env.get("is_final_step"), tf=st.env["tf"])
            ts = kwargs.get("timestep")
            # the step handed to the integrator is the stored dt (set by the previous callback / controller), or the final clamp
            dtf = o["_OdeSystem__dt"]
            absz = lambda x: z3.If(x >= 0, x, -x)
            # ... the clamp onto the target only ever *shortens* the stored step (a step longer than the one a callback assigned is never taken)
            ex.prove(st, ctx, z3.Or(ts == dtf, z3.And(z3.BoolVal(True) if st.env.get("is_final_step") is True else z3.BoolVal(False), ts == st.env["tf"] - st.ghost["iter"]["t"], absz(ts) <= absz(dtf))),
                     "post", "timestep-is-stored-dt-or-final-clamp")
            out = orig_apply(c, args, kwargs, st, ctx, node)
            for s2, v in out:
                if not isinstance(v, Raised):
                    s2.ghost["iter"] = dict(s2.ghost["iter"], result=v)
            return out
        return orig_apply(c, args, kwargs, st, ctx, node)
    ex.apply_contract = apply
    for k in range(n):
        def cb(ex_, st, ctx, args, kwargs, k=k):
            it = st.ghost.get("iter")
            sysref = args[0]
            o = st.obj(sysref).fields
            reg.ground("%s/integrate/callback%d-called-in-list-order-once" % (PID, k), "post", "OdeSystem.integrate", it is not None and it["cb"] == list(range(k)),
                       backend="symbolic-exec", detail="callbacks already invoked in this iteration: %r" % (it["cb"] if it else None))
            if it is not None and "result" in it:
                new_dt, (dT, dS) = it["result"]
                cnt = o["counter"]
                ex_.prove(st, ctx, z3.And(cnt == it["counter"] + 1, z3.Select(o["_OdeSystem__t"].arr, cnt) == it["t"] + dT,
                                          z3.Select(o["_OdeSystem__y"].arr, cnt) == it["y"] + dS), "post", "callback%d-sees-the-recorded-new-state" % k)
            out = []
            for kind in ("AnyException", "KeyboardInterrupt"):
                sr = st.fork()
                out.append((sr, Raised(ExcVal(kind, tag="callback%d" % k))))
            st.ghost["iter"] = dict(it, cb=it["cb"] + [k]) if it else it
            o["_OdeSystem__dt"] = z3.Real(fresh_name("dt_cb"))
            out.append((st, None))
            return out
        ex.call_hooks["ufunc:cb%d" % k] = cb

    def iteration_end(ex_, st, ctx):
        it = st.ghost.get("iter")
        reg.ground("%s/integrate/every-callback-invoked-once-per-iteration" % PID, "post", "OdeSystem.integrate", it is not None and it["cb"] == list(range(n)),
                   backend="symbolic-exec", detail="callbacks invoked in the iteration: %r (expected %r)" % (it["cb"] if it else None, list(range(n))))
    c = IC.make_contract(n)
    c.loops[0]["on_iteration_end"] = iteration_end
    c.loops[0]["on_break"] = iteration_end          # an iteration that leaves the loop by `break` has recorded its step too
    ex.verify(c)
    return src.func(IC.F, "OdeSystem.integrate")


def run(tier):
    R = common.Run(PID, "proof", tier)
    R.assume("A1", "A2", "A5")
    R.assume("the integrators call the right-hand side only through the object they are given (checked syntactically by the no-bypass scan); torch code paths are cut")
    R.assume("the sub-steps taken by the recursive integrate() call that lands on a terminal event are made without the caller's callbacks: pre-condition of the callee contract, proved at the call site in the terminal-event configuration of this check")
    R.trust("z3", "pyvc executor", "CPython ast for the package scan")
    src = source.load_all()
    reg = solver.Registry(solver.THOROUGH_TIMEOUT_MS if tier == "thorough" else 20000)
    R.add_registry(reg)
    try:
        R.under_contract(C16.check_call_counter(reg, src))
        for o in reg.obligations:
            o.name = o.name.replace("C16/", PID + "/", 1)
        for state in C16.STATES:
            R.under_contract(C16.check_jac(reg, src, state, False))
        for o in reg.obligations:
            o.name = o.name.replace("C16/", PID + "/", 1)
        no_bypass_scan(reg, src)
        from . import C13, ctor
        R.under_contract(C13.check_reset(reg, src, PID))
        # "since construction": a new system starts from its own counted wrapper (a copy when a DiffRHS was passed) and has made exactly
        # one counted evaluation, the shape probe at the initial point
        for fi in IC.verify_helpers(src, reg, PID):
            R.under_contract(fi)
        R.under_contract(ctor.check_ode_init(reg, src, PID)[0])
        R.under_contract(callbacks_in_integrate(reg, src, 2))
        # the sub-steps that land on a terminal event: the recursive integrate() is made without the caller's callbacks (pre-condition of
        # the contract it is replaced by), so callbacks run once per iteration of the caller's loop also when an event terminates the run
        from . import integrate_events as IE
        reg.fail_fast = (3, 25)          # no obligation of this check is expected to fail: stop after the first few that do
        IE.verify_integrate_events(src, reg, PID + "/" + IE.config_label(1, (True,), 1, 1), n=1, terminals=(True,), direction=1, callbacks=1)
    except Unsupported as e:
        reg.undecided(PID + "/executor/unsupported", "unsupported", "executor", str(e))
    except solver.FailFast as e:
        R.notes.append(str(e))
    nat = None
    try:
        nat = common.run_native("monitor/native_c20.py", dict(tier=tier), timeout=1200)
        R.bounded.append(dict(name="native: nfev/njev against independent counters, callbacks once per recorded step, dt hand-over", bound=nat["bound"], cases=nat["cases"],
                              failing_clauses={k: len(v) for k, v in nat["failures"].items()}, label="bounded"))
    except Exception as e:
        R.notes.append("native family could not run: %r" % (e,))
    C03.triage(R, reg, nat)
    return R.finish()
