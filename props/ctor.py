"""Constructors under contract (shared by C13, C18, C10, C05).

* `OdeSystem.__init__` is executed symbolically on its real text (a plain callable and a DiffRHS object as right-hand side, dense output
  on / off, either orientation of (t0, tf) and of the requested dt) and must establish the *construction contract* that C18's facade
  proof and C13's reset proof had so far only assumed: the representation invariant that `integrate` requires, the trajectory is the
  one point (t0, y0) with y0 cloned, dt is the requested step oriented toward tf, the settings are stored as given, status 0, no events,
  a fresh empty DenseOutput, a fresh integrator built from the settings, and the right-hand side was evaluated exactly once (the shape
  probe) through the counted wrapper.
* `reset()` re-establishes, field by field, what the constructor established (relational obligation over the two symbolic results).
* `TableauIntegrator.__init__` / `RungeKuttaIntegrator.__init__` / `ExplicitSymplecticIntegrator.__init__`: a fresh integrator has no
  cached slopes, the controller memory that survives from one call to the next (`solver_dict_keep_keys`) holds no per-step quantity,
  and the kick / drift masks are complementary 0/1 vectors (default: second half kicks).
"""
from fractions import Fraction
import z3

from pyvc import builtins as B
from pyvc.executor import Executor, State, Ctx, Raised, Unsupported
from pyvc.values import SeqVal, Opaque, Ref, UFunc, ModuleRef, ConcVec, fresh_name
from . import integrate_core as IC

F = IC.F
FT = "desolver/integrators/integrator_types.py"


def sgn(x):
    return z3.If(x > 0, 1, z3.If(x < 0, -1, 0))


def oriented(dt, tf, t0):
    """the requested step, pointed from t0 toward tf (what __fix_dt_dir is for)"""
    return z3.If(sgn(dt) != sgn(tf - t0), -dt, dt)


def init_executor(src, reg, prop, made):
    ex = Executor(src, reg, prop=prop)
    ex.newaxis_seq = True
    ex.contracts["OdeSystem.__alloc_space_steps"] = IC.alloc_space_steps          # proved by IC.verify_helpers in the same run
    ex.contracts["OdeSystem.__allocate_soln_space"] = IC.allocate_soln_space
    ex.inline.update(["OdeSystem.__fix_dt_dir", "OdeSystem.initialise_integrator", "DiffRHS.__setattr__", "DiffRHS.__call__",
                      "DiffRHS.__copy__", "DiffRHS.hook_jacobian_call"])

    def new_integrator(ex_, st_, ctx, args, kwargs):
        r = st_.new_obj("Integrator", fields=dict(fresh=True, final_rhs=None, kwargs=dict(kwargs), dim=args[0] if args else None))
        made.append(r)
        return r
    ex.call_hooks["integrators.RK45CKSolver"] = new_integrator
    B.CONSTANTS.setdefault("integrators.RK45CKSolver.symplectic", False)                       # class attribute inherited from IntegratorTemplate
    B.CONSTANTS.setdefault("integrators.RK45CKSolver.is_implicit", ModuleRef("property-object"))
    ex.call_hooks["copy.copy"] = lambda ex_, st_, ctx, args, kwargs: ex_.call_method(B.BoundMethod(args[0], "__copy__"), [], {}, st_, ctx, None)
    return ex


def check_ode_init(reg, src, prop):
    """-> (FuncInfo, list of result records) ; one record per explored normal path"""
    fi = src.func(F, "OdeSystem.__init__")
    records = []
    for rhs_kind in ("callable", "DiffRHS"):
        for dense in (False, True):
            made = []
            ex = init_executor(src, reg, prop, made)
            st = State()
            selfobj = st.new_obj("OdeSystem", fields={})
            t0, tf, dt, y0 = z3.Real("t0"), z3.Real("tf"), z3.Real("dt"), z3.Real("y0")
            st.assume(dt != 0)
            st.assume(tf != t0)
            consts = st.new_obj("dict", "dict", items={})
            rtol, atol = Opaque("rtol"), Opaque("atol")
            f = UFunc("f", "real")
            if rhs_kind == "DiffRHS":
                rhs = st.new_obj("DiffRHS", fields={"rhs": f, "equ_repr": "<str>", "md_repr": "<str>", "nfev": z3.Int("nfev_before"), "njev": z3.Int("njev_before"),
                                                    "_DiffRHS__jac_wrapped_rhs_order": None, "_DiffRHS__jac_initialised": False, "_DiffRHS__jac": None,
                                                    "_DiffRHS__jac_time": None, "_DiffRHS__jac_is_wrapped_rhs": False})
            else:
                rhs = f
            tag = "OdeSystem.__init__[rhs=%s,dense=%s]" % (rhs_kind, dense)
            ctx = Ctx(fi, None, fi.cls, tag=tag)
            paths = ex.call_function(fi, [selfobj, rhs, y0, (t0, tf), dense, dt, rtol, atol, consts], {}, st, ctx)
            pre = "%s/%s/" % (prop, tag)
            normal = [(s, v) for s, v in paths if not isinstance(v, Raised)]
            reg.ground(pre + "constructs", "cover", "OdeSystem.__init__", len(normal) >= 1,
                       detail="%d normal paths, %d raising" % (len(normal), len(paths) - len(normal)))
            reg.obligations[-1].expect = "unsat"
            for s, v in paths:
                if isinstance(v, Raised):
                    reg.ground(pre + "no-exception-for-valid-arguments", "post-exc", "OdeSystem.__init__", False, detail=repr(v.exc))
            for k, (s, v) in enumerate(normal):
                o = s.obj(selfobj).fields
                T, Y = o.get("_OdeSystem__t"), o.get("_OdeSystem__y")
                if not (isinstance(T, SeqVal) and isinstance(Y, SeqVal)):
                    reg.undecided(pre + "buffers#%d" % k, "unsupported", "OdeSystem.__init__", "trajectory buffers are not sequences: %r %r" % (T, Y))
                    continue
                # representation invariant integrate() requires (IC.REP) + the trajectory is the initial point
                ex.prove(s, ctx, z3.And(o["counter"] == 0, T.length >= 1, Y.length == T.length, o["_OdeSystem__dt"] != 0), "post", "representation-invariant#%d" % k)
                ex.prove(s, ctx, z3.And(z3.Select(T.arr, 0) == t0, z3.Select(Y.arr, 0) == y0), "post", "trajectory-is-the-initial-point#%d" % k)
                ex.prove(s, ctx, z3.And(o["_OdeSystem__t0"] == t0, o["_OdeSystem__tf"] == tf), "post", "span-stored#%d" % k)
                ex.prove(s, ctx, o["_OdeSystem__dt"] == oriented(dt, tf, t0), "post", "dt-is-the-requested-step-oriented-toward-tf#%d" % k)
                ex.prove(s, ctx, oriented(o["_OdeSystem__dt0"], tf, t0) == oriented(dt, tf, t0), "post", "dt0-restores-the-same-step#%d" % k)
                reg.ground(pre + "settings-stored-as-given#%d" % k, "post", "OdeSystem.__init__",
                           o.get("_OdeSystem__rtol") is rtol and o.get("_OdeSystem__atol") is atol and o.get("_OdeSystem__consts") == consts
                           and o.get("_OdeSystem__dense_output") is dense and o.get("staggered_mask") is None and s.obj(consts).items == {},
                           backend="symbolic-exec", detail="rtol, atol, constants (same object, not modified), dense_output flag")
                st_ok = o.get("_OdeSystem__int_status")
                reg.ground(pre + "status-not-run#%d" % k, "post", "OdeSystem.__init__", st_ok == 0 and not isinstance(st_ok, bool), backend="symbolic-exec")
                ev = o.get("_OdeSystem__events")
                reg.ground(pre + "no-events#%d" % k, "post", "OdeSystem.__init__", isinstance(ev, Ref) and s.obj(ev).items == [], backend="symbolic-exec")
                sol = o.get("_OdeSystem__sol")
                solf = s.obj(sol).fields if isinstance(sol, Ref) else {}
                yi = solf.get("y_interpolants")
                reg.ground(pre + "dense-output-is-fresh-and-empty#%d" % k, "post", "OdeSystem.__init__", isinstance(sol, Ref) and solf.get("t_eval") is None
                           and isinstance(yi, Ref) and s.obj(yi).items == [], backend="symbolic-exec")
                integ = o.get("integrator")
                fresh = isinstance(integ, Ref) and integ in made and s.obj(integ).fields.get("fresh") is True
                kw = s.obj(integ).fields.get("kwargs", {}) if fresh else {}
                reg.ground(pre + "integrator-is-new-with-the-settings#%d" % k, "post", "OdeSystem.__init__",
                           fresh and kw.get("atol") is atol and kw.get("rtol") is rtol and "staggered_mask" not in kw and s.obj(integ).fields.get("dim") == ()
                           and "dState" not in s.obj(integ).fields, backend="symbolic-exec",
                           detail="integrator built by RK45CKSolver(self.dim, dtype=, device=, atol=, rtol=); nothing carried over (preserve_states=False)")
                m = o.get("_OdeSystem__method")
                reg.ground(pre + "default-method#%d" % k, "post", "OdeSystem.__init__", isinstance(m, ModuleRef) and m.path == "integrators.RK45CKSolver", backend="symbolic-exec")
                # the right-hand side is wrapped in a counted DiffRHS (a copy when one was passed: the caller's object is not touched) and was
                # evaluated exactly once, at the initial point, through the counter
                er = o.get("equ_rhs")
                erf = s.obj(er).fields if isinstance(er, Ref) else {}
                calls = s.ghost.get("calls:f", [])
                one_call = len(calls) == 1
                ok_wrap = isinstance(er, Ref) and s.obj(er).cls == "DiffRHS" and erf.get("rhs") is f and (rhs_kind == "callable" or er != rhs)
                reg.ground(pre + "rhs-wrapped-in-own-counted-wrapper#%d" % k, "post", "OdeSystem.__init__", ok_wrap, backend="symbolic-exec",
                           detail="equ_rhs is a DiffRHS around the user's callable%s" % (" (a copy; the caller's DiffRHS is not shared)" if rhs_kind == "DiffRHS" else ""))
                nf = erf.get("nfev")
                reg.ground(pre + "one-counted-evaluation-at-the-initial-point#%d" % k, "post", "OdeSystem.__init__",
                           one_call and isinstance(nf, int) and nf == 1, backend="symbolic-exec",
                           detail="completed rhs calls made by the constructor: %d, nfev afterwards: %r" % (len(calls), nf))
                if one_call:
                    ex.prove(s, ctx, z3.And(calls[0][0] == t0, calls[0][1] == y0), "post", "probe-is-at-the-initial-point#%d" % k)
                if rhs_kind == "DiffRHS":
                    orig = s.obj(rhs).fields
                    reg.ground(pre + "callers-DiffRHS-untouched#%d" % k, "frame", "OdeSystem.__init__",
                               z3.is_expr(orig.get("nfev")) and orig["nfev"].eq(z3.Int("nfev_before")) and orig.get("rhs") is f, backend="symbolic-exec")
                records.append(dict(state=s, fields=o, dense=dense, rhs_kind=rhs_kind, t0=t0, tf=tf, dt=dt, y0=y0))
    return fi, records


# ----------------------------------------------------------------------------------------------------------------
# integrator constructors
# ----------------------------------------------------------------------------------------------------------------
PER_STEP_KEYS = frozenset(["system_scaling", "epsilon_last", "epsilon_last_last", "diff", "dState", "timestep", "initial_state", "initial_time",
                           "newton_iteration_success"])


def _install_class(src, name, base, tables):
    """A shipped integrator class is its base class plus two data tables (dumped from the imported class by tabinv/dump.py): make the
    executor see exactly that -- class `name(base)` with the class attributes tableau_intermediate / tableau_final."""
    import ast
    from pyvc.source import ClassInfo
    if name not in src.classes:
        src.classes[name] = ClassInfo("<tables dumped from the imported class>", name, ast.parse("class %s(%s): pass" % (name, base)).body[0])
    for attr, val in tables.items():
        B.CONSTANTS["class:%s.%s" % (name, attr)] = val


def _tab(hex_rows):
    from pyvc.values import TabVal
    from tabinv import order as O
    return TabVal(O.frac_table(hex_rows))


def check_rk_init(reg, src, prop, name, m):
    """RungeKuttaIntegrator.__init__ (with TableauIntegrator.__init__ through super()) executed for the class `name`.
    -> dict(keep_keys=frozenset | None, flags=dict | None)"""
    T, Tf = _tab(m["tableau_intermediate"]), _tab(m["tableau_final"])
    _install_class(src, name, "RungeKuttaIntegrator", dict(tableau_intermediate=T, tableau_final=Tf))
    fi = src.func(FT, "RungeKuttaIntegrator.__init__")
    ex = Executor(src, reg, prop=prop)
    # the adaptation_fn setter probes the function it is given once (construction-time smoke test of the controller); its contract
    # (a (step, redo) pair) is proved in props/intcall.py
    ex.call_hooks["implicit_aware_update_timestep"] = lambda ex_, st_, ctx, args, kwargs: (z3.Real(fresh_name("probe_dt")), z3.Bool(fresh_name("probe_redo")))
    st = State()
    selfobj = st.new_obj(name, fields={})
    tag = "RungeKuttaIntegrator.__init__[%s]" % name
    ctx = Ctx(fi, None, fi.cls, tag=tag)
    pre = "%s/%s/" % (prop, tag)
    out = dict(keep_keys=None, flags=None)
    paths = ex.call_function(fi, [selfobj, (2,), "dtype"], dict(rtol=Opaque("rtol"), atol=Opaque("atol"), device=None), st, ctx)
    normal = [(s, v) for s, v in paths if not isinstance(v, Raised)]
    if len(normal) != 1 or len(paths) != 1:
        reg.ground(pre + "constructs", "post", "RungeKuttaIntegrator.__init__", False, detail="%d normal of %d paths: %r" % (len(normal), len(paths), [v.exc for s, v in paths if isinstance(v, Raised)]))
        return out
    s, _ = normal[0]
    o = s.obj(selfobj).fields
    n = len(T.rows)
    spec_explicit = all(all(x == 0 for x in T.rows[i][1 + i:]) for i in range(n))
    spec_fsal = list(T.rows[-1][1:]) == list(Tf.rows[0][1:])
    spec_adaptive = len(Tf.rows) == 2
    flags = dict(explicit=o.get("_explicit"), fsal=o.get("_fsal"), adaptive=o.get("_adaptive"))
    out["flags"] = flags
    # plain-valued attributes the constructor creates (None, flags, numbers): harnesses that build the integrator object by hand add those
    # they do not set themselves, so that a field a change introduces exists with its constructed value
    out["plain_fields"] = {k: v for k, v in o.items() if v is None or isinstance(v, (bool, int, str, Fraction))}
    reg.ground(pre + "flags-are-the-defining-predicates-of-the-tables", "post", "RungeKuttaIntegrator.__init__",
               flags["explicit"] is spec_explicit and flags["fsal"] is spec_fsal and flags["adaptive"] is spec_adaptive, backend="symbolic-exec",
               detail="_explicit == (A strictly lower triangular) == %s, _fsal == (last row of A == b) == %s, _adaptive == (two weight rows) == %s; got %r" % (spec_explicit, spec_fsal, spec_adaptive, flags))
    d = m.get("derived", {})
    reg.ground(pre + "flags-agree-with-the-imported-object", "lemma", "RungeKuttaIntegrator.__init__",
               flags["explicit"] == d.get("explicit") and flags["fsal"] == d.get("fsal") and flags["adaptive"] == d.get("adaptive"), backend="symbolic-exec-vs-cpython",
               detail="the flags the executor derives from the real constructor text equal those of the object CPython built: %r vs %r" % (flags, {k: d.get(k) for k in ("explicit", "fsal", "adaptive")}))
    fresh = all(o.get(k, "missing") is None for k in ("initial_state", "initial_rhs", "initial_time", "final_state", "final_rhs", "final_time"))
    reg.ground(pre + "no-cached-slopes-or-end-point", "post", "RungeKuttaIntegrator.__init__", fresh and o.get("_requires_high_precision") is False, backend="symbolic-exec",
               detail="initial_* / final_* are None on a new integrator (nothing of an earlier trajectory can be reused)")
    keep = o.get("solver_dict_keep_keys")
    sd = o.get("solver_dict")
    sd_keys = set(s.obj(sd).items.keys()) if isinstance(sd, Ref) else set()
    out["solver_dict_keys"] = sorted(sd_keys)
    if isinstance(keep, (set, frozenset)):
        out["keep_keys"] = frozenset(keep)
        reg.ground(pre + "memory-kept-between-calls-holds-no-per-step-quantity", "class-invariant", "RungeKuttaIntegrator.__init__", not (set(keep) & PER_STEP_KEYS),
                   backend="symbolic-exec", detail="solver_dict_keep_keys = %r; per-step keys among them: %r" % (sorted(keep), sorted(set(keep) & PER_STEP_KEYS)))
        reg.ground(pre + "kept-keys-are-initialised", "class-invariant", "RungeKuttaIntegrator.__init__", set(keep) <= sd_keys and {"redo_count", "safety_factor", "order", "atol", "rtol"} <= set(keep),
                   backend="symbolic-exec", detail="every kept key has a value in the initial solver_dict; the controller's parameters are kept")
    else:
        reg.undecided(pre + "keep-keys", "unsupported", "RungeKuttaIntegrator.__init__", "solver_dict_keep_keys is %r" % (keep,))
    return out


def check_symplectic_init(reg, src, prop, name, m):
    """ExplicitSymplecticIntegrator.__init__ for a state of symbolic length n: default mask and a caller-supplied mask."""
    T = _tab(m["tableau_intermediate"])
    _install_class(src, name, "ExplicitSymplecticIntegrator", dict(tableau_intermediate=T))
    fi = src.func(FT, "ExplicitSymplecticIntegrator.__init__")
    for mode in ("default-mask", "given-mask"):
        ex = Executor(src, reg, prop=prop)
        st = State()
        selfobj = st.new_obj(name, fields={})
        n = z3.Int("n")
        st.assume(n >= 1)
        user = z3.Array("given_mask", z3.IntSort(), z3.RealSort())
        mask = None if mode == "default-mask" else SeqVal(user, n)
        tag = "ExplicitSymplecticIntegrator.__init__[%s,%s]" % (name, mode)
        ctx = Ctx(fi, None, fi.cls, tag=tag)
        pre = "%s/%s/" % (prop, tag)
        paths = ex.call_function(fi, [selfobj, (n,)], dict(dtype="dtype", staggered_mask=mask, rtol=None, atol=None, device=None), st, ctx)
        normal = [(s, v) for s, v in paths if not isinstance(v, Raised)]
        if len(normal) != 1 or len(paths) != 1:
            reg.ground(pre + "constructs", "post", "ExplicitSymplecticIntegrator.__init__", False, detail="%d normal of %d paths" % (len(normal), len(paths)))
            continue
        s, _ = normal[0]
        o = s.obj(selfobj).fields
        K, Dm = o.get("kick_mask"), o.get("drift_mask")
        if not (isinstance(K, SeqVal) and isinstance(Dm, SeqVal)):
            reg.undecided(pre + "masks", "unsupported", "ExplicitSymplecticIntegrator.__init__", "masks are %r %r" % (K, Dm))
            continue
        i = z3.Int("i")
        inside = z3.And(0 <= i, i < n)
        k_i, d_i = z3.Select(K.arr, i), z3.Select(Dm.arr, i)
        ex.prove(s, ctx, z3.And(K.length == n, Dm.length == n), "post", "masks-have-the-length-of-the-state")
        ex.prove(s, ctx, z3.ForAll([i], z3.Implies(inside, z3.And(z3.Or(k_i == 0, k_i == 1), d_i == 1 - k_i))), "post", "masks-are-complementary-0-1-vectors")
        if mode == "default-mask":
            half = z3.Int("half")
            s.assume(z3.And(2 * half <= n, n < 2 * half + 2))          # half == n // 2
            ex.prove(s, ctx, z3.ForAll([i], z3.Implies(inside, (k_i == 1) == (i >= half))), "post", "default-kicks-are-the-second-half")
        else:
            ex.prove(s, ctx, z3.ForAll([i], z3.Implies(inside, (k_i == 1) == (z3.Select(user, i) != 0))), "post", "given-mask-is-taken-as-is")
        fresh = all(o.get(k, "missing") is None for k in ("initial_state", "initial_rhs", "initial_time", "final_state", "final_rhs", "final_time"))
        reg.ground(pre + "no-cached-slopes-or-end-point", "post", "ExplicitSymplecticIntegrator.__init__", fresh and o.get("_explicit") is True and o.get("_adaptive") is False,
                   backend="symbolic-exec")
    return fi


# ----------------------------------------------------------------------------------------------------------------
# setters of OdeSystem (the "set dt / rtol / atol / tf / t0 / constants" operations of C13's histories; C05: tolerances reach the integrator)
# ----------------------------------------------------------------------------------------------------------------
def _run_state(st, made):
    n = z3.Int("n_run")
    st.assume(n >= 0)
    t_arr, y_arr = z3.Array("t_run", z3.IntSort(), z3.RealSort()), z3.Array("y_run", z3.IntSort(), z3.RealSort())
    method = st.new_obj("MethodClass", fields=dict(symplectic=False, is_implicit=ModuleRef("property-object")))
    old_integ = st.new_obj("Integrator", fields=dict(fresh=False, dState=Opaque("dS"), dTime=Opaque("dT"), final_rhs=Opaque("cached"), rtol=Opaque("old_rtol"), atol=Opaque("old_atol")))
    rhs = st.new_obj("DiffRHS", fields=dict(rhs=UFunc("f", "opaque"), nfev=z3.Int("nfev_run"), njev=z3.Int("njev_run"), equ_repr="<str>", md_repr="<str>"))
    sol = st.new_obj("DenseOutput", fields=dict(t_eval=Opaque("te"), y_interpolants=Opaque("yi")))
    events = st.new_obj("list", "list", items=[Opaque("ev1")])
    tf, t0, dt0, dt = z3.Real("tf"), z3.Real("t0"), z3.Real("dt0"), z3.Real("dt_run")
    st.assume(tf != t0)
    st.assume(dt != 0)
    fields = {"counter": n, "_OdeSystem__t": SeqVal(t_arr, n + 1), "_OdeSystem__y": SeqVal(y_arr, n + 1), "_OdeSystem__sol": sol, "_OdeSystem__dt": dt,
              "_OdeSystem__int_status": 1, "_OdeSystem__events": events, "integrator": old_integ, "equ_rhs": rhs,
              "_OdeSystem__tf": tf, "_OdeSystem__t0": t0, "_OdeSystem__method": method, "_OdeSystem__rtol": Opaque("rtol"), "_OdeSystem__atol": Opaque("atol"),
              "_OdeSystem__consts": st.new_obj("dict", "dict", items={}), "staggered_mask": None, "_OdeSystem__dense_output": False, "_OdeSystem__dt0": dt0, "dim": (), "device": None,
              "_OdeSystem__inferred_backend": "numpy", "_OdeSystem__array_con_kwargs": None}
    return st.new_obj("OdeSystem", fields=fields), fields, old_integ


def check_setters(reg, src, prop):
    """rtol / atol / dt / tf / t0 / constants assigned on a system in an arbitrary run state: the setting takes the new value, a tolerance
    change rebuilds the integrator from the *current* settings (nothing of the old integrator -- tolerances, cached slopes, controller
    memory -- survives), dt / tf / t0 keep dt pointed from t0 toward tf, and nothing else changes (trajectory, events, status, counters)."""
    out = []
    RUN = ("counter", "_OdeSystem__t", "_OdeSystem__y", "_OdeSystem__sol", "_OdeSystem__int_status", "_OdeSystem__events", "equ_rhs")

    def same(a, b):
        return a is b or (z3.is_expr(a) and z3.is_expr(b) and a.eq(b)) or (isinstance(a, SeqVal) and isinstance(b, SeqVal) and a.arr.eq(b.arr) and z3.is_expr(a.length) and a.length.eq(b.length)) \
            or (not z3.is_expr(a) and not z3.is_expr(b) and not isinstance(a, SeqVal) and a == b)
    for attr in ("rtol", "atol", "dt", "tf", "t0", "constants"):
        made = []
        ex = Executor(src, reg, prop=prop)
        ex.inline.update(["OdeSystem.__fix_dt_dir", "OdeSystem.initialise_integrator"])

        def new_integrator(ex_, st_, ctx, args, kwargs, made=made):
            r = st_.new_obj("Integrator", fields=dict(fresh=True, final_rhs=None, kwargs=dict(kwargs)))
            made.append(r)
            return r
        ex.call_hooks["MethodClass.__call__"] = new_integrator
        st = State()
        selfobj, before, old_integ = _run_state(st, made)
        before = dict(before)
        fi = src.func(F, "OdeSystem.%s.setter" % attr)
        out.append(fi)
        tag = "OdeSystem.%s.setter" % attr
        ctx = Ctx(fi, None, fi.cls, tag=tag)
        newv = z3.Real("new_" + attr) if attr in ("dt", "tf", "t0") else (Opaque("new_" + attr) if attr != "constants" else st.new_obj("dict", "dict", items={"k": Opaque("v")}))
        if attr == "dt":
            st.assume(newv != 0)
        paths = ex.setattr(selfobj, attr, newv, st, ctx)
        pre = "%s/%s/" % (prop, tag)
        normal = [(s, oc) for s, oc in paths if oc is None]
        raising = [(s, oc) for s, oc in paths if oc is not None]
        reg.ground(pre + "returns", "cover", tag, len(normal) >= 1, detail="%d normal, %d raising paths" % (len(normal), len(raising)))
        reg.obligations[-1].expect = "unsat"
        tf0, t00 = before["_OdeSystem__tf"], before["_OdeSystem__t0"]
        for k, (s, oc) in enumerate(raising):
            # tf / t0 refuse a value that would make the span empty, and then change nothing
            o = s.obj(selfobj).fields
            okexc = attr in ("tf", "t0") and oc[0] == "raise" and getattr(oc[1], "cls", None) == "ValueError"
            reg.ground(pre + "raises-only-ValueError-for-an-empty-span#%d" % k, "post-exc", tag, okexc and all(same(o[f], before[f]) for f in before), backend="symbolic-exec",
                       detail="exception %r; fields changed: %r" % (oc[1] if len(oc) > 1 else oc, [f for f in before if not same(o[f], before[f])]))
            if okexc:
                other = t00 if attr == "tf" else tf0
                d = other - newv
                ex.prove(s, ctx, z3.If(d >= 0, d, -d) <= ex.eps, "post-exc", "refused-only-when-the-span-would-be-empty#%d" % k)
        for k, (s, oc) in enumerate(normal):
            o = s.obj(selfobj).fields
            changed = [f for f in before if not same(o[f], before[f])]
            allowed = {"rtol": {"_OdeSystem__rtol", "integrator"}, "atol": {"_OdeSystem__atol", "integrator"}, "dt": {"_OdeSystem__dt"}, "tf": {"_OdeSystem__tf", "_OdeSystem__dt"},
                       "t0": {"_OdeSystem__t0", "_OdeSystem__dt"}, "constants": {"_OdeSystem__consts"}}[attr]
            reg.ground(pre + "frame#%d" % k, "frame", tag, set(changed) <= allowed and not (set(changed) & set(RUN)), backend="symbolic-exec",
                       detail="fields changed: %r (allowed: %r); trajectory, events, status, dense output and counters untouched" % (changed, sorted(allowed)))
            if attr in ("rtol", "atol"):
                fld = "_OdeSystem__" + attr
                integ = o["integrator"]
                fresh = isinstance(integ, Ref) and integ in made and integ != old_integ
                kw = s.obj(integ).fields.get("kwargs", {}) if fresh else {}
                reg.ground(pre + "setting-stored#%d" % k, "post", tag, o[fld] is newv, backend="symbolic-exec")
                reg.ground(pre + "integrator-rebuilt-from-the-current-settings#%d" % k, "post", tag,
                           fresh and kw.get("rtol") is o["_OdeSystem__rtol"] and kw.get("atol") is o["_OdeSystem__atol"] and "dState" not in s.obj(integ).fields
                           and s.obj(integ).fields.get("final_rhs") is None, backend="symbolic-exec",
                           detail="a new integrator built with atol=, rtol= of the system after the assignment; nothing of the old integrator survives (its tolerances, cached slopes, controller memory)")
            elif attr == "constants":
                cur = o["_OdeSystem__consts"]
                old_map = before["_OdeSystem__consts"]
                reg.ground(pre + "setting-stored#%d" % k, "post", tag, isinstance(cur, Ref) and s.obj(cur).items.keys() == {"k"} and s.obj(newv).items.keys() == {"k"}
                           and s.obj(old_map).items == {}, backend="symbolic-exec",
                           detail="the system's constants are the new mapping's items; neither the caller's new mapping nor the one stored before is modified")
            else:
                tfn = newv if attr == "tf" else o["_OdeSystem__tf"]
                t0n = newv if attr == "t0" else o["_OdeSystem__t0"]
                if attr in ("tf", "t0"):
                    ex.prove(s, ctx, o["_OdeSystem__" + attr] == newv, "post", "setting-stored#%d" % k)
                mag = newv if attr == "dt" else before["_OdeSystem__dt"]
                ex.prove(s, ctx, z3.Or(tfn == t0n, o["_OdeSystem__dt"] == oriented(mag, tfn, t0n)), "post", "dt-points-from-t0-toward-tf#%d" % k)
    return out


def check_method_ops(reg, src, prop):
    """set_method / `method =` / set_kick_vars on a system in an arbitrary run state (the remaining setting operations of C13's histories):
    the method setting becomes the class registered under the given name, a mask becomes the staggered_mask setting, the integrator is
    rebuilt from the current settings by the (new) method class, and nothing of the run state (trajectory, events, status, dense output,
    counters, dt) changes.  (Whether the rebuilt integrator *receives* the mask is outside C13: see F25 in DESIGN.md.)"""
    out = []
    RUN = ("counter", "_OdeSystem__t", "_OdeSystem__y", "_OdeSystem__sol", "_OdeSystem__int_status", "_OdeSystem__events", "equ_rhs", "_OdeSystem__dt", "_OdeSystem__dt0",
           "_OdeSystem__tf", "_OdeSystem__t0", "_OdeSystem__rtol", "_OdeSystem__atol", "_OdeSystem__consts", "_OdeSystem__dense_output")

    def same(a, b):
        return a is b or (z3.is_expr(a) and z3.is_expr(b) and a.eq(b)) or (isinstance(a, SeqVal) and isinstance(b, SeqVal) and a.arr.eq(b.arr) and z3.is_expr(a.length) and a.length.eq(b.length)) \
            or (not z3.is_expr(a) and not z3.is_expr(b) and not isinstance(a, SeqVal) and a == b)
    for op in ("set_method", "method.setter", "set_kick_vars"):
        made = []
        ex = Executor(src, reg, prop=prop)
        ex.inline.update(["OdeSystem.initialise_integrator", "OdeSystem.set_method", "OdeSystem.__get_integrator_mask"])
        st = State()
        selfobj, before, old_integ = _run_state(st, made)
        before = dict(before)
        new_cls = st.new_obj("MethodClass", fields=dict(symplectic=False, is_implicit=ModuleRef("property-object"), registered_as="NEWMETHOD"))

        def new_integrator(ex_, st_, ctx, args, kwargs, made=made):
            r = st_.new_obj("Integrator", fields=dict(fresh=True, final_rhs=None, kwargs=dict(kwargs), built_by=args[0]))
            made.append(r)
            return r
        ex.call_hooks["MethodClass.__call__"] = new_integrator
        registry = st.new_obj("dict", "dict", items={"NEWMETHOD": new_cls})
        ex.call_hooks["integrators.available_methods"] = lambda ex_, st_, ctx, args, kwargs: registry
        ex.call_hooks["deutil.warning"] = lambda ex_, st_, ctx, args, kwargs: None
        ex.call_hooks["utilities.warning"] = lambda ex_, st_, ctx, args, kwargs: None
        tag = "OdeSystem." + op
        pre = "%s/%s/" % (prop, tag)
        if op == "set_kick_vars":
            fi = src.func(F, "OdeSystem.set_kick_vars")
            arg = Opaque("new_mask")
            ctx = Ctx(fi, None, fi.cls, tag=tag)
            paths = [(s, None if not isinstance(v, Raised) else ("raise", v.exc)) for s, v in ex.call_function(fi, [selfobj, arg], {}, st, ctx)]
        elif op == "set_method":
            fi = src.func(F, "OdeSystem.set_method")
            ctx = Ctx(fi, None, fi.cls, tag=tag)
            paths = [(s, None if not isinstance(v, Raised) else ("raise", v.exc)) for s, v in ex.call_function(fi, [selfobj, "NEWMETHOD"], {}, st, ctx)]
        else:
            fi = src.func(F, "OdeSystem.method.setter")
            ctx = Ctx(fi, None, fi.cls, tag=tag)
            paths = ex.setattr(selfobj, "method", "NEWMETHOD", st, ctx)
        out.append(fi)
        normal = [(s, oc) for s, oc in paths if oc is None]
        reg.ground(pre + "returns", "post", tag, len(normal) >= 1 and len(normal) == len(paths), backend="symbolic-exec", detail="%d normal of %d paths" % (len(normal), len(paths)))
        for k, (s, oc) in enumerate(normal):
            o = s.obj(selfobj).fields
            changed = [f for f in before if not same(o[f], before[f])]
            allowed = {"integrator", "staggered_mask"} | ({"_OdeSystem__method"} if op != "set_kick_vars" else set())
            reg.ground(pre + "frame#%d" % k, "frame", tag, set(changed) <= allowed and not (set(changed) & set(RUN)), backend="symbolic-exec",
                       detail="fields changed: %r (allowed: %r); trajectory, events, status, dense output, counters, dt and the other settings untouched" % (changed, sorted(allowed)))
            integ = o["integrator"]
            fresh = isinstance(integ, Ref) and integ in made and integ != old_integ
            kw = s.obj(integ).fields.get("kwargs", {}) if fresh else {}
            want_cls = new_cls if op != "set_kick_vars" else before["_OdeSystem__method"]
            reg.ground(pre + "integrator-rebuilt-by-the-method-in-force-from-the-current-settings#%d" % k, "post", tag,
                       fresh and s.obj(integ).fields.get("built_by") == want_cls and kw.get("rtol") is o["_OdeSystem__rtol"] and kw.get("atol") is o["_OdeSystem__atol"] and s.obj(integ).fields.get("final_rhs") is None,
                       backend="symbolic-exec", detail="new integrator object built by %s with the system's atol / rtol; no cached slopes" % ("the class registered under the given name" if op != "set_kick_vars" else "the unchanged method class"))
            if op == "set_kick_vars":
                reg.ground(pre + "mask-setting-stored#%d" % k, "post", tag, o["staggered_mask"] is arg, backend="symbolic-exec")
            else:
                reg.ground(pre + "method-setting-is-the-registered-class#%d" % k, "post", tag, o["_OdeSystem__method"] == new_cls, backend="symbolic-exec")
    return out
