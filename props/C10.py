"""C10 -- symplectic methods produce symplectic, time-reversible maps.

E2: symplecticity condition M = 0 and symmetry of the tables of the symplectic-flagged Runge-Kutta classes; structural
invariants of the splitting tables (every row a pure drift or a pure kick, coefficient sums one, palindromic).
E1 (LinComb domain, separable right-hand side dq/dt = f_q(p), dp/dt = f_p(t, q) uninterpreted): the real
ExplicitSymplecticIntegrator.step is a composition of shears (each stage changes only one block, by a function of
the other block) and step(h) followed by step(-h) returns the starting state -- proved, not cited.
"""
from fractions import Fraction

from pyvc import source, solver
from pyvc.executor import Executor, State, Ctx, Raised, Unsupported
from pyvc.values import LinComb, Poly, UFunc, TabVal, BlockVec
from tabinv import order as O, symplectic as SY
from . import common, e2common
from .C02 import tab, FT

PID = "C10"


def symbolic_table(T):
    """Table of the same shape (which rows drift, which kick) with symbolic palindromic coefficients; the drift
    coefficients are normalised to sum to one by expressing one of them through the others."""
    n = len(T.rows)
    rows = []
    for i, row in enumerate(T.rows):
        k = min(i, n - 1 - i)
        c = Poly.sym("c%d" % k) if row[1] != 0 else Poly.const(0)
        d = Poly.sym("d%d" % k) if row[2] != 0 else Poly.const(0)
        rows.append([row[0], c, d])
    # normalise: sum of drift coefficients == 1
    drift_idx = [i for i, r in enumerate(rows) if not r[1].is_zero()]
    if drift_idx:
        mid = drift_idx[len(drift_idx) // 2]
        k_mid = min(mid, n - 1 - mid)
        mult = sum(1 for i in drift_idx if min(i, n - 1 - i) == k_mid)
        others = Poly.const(0)
        for i in drift_idx:
            if min(i, n - 1 - i) != k_mid:
                others = others + rows[i][1]
        val = (Poly.const(1) - others).div_const(mult)
        for i in drift_idx:
            if min(i, n - 1 - i) == k_mid:
                rows[i][1] = val
    return TabVal(rows)


def reversibility(ex, reg, src, name, m, autonomous=True):
    T = tab(m["tableau_intermediate"])
    label = "autonomous,shipped-coefficients" if autonomous else "time-dependent-forces,symbolic-palindromic-coefficients"
    if not autonomous:
        T = symbolic_table(T)
    fi = src.func(FT, "ExplicitSymplecticIntegrator.step")
    st = State()
    one, zero = Poly.const(1), Poly.const(0)
    fields = dict(tableau_intermediate=T, dState=BlockVec([LinComb.zero(), LinComb.zero()]), dTime=None, initial_rhs=None,
                  drift_mask=BlockVec([one, zero]), kick_mask=BlockVec([zero, one]))
    selfobj = st.new_obj("ExplicitSymplecticIntegrator", fields=fields)
    t, h = Poly.sym("t"), Poly.sym("h")
    y = BlockVec([LinComb.sym("q"), LinComb.sym("p")])
    consts = st.new_obj("dict", "dict", items={})
    rhs = UFunc("H", "separable", attrs=dict(autonomous=autonomous))
    ctx = Ctx(fi, None, fi.cls, tag="ExplicitSymplecticIntegrator.step[%s]" % name)
    pre = "%s/%s/[%s]" % (PID, name, label)
    p1 = ex.call_function(fi, [selfobj, rhs, t, y, consts, h], {}, st, ctx)
    if len(p1) != 1 or isinstance(p1[0][1], Raised):
        reg.undecided(pre + "forward-step", "unsupported", "step", "paths=%d" % len(p1))
        return
    s1, v1 = p1[0]
    dS1 = v1[1][1]
    # shear structure: a stage whose row is a pure drift changes only q by h*c*f_q(p); a pure kick only p by h*d*f_p(t, q)
    calls = s1.ghost.get("calls:H", [])
    shear_ok = len(calls) == len(T.rows)
    acc = BlockVec([LinComb.zero(), LinComb.zero()])
    for i, row in enumerate(T.rows):
        if not shear_ok:
            break
        t_i, y_i = calls[i]
        shear_ok = shear_ok and (y_i == y + acc)
        f = BlockVec([LinComb.app("H.q", y_i.blocks[1]), LinComb.app("H.p", y_i.blocks[0]) if autonomous else LinComb.app("H.p", t_i, y_i.blocks[0])])
        acc = BlockVec([acc.blocks[0] + f.blocks[0].scale(h * row[1]), acc.blocks[1] + f.blocks[1].scale(h * row[2])])
    reg.ground(pre + "composition-of-shears", "post", "step", shear_ok and acc == dS1, backend="lincomb-exact",
               detail="stage i maps (q, p) -> (q + h c_i f_q(p), p + h d_i f_p(t_i, q)) with c_i d_i == 0 (table invariant pure-rows): a shear (A8: symplectic)")
    p2 = ex.call_function(fi, [selfobj, rhs, t + h, y + dS1, consts, -h], {}, s1, ctx)
    if len(p2) != 1 or isinstance(p2[0][1], Raised):
        reg.undecided(pre + "backward-step", "unsupported", "step", "paths=%d" % len(p2))
        return
    dS2 = p2[0][1][1][1]
    back = y + dS1 + dS2
    reg.ground(pre + "time-reversible", "post", "step", back == y, backend="lincomb-exact",
               detail="step(t, y, h) followed by step(t + h, y1, -h) returns y for every separable right-hand side, all h, all states [%s]%s" % (
                   label, "" if back == y else "; %d residual terms" % (len((back - y).blocks[0].terms) + len((back - y).blocks[1].terms))))


def run(tier):
    R = common.Run(PID, "proof", tier)
    R.assume("A1", "A8")
    R.assume("separable systems in the form dq/dt = f_q(p), dp/dt = f_p(t, q) (time-dependent forces allowed, drift time-independent) with the default/any 0-1 kick mask (the masks are proved to be complementary 0/1 vectors of the state's length from the real constructor; the step is verified on the two-block view they induce)")
    R.assume("bounded energy error over long runs is a corollary of symplecticity via backward error analysis (A8), not checked")
    R.trust("exact Fraction arithmetic", "pyvc executor LinComb/BlockVec domain", "tables dumped from the imported classes")
    reg = solver.Registry()
    R.add_registry(reg)
    d = e2common.load_tables(R)
    src = source.load_all()
    R.under_contract(src.func(FT, "ExplicitSymplecticIntegrator.step"))
    flagged = [n for n in d["explicit"] + d["implicit"] if d["methods"][n]["symplectic"]]
    reg.ground(PID + "/methods/symplectic-flagged", "lemma", "desolver.integrators", len(flagged) == 6, detail="flagged symplectic: %s" % flagged)
    for n in flagged:
        m = d["methods"][n]
        ti, tf = e2common.tables(m)
        pre = "%s/%s/" % (PID, n)
        if m["kind"] == "rk":
            A = [r[1:] for r in ti]
            c = [r[0] for r in ti]
            b = tf[0][1:]
            mm = SY.m_matrix(A, b)
            bad = [(i, j, float(r)) for i, j, r, sl in mm if abs(r) > sl]
            worst = max((abs(r) / sl if sl else (0 if r == 0 else 10 ** 9)) for _, _, r, sl in mm)
            reg.ground(pre + "M-matrix-zero", "class-invariant", n, not bad, detail="b_i a_ij + b_j a_ji - b_i b_j == 0 for all %d pairs; worst residual/slack %.3g; failing %r" % (len(mm), float(worst), bad[:3]),
                       model=dict(failing=bad[:5]) if bad else None)
            sy = SY.symmetric(A, b, c)
            bad = [(k, str(ix), float(r)) for k, ix, r, sl in sy if abs(r) > sl]
            reg.ground(pre + "symmetric-scheme", "class-invariant", n, not bad, detail="a_{s+1-i,s+1-j} + a_ij == b_j, b_{s+1-i} == b_i, c_{s+1-i} == 1 - c_i (A8: Phi_h o Phi_{-h} = id); failing %r" % (bad[:3],),
                       model=dict(failing=bad[:5]) if bad else None)
        else:
            inv = SY.splitting_invariants(ti)
            reg.ground(pre + "pure-rows", "class-invariant", n, not inv["pure_rows"], detail="rows with both a drift and a kick coefficient: %r" % (inv["pure_rows"],))
            reg.ground(pre + "drift-coefficients-sum-1", "class-invariant", n, abs(inv["drift_sum"][0]) <= inv["drift_sum"][1], detail="sum - 1 = %.3g" % float(inv["drift_sum"][0]))
            reg.ground(pre + "kick-coefficients-sum-1", "class-invariant", n, abs(inv["kick_sum"][0]) <= inv["kick_sum"][1], detail="sum - 1 = %.3g" % float(inv["kick_sum"][0]))
            reg.ground(pre + "palindromic", "class-invariant", n, not inv["not_palindromic"], detail="rows differing from their mirror image: %r" % (inv["not_palindromic"],))
            try:
                for auto in (True, False):
                    ex = Executor(src, reg, prop=PID)
                    reversibility(ex, reg, src, n, m, autonomous=auto)
            except Unsupported as e:
                reg.undecided(pre + "reversibility", "unsupported", "executor", str(e))
            # the masks the step multiplies with: complementary 0/1 vectors for a state of any length, built by the real constructor
            # (default: second half kicks; a caller's mask is taken as given) -- "all kick masks" of the property's quantifier
            try:
                from . import ctor
                R.under_contract(ctor.check_symplectic_init(reg, src, PID, n, m))
                R.under_contract(src.func(FT, "TableauIntegrator.__init__"))
            except Unsupported as e:
                reg.undecided(pre + "mask-construction", "unsupported", "executor", str(e))
    # ---- implicit symplectic classes: symplectic "up to solver tolerance" needs that an unconverged stage solve is never
    #      handed back as an accepted step (same obligation as C02, on the real RungeKuttaIntegrator.__call__)
    try:
        from . import C02
        R.under_contract(src.func(FT, "RungeKuttaIntegrator.__call__"))
        ex = Executor(src, reg, prop=PID)
        C02.check_call_skeleton(ex, reg, src, True, False)
        from . import intcall
        intcall.check_rk_call_unbounded(reg, src, PID, True, False)                  # every retry budget: loop cut by an invariant
        for o in reg.obligations:
            if o.name.startswith("C02/"):
                o.name = o.name.replace("C02/", PID + "/", 1)
    except Unsupported as e:
        reg.undecided(PID + "/call-skeleton", "unsupported", "executor", str(e))
    # ---- bounded native clause
    try:
        nat = common.run_native("monitor/native_c10.py", dict(tier=tier, seed=R.seed, methods=flagged), timeout=1200)
        R.bounded.append(dict(name="native: Jacobian of the one-step map satisfies M^T J M = J, h / -h round trip, mask construction",
                              bound=nat["bound"], cases=nat["cases"], failures=nat["failures"][:5], label="bounded"))
        if nat["failures"]:
            ob = reg.ground(PID + "/native/symplectic-map", "bounded", "step", False, backend="native-family", detail="%d native failures" % len(nat["failures"]))
            R.violation(ob, R.write_replay(ob, dict(native=dict(failures=nat["failures"][:5]))), True, "bounded-native")
    except Exception as e:
        R.notes.append("native symplecticity clause could not run: %r" % (e,))
    for ob in [o for o in reg.obligations if not o.discharged and o.result != "unknown" and o.kind != "bounded"]:
        R.violation(ob, R.write_replay(ob, dict(identity=ob.detail, model=ob.model)), False)
    return R.finish()
