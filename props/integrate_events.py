"""integrate() with events monitored (shared by C07, C08, C09): the event block of the real loop under contract.

What is executed symbolically is the real text of OdeSystem.integrate with `events` a list of n uninterpreted event functions,
the real prepare_events, the real DenseOutput.add_interpolant / remove_interpolant / __len__ over lists of symbolic length,
the real recording loop (true_positive test, StateTuple, duplicate suppression through last_occurrence), the real terminal
branch (roll back, drop the interpolant, integrate(root), status 2) and the real pruning loop.

Callees replaced by contracts:
  handle_events          proved in props/events.py: roots inside the step, certified, ordered along the direction, list cut after the
                         first terminal event; any sub-list of the monitored events may be active; may raise (an event function may)
  DenseOutput.__call__   proved in props/dense.py (C06): a query inside some piece is answered by a piece that contains it
  self.integrate(root)   integrate's own contract (events None, no callbacks: props/integrate_core.py, re-proved by the caller of this
                         module with the clause "lands within 8 eps of the target" made unconditional), applied at the call site
  integrator.__call__    as in props/integrate_core.py
Both time directions; dense output off (the step interpolants are pruned to the last two).
"""
import copy
import itertools
import os
import sys
import z3

from pyvc.executor import Executor, State, Ctx, Raised, Unsupported, Contract
from pyvc.values import UFunc, ConcVec, Ref, SeqVal, ExcVal, fresh_name, to_bool, to_real
from pyvc import builtins as B
from . import integrate_core as IC, intcall, dense as DN

F = IC.F
EV = "self._OdeSystem__events"
SOL = "self._OdeSystem__sol"
DELTA = "eps ** 0.7"

EVENT_INV = [
    # records made before this call are untouched; records made by this call lie between the start of the call and the current
    # time, in integration order, and each names one of the monitored events.  SLACK: the integration that lands on a terminal
    # event stops within 8 eps *before* it (integrate's own stopping test), so the terminal record may lie that much ahead
    "n_ev0 <= len(E_V) and DIR * (self.__t[self.counter] - T0) >= 0",
    "forall(lambda i: implies(0 <= i and i < n_ev0, E_V[i].t == old(E_V)[i].t and E_V[i].ev == old(E_V)[i].ev and E_V[i].y == old(E_V)[i].y))",
    "forall(lambda i: implies(n_ev0 <= i and i < len(E_V), DIR * E_V[i].t <= DIR * self.__t[self.counter] + SLACK and DIR * E_V[i].t >= DIR * T0))",
    "forall(lambda i, j: implies(n_ev0 <= i and i < j and j < len(E_V), DIR * E_V[i].t <= DIR * E_V[j].t))",
    "forall(lambda i: implies(n_ev0 <= i and i < len(E_V), 0 <= E_V[i].ev and E_V[i].ev < N_MON))",
    # no crossing twice: two records of the same event made by this call are further apart than the duplicate threshold
    "forall(lambda i, j: implies(n_ev0 <= i and i < j and j < len(E_V) and E_V[i].ev == E_V[j].ev, DIR * (E_V[j].t - E_V[i].t) > DELTA))",
]


def subst(cl, n, direction, slack="0"):
    return cl.replace("SLACK", slack).replace("E_V", EV).replace("DIR", "(%d)" % direction).replace("T0", "old(self.__t)[old(self.counter)]").replace("N_MON", str(n)).replace("DELTA", DELTA).replace("SOL", SOL)


def sol_rep(direction):
    """Representation invariant of the step interpolants while dense output is off."""
    inv = DN.DO_INV if direction > 0 else DN.DO_INV_B
    n = "len(SOL.t_eval)"
    newest = (n + " - 1") if direction > 0 else "0"
    out = [c.replace("self.", SOL + ".") for c in inv]
    out += [n + " >= 0 and " + n + " <= 2",
            # the newest piece ends at or before the current time (exactly there, unless a terminal event rolled a step back)
            "implies(%s >= 1, %d * SOL.t_eval[%s] <= %d * self.__t[self.counter])" % (n, direction, newest, direction)]
    return out


def recursive_contract(direction, dense=False):
    """integrate's own contract (events None, no callbacks) as seen from the recursive call site: the ghost tf_ is the argument t."""
    c = IC.dense_contract(0, direction, extra_post=NO_CALLBACK_POST) if dense else IC.make_contract(0, extra_post=NO_CALLBACK_POST)
    c2 = copy.copy(c)
    rep = lambda x: x.replace("tf_", "t")
    c2.requires = [rep(r) for r in c.requires if r != "tf_ == t" and not r.startswith("tf_ > self.__t") and not r.startswith("tf_ < self.__t")]
    # the contract is the one proved for events None / no callbacks / no progress bar: the recursive call must be made that way (the
    # sub-steps that land on a terminal event are not iterations of the caller's loop: its callbacks are not invoked for them, C20)
    c2.requires += ["callback is None", "events is None", "eta == False"]
    # status: 1 after a normal return (it was not 2 before), the caller overwrites it
    c2.ensures = [rep(r) for r in c.ensures if "self.__int_status == 1" not in r]
    c2.ensures_exc = [rep(r) for r in c.ensures_exc if "self.__int_status is exc" not in r]
    c2.ghost = None
    c2.modifies = ["self.counter", "self.__t", "self.__y", "self.__dt", "self.__int_status"] + (["self.__sol.*"] if dense else [])
    c2.may_raise = True
    c2.exc_kinds = ("FailedIntegration", "KeyboardInterrupt")
    c2.short = "OdeSystem.integrate"
    c2.loops = {}
    return c2


# without callbacks the step size never becomes zero: the call ends within 8 eps of its target
NO_CALLBACK_INV = ["self.__dt != 0"]
NO_CALLBACK_POST = ["implies(abs(tf_ - old(self.__t)[old(self.counter)]) >= eps, abs(tf_ - self.__t[self.counter]) < 8 * eps)"]


def verify_recursive_contract(src, reg, prop, dense=False, direction=1):
    """the contract used for the recursive call, proved of integrate() itself (events None, no callbacks)"""
    if dense:
        return IC.verify_integrate_dense(src, reg, prop, callbacks=0, direction=direction, extra_inv=NO_CALLBACK_INV, extra_post=NO_CALLBACK_POST)
    return IC.verify_integrate(src, reg, prop, callbacks=0, extra_inv=NO_CALLBACK_INV, extra_post=NO_CALLBACK_POST)


def verify_integrate_events(src, reg, prop, n=1, terminals=(False,), direction=1, extra_inv=(), extra_post=(), callbacks=0, outcomes=None, dense=False, infinite=False,
                            after_failure=False):
    """outcomes: None = every outcome of handle_events; else a list of tuples of active event indices (and the string "raise") -- the
    outcomes this run explores.  Runs over a partition of the outcomes together verify the loop body (the jobs are run in parallel)."""
    ex = IC.base_executor(src, reg, prop)
    ex.global_axioms = ex.global_axioms + intcall.transcendental_axioms(ex)
    IC.install_callbacks(ex, callbacks)
    ex.feas_quantified = False           # path pruning by the quantifier-free part of the path condition only (sound, faster)
    ex.modular_loops = True              # the main loop is verified once from requires + invariant (prefix path facts dropped)
    DN.install(ex)
    ex.inline.update(["DenseOutput.__len__", "DenseOutput.remove_interpolant"])
    events = [UFunc("g%d" % k, "real", attrs=dict(id=k, is_terminal=bool(terminals[k]))) for k in range(n)]
    inv_do = DN.DO_INV if direction > 0 else DN.DO_INV_B

    # ---- integrator: record the step in the integrator object (as the real __call__ does, props/intcall.py)
    base_contract = ex.contracts["Integrator.__call__"]
    orig_apply = ex.apply_contract

    def apply(c, args, kwargs, st, ctx, node):
        out = orig_apply(c, args, kwargs, st, ctx, node)
        if c is base_contract:
            for s2, v in out:
                if not isinstance(v, Raised):
                    integ = s2.obj(args[0]).fields
                    integ["initial_time"], integ["dTime"] = args[2], v[1][0]
        return out
    ex.apply_contract = apply

    def dense_output(ex_, st, ctx, args, kwargs):
        # contract of TableauIntegrator.dense_output (proved in props/C06.py from its body): the Hermite piece of the last step
        integ = st.obj(args[0]).fields
        t0, dT = integ["initial_time"], integ["dTime"]
        return (t0 + dT, st.new_obj("CubicHermiteInterp", fields=dict(t0=t0, t1=t0 + dT, id=z3.Int(fresh_name("piece_id")))))
    ex.call_hooks["Integrator.dense_output"] = dense_output

    fi_add = src.func(F, "DenseOutput.add_interpolant")

    def add_interpolant(ex_, st, ctx, args, kwargs):
        # the real body; afterwards a literal list it may have created ([t], [piece]) is re-represented as a symbolic-length list
        out = ex_.call_function(fi_add, list(args), dict(kwargs), st, ctx)
        for s2, v in out:
            sf = s2.obj(args[0]).fields
            for fld, elem in (("t_eval", "real"), ("y_interpolants", "piece")):
                o = s2.obj(sf[fld]) if isinstance(sf[fld], Ref) else None
                if o is not None and o.kind == "list":
                    sf[fld] = B.symlist_from_items(s2, o.items, elem, "sol_" + fld)
        return out
    ex.call_hooks["DenseOutput.add_interpolant"] = add_interpolant

    def newest(st, sol):
        sf = st.obj(sol).fields
        te, yi = st.obj(sf["t_eval"]).fields, st.obj(sf["y_interpolants"]).fields
        j = te["len"] - 1 if direction > 0 else z3.IntVal(0)
        return te["len"], z3.Select(yi["cols"]["t0"], j), z3.Select(yi["cols"]["t1"], j), z3.Select(te["cols"]["v"], j), z3.Select(yi["cols"]["id"], j)

    def sol_call(ex_, st, ctx, args, kwargs):
        # contract of DenseOutput.__call__ (props/dense.py): under DO_Inv a query inside some piece is answered by a piece containing it
        sol, q = args[0], to_real(args[1])
        nn, t0, t1, key, pid = newest(st, sol)
        env = dict(st.env)
        st2 = st.fork()
        st2.env = {"self": sol}
        DN.prove_all(ex_, st2, ctx, inv_do, "pre@callsite", "pre@callsite:sol(t)-dense-output-invariant")
        ex_.prove(st, ctx, z3.And(nn >= 1, z3.Or(z3.And(t0 <= q, q <= t1), z3.And(t1 <= q, q <= t0))), "pre@callsite", "pre@callsite:sol(t)-query-inside-the-newest-piece")
        sf = st.obj(sol).fields
        yi = st.obj(sf["y_interpolants"]).fields
        r = z3.Int(fresh_name("answering_piece"))
        v = z3.Real(fresh_name("sol_value"))
        rt0, rt1, rid = z3.Select(yi["cols"]["t0"], r), z3.Select(yi["cols"]["t1"], r), z3.Select(yi["cols"]["id"], r)
        st.assume(z3.And(0 <= r, r < nn, z3.Or(z3.And(rt0 <= q, q <= rt1), z3.And(rt1 <= q, q <= rt0)), v == ex_.uf("piece_value", 2)(z3.ToReal(rid), q)))
        st.ghost.setdefault("sol_calls", []).append(dict(q=q, v=v, r=r))
        return v
    ex.call_hooks["DenseOutput.__call__"] = sol_call
    ex.call_hooks["StateTuple"] = lambda ex_, st, ctx, args, kwargs: st.new_obj("StateTuple", fields=dict(kwargs))

    # ---- handle_events by its contract
    def handle_events(ex_, st, ctx, args, kwargs):
        (sol, t_prev, t_next), evs_ref = args[0], args[1]
        nn, t0, t1, key, pid = newest(st, sol)
        st2 = st.fork()
        st2.env = {"self": sol}
        DN.prove_all(ex_, st2, ctx, inv_do, "pre@callsite", "pre@callsite:handle_events-dense-output-invariant")
        # the interpolant of *this* step is the one consulted: the newest piece spans [t_prev, t_next]
        ex_.prove(st, ctx, z3.And(nn >= 1, t0 == t_prev, t1 == t_next, key == t_next, t_prev != t_next), "pre@callsite",
                  "pre@callsite:handle_events-sees-the-interpolant-of-this-step")
        passed = ex_.iterate(evs_ref, st, ctx)
        reg.ground("%s/%s/handle_events-receives-the-monitored-events" % (ex_.prop, ctx.tag), "pre@callsite", "OdeSystem.integrate",
                            len(passed) == n and all(a is b for a, b in zip(passed, events)), backend="symbolic-exec")
        out = []
        for kind in ("AnyException", "KeyboardInterrupt"):
            if outcomes is not None and "raise" not in outcomes:
                continue
            sr = st.fork()
            out.append((sr, Raised(ExcVal(kind, tag="event-function"))))
        sgn = z3.If(t_next - t_prev > 0, 1, -1)
        for k in range(0, n + 1):
            for idxs in itertools.permutations(range(n), k):
                term = [terminals[i] for i in idxs]
                if any(term[:-1]):
                    continue            # the list is cut after the first terminal event
                if outcomes is not None and tuple(idxs) not in outcomes:
                    continue
                s2 = st.fork()
                roots = [z3.Real(fresh_name("root_ev%d" % i)) for i in idxs]
                for j, r in enumerate(roots):
                    s2.assume(z3.Or(z3.And(t_prev <= r, r <= t_next), z3.And(t_next <= r, r <= t_prev)))
                for j in range(len(roots) - 1):
                    s2.assume(sgn * roots[j] <= sgn * roots[j + 1])
                end_int = bool(term and term[-1])
                evl = s2.new_obj("list", "list", items=[events[i] for i in idxs])
                evo = s2.obj(s2.obj(s2.env["self"]).fields["_OdeSystem__events"]).fields
                lo = s2.env.get("last_occurrence")
                s2.ghost["cb_mark"] = len(s2.ghost.get("callback_log", []))
                s2.ghost["event_step"] = dict(t_prev=t_prev, t_next=t_next, active=list(idxs), roots=roots, piece=pid, len_before=evo["len"], cols_before=dict(evo["cols"]),
                                              lo_before=list(lo.items) if isinstance(lo, ConcVec) else None, n_sol_calls=len(s2.ghost.get("sol_calls", [])))
                out.append((s2, (ConcVec(list(idxs)), ConcVec(roots), end_int, evl)))
        return out
    ex.call_hooks["handle_events"] = handle_events

    covered = {}

    def callbacks_ran(ex_, st, ctx, how):
        # C20: every callback is invoked exactly once, in list order, in every iteration that made a new state visible -- also in the
        # iteration that lands on a terminal event (its sub-steps share this one invocation), however that iteration leaves the loop
        if callbacks:
            log = st.ghost.get("callback_log", [])[st.ghost.get("cb_mark", 0):]
            reg.ground("%s/%s/every-callback-invoked-once-in-list-order-per-iteration[%s]" % (ex_.prop, ctx.tag, how), "post", "OdeSystem.integrate",
                       log == list(range(callbacks)), backend="symbolic-exec", detail="callbacks invoked since the event block of this iteration: %r (expected %r)" % (log, list(range(callbacks))))

    def iteration_break(ex_, st, ctx):
        callbacks_ran(ex_, st, ctx, "loop-left-by-break")

    def iteration_end(ex_, st, ctx):
        """Ghost link between the roots handle_events returned and the records made in this iteration."""
        callbacks_ran(ex_, st, ctx, "iteration-end")
        # C09: an iteration that ends the run at a terminal event leaves status 2 ("terminated by an event", a success) whatever the status
        # was before -- also when an earlier, failed call had stored its exception there
        ei = st.env.get("end_int")
        if ei is True or (z3.is_expr(ei) and z3.is_true(z3.simplify(ei))):
            stat = st.obj(st.env["self"]).fields.get("_OdeSystem__int_status")
            reg.ground("%s/%s/terminal-stop-sets-status-2-whatever-the-earlier-status" % (ex_.prop, ctx.tag), "post", "OdeSystem.integrate",
                       isinstance(stat, int) and not isinstance(stat, bool) and stat == 2, backend="symbolic-exec", detail="status at the end of the iteration that stopped at a terminal event: %r" % (stat,))
        es = st.ghost.get("event_step")
        st.ghost["event_step"] = None
        if es is None:
            reg.ground("%s/%s/event-block-reached-in-every-iteration" % (ex_.prop, ctx.tag), "post", "OdeSystem.integrate", False, detail="loop iteration ended without a call of handle_events")
            return
        # vacuity guard: the end of an iteration is reachable for every outcome of handle_events (in particular after the terminal branch)
        key = "active=%s" % ",".join(str(i) for i in es["active"])
        seen = covered.setdefault(key, [0, False])
        if not seen[1] and seen[0] < 6:
            seen[0] += 1
            ob = reg.cover("%s/%s/cover#iteration-end-reachable[%s]" % (ex_.prop, ctx.tag, key), ctx.tag, ex_.global_axioms + st.pc)
            if ob.result == "sat":
                seen[1] = True
            else:
                reg.obligations.remove(ob)
                reg.names.discard(ob.name)
        evo = st.obj(st.obj(st.env["self"]).fields["_OdeSystem__events"]).fields
        n0, n1, cols = es["len_before"], evo["len"], evo["cols"]
        eps07 = ex_.uf("pow", 2)(ex_.eps, z3.RealVal("7/10"))
        calls = st.ghost.get("sol_calls", [])[es["n_sol_calls"]:]
        k_max = len(es["roots"])
        ex_.prove(st, ctx, z3.And(n1 >= n0, n1 <= n0 + k_max), "post", "at-most-one-record-per-returned-root")
        for j, (idx, root) in enumerate(zip(es["active"], es["roots"])):
            # C08 link: every root handle_events returned is recorded, unless it repeats the latest record of the same event
            recorded = z3.Or(*[z3.And(n1 > n0 + k, z3.Select(cols["t"], n0 + k) == root, z3.Select(cols["ev"], n0 + k) == idx) for k in range(k_max)])
            lo_b = es["lo_before"][idx] if es["lo_before"] is not None else None
            dup = z3.BoolVal(False)
            if lo_b is not None:
                lo_b = lo_b if z3.is_expr(lo_b) else z3.IntVal(lo_b)
                prev_t = z3.Select(es["cols_before"]["t"], lo_b)
                d = root - prev_t
                dup = z3.And(lo_b != -1, z3.If(d >= 0, d, -d) <= eps07)
            ex_.prove(st, ctx, z3.Or(recorded, dup), "post", "returned-root-recorded-or-duplicate-of-its-last-record#%d" % j)
        # C07: the state recorded with an event is the dense solution evaluated at the event time (one sol(t) query per record)
        for k in range(k_max):
            hit = z3.Or(*[z3.And(z3.Select(cols["t"], n0 + k) == cq["q"], z3.Select(cols["y"], n0 + k) == cq["v"]) for cq in calls]) if calls else z3.BoolVal(False)
            ex_.prove(st, ctx, z3.Implies(n1 > n0 + k, hit), "post", "recorded-state-is-the-dense-solution-at-the-recorded-time#%d" % k)
            inside = z3.Or(z3.And(es["t_prev"] <= z3.Select(cols["t"], n0 + k), z3.Select(cols["t"], n0 + k) <= es["t_next"]),
                           z3.And(es["t_next"] <= z3.Select(cols["t"], n0 + k), z3.Select(cols["t"], n0 + k) <= es["t_prev"]))
            ex_.prove(st, ctx, z3.Implies(n1 > n0 + k, inside), "post", "recorded-time-inside-the-step-it-was-found-in#%d" % k)
    ex.contracts["OdeSystem.integrate"] = recursive_contract(direction, dense)

    # ---- the contract of the outer call
    # after_failure: the pre-state's status is the exception object an earlier, failed call stored (only reset() clears it): a stop at a
    # terminal event is still reported as such (status 2, success); without a terminal stop the failure stays (it is sticky by design)
    c = IC.make_contract(callbacks, status0=ExcVal("FailedIntegration", tag="earlier-failure"), drop_status_post=True) if after_failure else IC.make_contract(callbacks)
    c.sorts = dict(c.sorts)
    c.sorts["events"] = ("list",) + tuple(("const", e) for e in events)
    inv = [x for x in c.loops[0]["invariant"] if "same(self.__int_status" not in x]
    inv[0] = "tf == tf_ and implicit_integration == False"
    # the direction of the call is fixed by the pre-condition: the sign factor of the shared clauses becomes a literal
    lit = lambda x: x.replace(IC.DIR, "(%d)" % direction)
    inv = [lit(x) for x in inv]
    c.ensures = [lit(x) for x in c.ensures]
    c.ensures_exc = [lit(x) for x in c.ensures_exc]
    ev_inv = [subst(x, n, direction, "ite(end_int, 8 * eps, 0)") for x in EVENT_INV]
    ev_post = [subst(x, n, direction, "ite(self.__int_status == 2, 8 * eps, 0)") for x in EVENT_INV]
    sol_inv = list(IC.DENSE_REP if direction > 0 else IC.DENSE_REP_B) if dense else [subst(x, n, direction) for x in sol_rep(direction)]
    # pruning keeps the most recent piece: once this call has recorded a step, the newest piece ends exactly at the current time
    nlen = "len(%s.t_eval)" % SOL
    newest_ix = (nlen + " - 1") if direction > 0 else "0"
    sol_recent = "implies(%s >= 1 and self.counter > old(self.counter), %s.t_eval[%s] == self.__t[self.counter])" % (nlen, SOL, newest_ix)
    lo_inv = [" and ".join("(last_occurrence[%d] == -1 or (n_ev0 <= last_occurrence[%d] and last_occurrence[%d] < len(%s)))" % (j, j, j, EV) for j in range(n))]
    # last_occurrence[k] is the latest record of event k made by this call (-1: none yet)
    for j in range(n):
        lo_inv.append("implies(last_occurrence[%d] == -1, forall(lambda i: implies(n_ev0 <= i and i < len(E_V), E_V[i].ev != %d)))".replace("E_V", EV) % (j, j))
        lo_inv.append("implies(last_occurrence[%d] != -1, E_V[last_occurrence[%d]].ev == %d and forall(lambda i: implies(last_occurrence[%d] < i and i < len(E_V), E_V[i].ev != %d)))".replace("E_V", EV) % (j, j, j, j, j))
    is_term = lambda e: "(" + " or ".join("%s == %d" % (e, k) for k in range(n) if terminals[k]) + ")" if any(terminals) else "False"
    last = "%s[len(%s) - 1]" % (EV, EV)
    # a terminal event ends the call: until then no record of this call names a terminal event; afterwards the last record is the
    # terminal one, the trajectory ends there (buffers trimmed to it) and the status says so
    TERMINAL = ("self.__int_status == 2 and len(E_V) > n_ev0 and " + is_term(last + ".ev") + " and abs(self.__t[self.counter] - " + last + ".t) < 8 * eps"
                " and forall(lambda i: implies(n_ev0 <= i and i < len(E_V) - 1, not " + is_term("E_V[i].ev") + "))").replace("E_V", EV)
    end_inv = ["implies(not end_int, %s)" % (sol_recent if not dense else "True"),
               "implies(not end_int, same(self.__int_status, old(self.__int_status)))",
               "implies(not end_int, forall(lambda i: implies(n_ev0 <= i and i < len(E_V), not %s)))".replace("E_V", EV) % is_term(EV + "[i].ev"),
               "implies(end_int, %s)" % TERMINAL]
    c.loops = {0: {"invariant": inv + ev_inv + sol_inv + lo_inv + end_inv + list(extra_inv), "on_iteration_end": iteration_end, "on_break": iteration_break}}
    # the pruning loop `for _ in range(__pre_length - 1): self.__sol.remove_interpolant(oldest)`, cut by its own invariant (any number of
    # pieces): the dense-output invariant survives every removal, one piece goes per iteration, the newest piece stays where it is
    do_here = [x.replace("self.", SOL + ".") for x in inv_do]
    newest_now = ("len(%s.t_eval) - 1" % SOL) if direction > 0 else "0"
    c.loops["range(__pre_length - 1)"] = {"cut": True,
                  "let": {"prune_len0": "len(%s.t_eval)" % SOL, "prune_newest_key": "%s.t_eval[%s]" % (SOL, newest_now), "prune_newest_id": "%s.y_interpolants[%s].id" % (SOL, newest_now),
                          "prune_newest_t0": "%s.y_interpolants[%s].t0" % (SOL, newest_now)},
                  "invariant": do_here + [
                      # (the step's own piece is still there, or was dropped by the terminal branch: __pre_length + 1 or __pre_length pieces on entry)
                      "len(%s.t_eval) == prune_len0 - iter_index and (prune_len0 == __pre_length + 1 or prune_len0 == __pre_length)" % SOL,
                      "0 <= iter_index and iter_index <= ite(__pre_length >= 1, __pre_length - 1, 0)",
                      "%s.t_eval[%s] == prune_newest_key and %s.y_interpolants[%s].id == prune_newest_id and %s.y_interpolants[%s].t0 == prune_newest_t0" % (
                          SOL, newest_now, SOL, newest_now, SOL, newest_now)]}
    c.requires = c.requires + sol_inv + ["n_ev0 == len(%s)" % EV, "len(%s) >= 0" % EV,
                                         ("tf_ > self.__t[self.counter]" if direction > 0 else "tf_ < self.__t[self.counter]")]
    c.ghost = dict(c.ghost, n_ev0="Int")
    # ---- post: events, representation (so that the next call may start from here), status, end point
    drop = ("self.__int_status == 1", "abs(tf_ - self.__t[self.counter]) < 8 * eps")
    c.ensures = [e for e in c.ensures if not any(d in e for d in drop)] + ev_post + sol_inv + [
        "implies(abs(tf_ - old(self.__t)[old(self.counter)]) >= eps, self.__int_status == 1 or self.__int_status == 2)",
        "implies(self.__int_status == 1, %s)" % (sol_recent if not dense else "True"),
        "implies(self.__int_status == 2, %s)" % TERMINAL,
        "implies(self.__int_status == 1, forall(lambda i: implies(n_ev0 <= i and i < len(E_V), not %s)))".replace("E_V", EV) % is_term(EV + "[i].ev"),
        # without a terminal event the run ends at its target (or a callback set the step to zero)
        "implies(self.__int_status == 1 and abs(tf_ - old(self.__t)[old(self.counter)]) >= eps, abs(tf_ - self.__t[self.counter]) < 8 * eps or self.__dt == 0)",
    ] + list(extra_post)
    if after_failure:
        c.ensures = [e.replace("self.__int_status == 1", "(not (self.__int_status == 2))") for e in c.ensures]
    # exceptional exit: records of earlier calls untouched, and the step interpolants still describe recorded steps only (C12: the
    # next call may start from here)
    c.ensures_exc = list(c.ensures_exc) + ev_post[:2] + sol_inv
    if infinite:
        # integrate(+-inf, events=...): the loop runs until a terminal event ends it (`implicit_integration`); nothing in the contract may
        # mention the (infinite) target: the direction literal replaces it, the only normal exit is the terminal stop
        c.sorts["t"] = ("const", B.InfVal(direction))
        drop_tf = lambda cl: "tf_" not in cl
        inv_all = [x for x in c.loops[0]["invariant"] if drop_tf(x)]
        inv_all[0:0] = ["implicit_integration == True"] + (list(NO_CALLBACK_INV) if not callbacks else [])   # (the guard no longer tests dt != 0)
        c.loops[0] = dict(c.loops[0], invariant=inv_all)
        c.requires = [r for r in c.requires if drop_tf(r)]
        t0_ = "old(self.__t)[old(self.counter)]"
        common_post = ["old(self.counter) <= self.counter",
                       "forall(lambda i: implies(0 <= i and i <= old(self.counter), self.__t[i] == old(self.__t)[i] and self.__y[i] == old(self.__y)[i]))",
                       "forall(lambda i: implies(old(self.counter) < i and i <= self.counter, (%d) * (self.__t[i] - self.__t[i - 1]) > 0))" % direction,
                       "(%d) * (self.__t[self.counter] - %s) >= 0" % (direction, t0_)]
        c.ensures = ["len(self.__t) == self.counter + 1 and len(self.__y) == self.counter + 1"] + common_post + ev_post + sol_inv + ["self.__int_status == 2", TERMINAL]
        c.ensures_exc = [e for e in c.ensures_exc if drop_tf(e)] + common_post
    fields = dict(c.sorts["self"][2])
    if dense:
        fields["_OdeSystem__dense_output"] = ("const", True)
    c.sorts["self"] = ("obj", "OdeSystem", fields)
    orig_make = ex.make_param

    def make_param(name, sort, st):
        if name == "self._OdeSystem__sol":
            return DN.new_dense(st, "sol")
        if name == "self._OdeSystem__events":
            r = B.new_symlist(st, "event", "events")
            return r
        return orig_make(name, sort, st)
    ex.make_param = make_param
    fields["_OdeSystem__events"] = "symlist-event"
    rets = ex.verify(c)
    # vacuity: the branches the post-conditions talk about are reached
    for key, (tries, ok) in sorted(covered.items()):
        if not ok:
            reg.ground("%s/OdeSystem.integrate/cover#iteration-end-reachable[%s]" % (prop, key), "cover", "OdeSystem.integrate", False, backend="z3",
                       detail="no feasible path reaches the end of a loop iteration with this outcome of handle_events (%d tried)" % tries)
    def may_be(s_, x, k):
        if isinstance(x, int) and not isinstance(x, bool):
            return x == k
        if z3.is_expr(x):
            chk = z3.Solver()
            chk.set("timeout", 10000)
            for a_ in ex.global_axioms + s_.pc:
                chk.add(a_)
            chk.add(x == k)
            return chk.check() == z3.sat
        return False
    reach = {1: False, 2: False}
    if os.environ.get("VERIF_TRACE"):
        sys.stderr.write("[rets] %r\n" % [(type(v_).__name__, (s_.obj((s_.ghost.get("_ret_env") or {}).get("self")).fields.get("_OdeSystem__int_status") if isinstance((s_.ghost.get("_ret_env") or {}).get("self"), Ref) else "?")) for s_, v_ in rets][:40])
    for s_, v_ in rets:
        env_ = s_.ghost.get("_ret_env") or {}
        if not isinstance(v_, Raised) and isinstance(env_.get("self"), Ref):
            x = s_.obj(env_["self"]).fields.get("_OdeSystem__int_status")
            for k in (1, 2):
                if not reach[k] and may_be(s_, x, k):
                    reach[k] = True
    tag = "OdeSystem.integrate"
    explored = all_outcomes(n, terminals) if outcomes is None else [o for o in outcomes if not isinstance(o, str)]
    if after_failure:
        # the loop-head abstraction keeps the status *object* of the pre-state (an exception value cannot become an integer under havoc):
        # the exit with status 2 is therefore decided at the end of the terminating iteration (obligation above), not at the return
        pass
    elif not infinite:
        reg.ground("%s/%s/cover#a-normal-return-with-status-1" % (prop, tag), "cover", tag, reach[1], backend="z3")
    if not after_failure and any(terminals[i] for o in explored for i in o):
        reg.ground("%s/%s/cover#a-normal-return-with-status-2-after-a-terminal-event" % (prop, tag), "cover", tag, reach[2], backend="z3")
    return ex, c, rets


# ----------------------------------------------------------------------------------------------------------------
# jobs (run in parallel processes by props/common.run_jobs)
# ----------------------------------------------------------------------------------------------------------------
def config_label(n, terminals, direction, callbacks=0, dense=False, infinite=False):
    return "integrate[events=%d,terminal=%s,%s%s%s%s]" % (n, "".join("T" if x else "f" for x in terminals), "forward" if direction > 0 else "backward",
                                                           ",callback" if callbacks else "", ",dense" if dense else "", ",target=inf" if infinite else "")


def all_outcomes(n, terminals):
    out = []
    for k in range(0, n + 1):
        for idxs in itertools.permutations(range(n), k):
            term = [terminals[i] for i in idxs]
            if not any(term[:-1]):
                out.append(tuple(idxs))
    return out


def outcome_partition(n, terminals):
    """parts of the outcomes of handle_events that are verified by separate jobs: the raising and at-most-one-root outcomes together,
    every outcome with two or more roots on its own"""
    outs = all_outcomes(n, terminals)
    small = [o for o in outs if len(o) <= 1]
    parts = [["raise"] + small] + [[o] for o in outs if len(o) >= 2]
    return parts


def job_events(reg, src, prop, n, terminals, direction, callbacks=0, outcomes=None, part=None, dense=False, infinite=False, after_failure=False):
    label = config_label(n, terminals, direction, callbacks, dense, infinite) + (",after-a-failure" if after_failure else "") + ("" if part is None else "#part%d" % part)
    outs = None if outcomes is None else [tuple(o) if not isinstance(o, str) else o for o in outcomes]
    ex, c, rets = verify_integrate_events(src, reg, "%s/%s" % (prop, label), n=n, terminals=tuple(terminals), direction=direction, callbacks=callbacks, outcomes=outs, dense=dense, infinite=infinite,
                                          after_failure=after_failure)
    return dict(ex.stats)


def event_jobs(prop, n, terminals, direction, dense=False):
    """the jobs that together verify one configuration"""
    if n < 2:
        return [dict(fn="props.integrate_events:job_events", label="%s/%s" % (prop, config_label(n, terminals, direction, 0, dense)),
                     kwargs=dict(prop=prop, n=n, terminals=list(terminals), direction=direction, dense=dense))]
    jobs = []
    for k, part in enumerate(outcome_partition(n, terminals)):
        jobs.append(dict(fn="props.integrate_events:job_events", label="%s/%s#part%d" % (prop, config_label(n, terminals, direction, 0, dense), k),
                         kwargs=dict(prop=prop, n=n, terminals=list(terminals), direction=direction, dense=dense, outcomes=[list(o) if not isinstance(o, str) else o for o in part], part=k)))
    return jobs


def recursive_jobs(prop, configs):
    """integrate's own contract in the forms the recursive call uses it, one proof per (dense, direction) that occurs"""
    jobs = [dict(fn="props.integrate_events:job_recursive", label=prop + "/integrate[no-events]", kwargs=dict(prop=prop))]
    for (dense, d) in sorted({(c[3], c[2]) for c in configs if c[3] and any(c[1])}):
        jobs.append(dict(fn="props.integrate_events:job_recursive", label="%s/integrate[no-events,dense,%s]" % (prop, "forward" if d > 0 else "backward"), kwargs=dict(prop=prop, dense=True, direction=d)))
    return jobs


def job_recursive(reg, src, prop, dense=False, direction=1):
    ex, c, rets = verify_recursive_contract(src, reg, prop + "/integrate[no-events,no-callback%s%s]" % (",dense" if dense else "", ",backward" if direction < 0 else ""), dense=dense, direction=direction)
    return dict(ex.stats)


def job_remove(reg, src, prop):
    """the DenseOutput contracts the event block relies on, proved in the same run (add / remove / lookup, both directions)"""
    DN.check_add_interpolant(reg, src, prop)
    DN.check_remove_interpolant(reg, src, prop)
    for d in ("forward", "backward"):
        DN.check_lookup(reg, src, prop, d)
    return {}


def job_status(reg, src, prop):
    """OdeSystem.success / integration_status: status 2 (terminated by an event) is reported as a success, in words that say so."""
    for status, want_success, word in ((0, False, "not been run"), (1, True, "completed successfully"), (2, True, "terminated upon finding a triggered event")):
        ex = Executor(src, reg, prop=prop)
        st = State()
        ref = st.new_obj("OdeSystem", fields={"_OdeSystem__int_status": status})
        fi = src.func(F, "OdeSystem.success")
        paths = ex.call_function(fi, [ref], {}, st, Ctx(fi, None, fi.cls, tag="OdeSystem.success"))
        ok = len(paths) == 1 and (paths[0][1] is want_success or (z3.is_expr(paths[0][1]) and z3.simplify(paths[0][1]).eq(z3.BoolVal(want_success))))
        reg.ground("%s/OdeSystem.success[status=%d]/is-%s" % (prop, status, want_success), "post", "OdeSystem.success", bool(ok), backend="symbolic-exec", detail=repr(paths[0][1]) if paths else None)
        fi = src.func(F, "OdeSystem.integration_status")
        paths = ex.call_function(fi, [ref], {}, st, Ctx(fi, None, fi.cls, tag="OdeSystem.integration_status"))
        ok = len(paths) == 1 and isinstance(paths[0][1], str) and word in paths[0][1]
        reg.ground("%s/OdeSystem.integration_status[status=%d]/message" % (prop, status), "post", "OdeSystem.integration_status", bool(ok), backend="symbolic-exec",
                   detail=repr(paths[0][1]) if paths else None)
    return {}
