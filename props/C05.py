"""C05 -- adaptive integration keeps the global error proportional to the tolerances.

Proved (E1): the step controller update_timestep from its body (returns corr*h with 1 - pi/4 <= corr < 1 + pi/2, redo iff corr < 0.81,
writes only its own memory), the implicit-aware wrapper, and RungeKuttaIntegrator.__call__ over its control skeleton: every retry after
a controller rejection is strictly smaller in magnitude and of the same sign, a normal return implies the last controller verdict was
'accept' (and Newton converged), otherwise FailedToMeetTolerances escapes -- and integrate() records nothing for a failed step
(exceptional post-condition of integrate).
Not expressible by a contract within reach: the headline clause (global error <= K*(atol + rtol|y|)*amplification) is an asymptotic
statement about floating-point runs against exact solutions: bounded native family only, labelled bounded.
"""
from pyvc import source, solver
from pyvc.executor import Unsupported
from . import common, integrate_core as IC, intcall, C03

PID = "C05"


def run(tier):
    R = common.Run(PID, "other", tier)
    R.assume("A1", "A2", "A3", "A7")
    R.assume(intcall.AXIOM_TEXT)
    R.assume("the error-bound clause is NOT proved: it is covered by a bounded native family only (listed under coverage.bounded); the constant K and the problem's own amplification are not derived")
    R.assume("Richardson-extrapolated wrappers: __call__ is verified with adaptive_richardson returning the whole requested step (fixed-step basis; its extrapolation part is C01) and the recursive retry replaced by the wrapper's own contract (induction on the retry depth); termination of its halving / doubling loops = the proved progress condition + geometric approach of a fixed non-zero bound (not mechanised)")
    R.trust("z3", "pyvc executor", "transcendental axioms listed in assumptions")
    src = source.load_all()
    reg = solver.Registry(solver.THOROUGH_TIMEOUT_MS if tier == "thorough" else 20000)
    R.add_registry(reg)
    try:
        C03.integrator_contracts(R, reg, src, PID)
        R.under_contract(intcall.check_controller_error_measure(reg, src, PID))
        # the tolerances the controller reads are the system's: a tolerance assigned later rebuilds the integrator (every kind of
        # integrator class, also the wrappers that copy the tolerances once at construction) from the current settings
        from . import ctor
        for fi in ctor.check_setters(reg, src, PID):
            if fi.qualname.split(".")[1] in ("rtol", "atol"):
                R.under_contract(fi)
        R.under_contract(intcall.check_richardson_call(reg, src, PID))
        # ... and over an adaptive base method every pass of the extrapolation table covers the interval the first pass covered, both directions
        from . import richardson_extract as RE
        for levels in (2, 3, 4):
            R.under_contract(RE.verify_common_interval(src, reg, levels, PID))
        R.under_contract(RE.check_factory(src, reg, PID, levels=(2, 3, 4)))
        for fi in IC.verify_helpers(src, reg, PID):
            R.under_contract(fi)
        R.under_contract(src.func(IC.F, "OdeSystem.integrate"))
        IC.verify_integrate(src, reg, PID + "/integrate", callbacks=0)
    except Unsupported as e:
        reg.undecided(PID + "/executor/unsupported", "unsupported", "executor", str(e))
    nat = None
    try:
        nat = common.run_native("monitor/native_c05.py", dict(tier=tier, seed=R.seed), timeout=2400)
        R.bounded.append(dict(name="native global-error family (clause (a), bounded stand-in, never counted as proved)", bound=nat["bound"], cases=nat["cases"],
                              worst_ratio_per_method=nat["worst_ratio_per_method"], K=nat["K"], failing_clauses={k: len(v) for k, v in nat["failures"].items()}, label="bounded"))
    except Exception as e:
        R.notes.append("native family could not run: %r" % (e,))
    C03.triage(R, reg, nat)
    R.extra_cov["explanation"] = ("clauses (b) retry strictly smaller / same sign and (c) accepted-or-raise are proved for all inputs by %d discharged obligations on the real update_timestep, "
                                  "implicit_aware_update_timestep, RungeKuttaIntegrator.__call__ and integrate; clause (a) error <= K*tol*amplification is only exercised by the bounded native family"
                                  % sum(1 for o in reg.obligations if o.discharged))
    R.extra_cov["clauses"] = {"a": "bounded only", "b": "proved", "c": "proved"}
    return R.finish()
