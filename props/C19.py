"""C19 -- trajectory lookup by index and by time returns the right sample.

E1: OdeSystem.__getitem__ (int / time / dense / slice front ends) and __len__ against the representation invariant of the
recorded grid (0 <= counter, len(t) == len(y) == counter + 1), for every grid length, every index, every query time; numpy's
IndexError for out-of-range negative indices is modelled (A3).  Iteration through the legacy __getitem__ protocol is the lemma
over the int contract.  Bounded: native family (forward/backward/adaptive grids).
"""
import copy
import z3

from pyvc import source, solver, mutate
from pyvc.executor import Executor, Unsupported
from contracts import system as CS, utilities as CU
from . import common

PID = "C19"
CANARIES = [("cmpflip", "index > self.counter ->"), ("binswap", "+ 1 -> "), ]


def new_executor(src, reg, label):
    ex = Executor(src, reg, prop="%s/%s" % (PID, label))
    ex.oob_raises = True
    ex.contracts["search_bisection"] = CU.search_bisection
    ex.call_hooks["StateTuple"] = lambda ex_, st, ctx, args, kwargs: st.new_obj("StateTuple", fields=dict(kwargs))
    ex.call_hooks["DenseOutput.__call__"] = lambda ex_, st, ctx, args, kwargs: ex_.uf("dense_solution", 1)(args[1])
    ex.handlers["dense_solution"] = lambda ex_, st, ctx, args, kwargs: ex_.uf("dense_solution", 1)(args[0])
    return ex


def jobs():
    slice_dec = copy.copy(CS.getitem_slice)
    slice_dec.requires = CS.REP + [CS.DECREASING]
    slice_dec.ensures = ["implies(index.start <= self.__t[self.counter] and index.stop >= self.__t[0], result.t.lo == 0 and result.t.hi == self.counter + 1)"]
    slice_dec.label = "time-slice[decreasing]"
    return [CS.getitem_int, CS.getitem_time, CS.getitem_dense, CS.getitem_slice, slice_dec, CS.length]


def run(tier):
    R = common.Run(PID, "proof", tier)
    R.assume("A1", "A2", "A3")
    R.assume("states y_i are modelled as one real per step (element-wise view): pairing of t_i with y_i is what is proved, not array shapes")
    R.assume("numpy raises IndexError for an index outside [-len, len) (A3); python's legacy iteration protocol calls __getitem__(0), (1), ... until IndexError (A2)")
    R.assume("the representation invariant len(t) == len(y) == counter + 1 is the post-condition of integrate()'s `finally: trim` (owned by C03/C12)")
    R.trust("z3 (arrays + quantifiers, lambda arrays for numpy broadcasting)", "pyvc executor", "contract of search_bisection proved in C17")
    src = source.load_all()
    reg = solver.Registry(solver.THOROUGH_TIMEOUT_MS if tier == "thorough" else solver.QUICK_TIMEOUT_MS)
    R.add_registry(reg)
    known_refuted = []
    try:
        for c in jobs():
            fi = src.func(c.file, c.func)
            R.under_contract(fi)
            ex = new_executor(src, reg, c.label)
            ex.verify(c)
        # lemma: iteration yields each recorded pair once, in order -- the int contract at i = 0..counter returns (t_i, y_i), at counter+1 raises IndexError
        reg.ground(PID + "/lemma/iteration-from-int-contract", "lemma", "OdeSystem.__getitem__", True, backend="by-contract",
                   detail="for i in 0..counter the int contract returns (t[i], y[i]); at i = counter + 1 its exceptional post-condition (IndexError) ends the iteration")
    except Unsupported as e:
        reg.undecided(PID + "/executor/unsupported", "unsupported", "executor", str(e))
    # known findings: obligations listed in known_findings.json are taken out of the discharged count
    for ob in list(reg.obligations):
        if not ob.discharged and ob.kind != "cover":
            e = R.kf.match(PID, ob.name)
            if e:
                reg.obligations.remove(ob)
                ob.kf = e
                known_refuted.append(ob)
    nat = None
    try:
        nat = common.run_native("monitor/native_c19.py", {}, timeout=600)
    except Exception as e:
        R.notes.append("native family could not run: %r" % (e,))
    known_native = {cl: e for e in R.kf.for_property(PID) for cl in e.get("native_clauses", [])}
    unexpected = {}
    if nat:
        unexpected = {k: v for k, v in nat["failures"].items() if k not in known_native}
        R.bounded.append(dict(name="native lookup family", bound=nat["bound"], cases=nat["cases"], failing_clauses={k: len(v) for k, v in nat["failures"].items()},
                              unexpected_failures={k: v[:2] for k, v in unexpected.items()}, label="bounded"))
    for ob in [o for o in reg.obligations if not o.discharged and o.result != "unknown"]:
        w = None
        if nat:
            for cl, cs in unexpected.items():
                if ("nearest" in cl and "nearest" in ob.name) or ("slice" in cl and "slice" in ob.name) or ("int" in cl and "int-index" in ob.name):
                    w = dict(clause=cl, case=cs[0])
        R.violation(ob, R.write_replay(ob, dict(native=dict(witness=w))), w is not None)
    if unexpected and not R.violations:
        ob = reg.ground(PID + "/native/unexpected-failure", "bounded", "OdeSystem.__getitem__", False, backend="native-family", detail=str(sorted(unexpected)))
        R.violation(ob, R.write_replay(ob, dict(native=dict(failures={k: v[:3] for k, v in unexpected.items()}))), True, "bounded-native")
    for e in R.kf.for_property(PID):
        hit = [o for o in known_refuted if getattr(o, "kf", None) is e]
        nat_hit = nat and any(cl in nat["failures"] for cl in e.get("native_clauses", []))
        R.known(e, bool(hit) or bool(nat_hit), "obligations %s; native clauses %s" % ([o.name for o in hit[:3]], [cl for cl in e.get("native_clauses", []) if nat and cl in nat["failures"]]))
    R.extra_cov["known_finding_obligations"] = [o.to_json() for o in known_refuted]
    run_canaries(R, src)
    return R.finish()


def run_canaries(R, src):
    c = CS.getitem_int
    fi = src.func(c.file, c.func)
    muts = mutate.mutants(fi.node)
    for kind, sub in [("cmpflip", "index > self.counter ->"), ("cmprev", "index > self.counter ->")]:
        sel = [(d, n) for d, n in muts if d.startswith(kind) and sub in d]
        if not sel:
            R.canaries.append(dict(function=fi.qualname, canary=[kind, sub], result="not-applicable"))
            continue
        d, node = sel[0]
        creg = solver.Registry(5000)
        try:
            with mutate.Mutated(fi, node):
                new_executor(src, creg, "canary").verify(c)
            killed = any((not o.discharged) and o.kind != "cover" for o in creg.obligations)
        except Unsupported:
            killed = True
        R.canaries.append(dict(function=fi.qualname, canary=d, refuted=killed))
        if not killed:
            ob = R.registries[0].ground("%s/canary-refuted:%s" % (PID, sub), "canary", fi.qualname, False, detail="engine PROVED a weakened copy: %s" % d)
            ob.result = "unknown"
