"""C07 -- reported events are genuine, correctly located, ordered and unique.

E1, function by function:
  handle_events (real text, n = 1, 2 event functions, all 3^n directions x 2^n terminal flags, both time directions, root finder by
    the per-element contract proved in C14): every returned root lies inside the step, is certified by the root finder
    (|g(root, sol(root))| <= eps or a sign change inside an eps-bracket), the returned lists are the active events in integration
    order, a root returned for direction +1 / -1 has a pair of samples around it showing an upward / downward crossing;
  OdeSystem.integrate with events (real text; props/integrate_events.py): records of earlier calls untouched; every record of this
    call lies between the start of the call and the current time, inside the step it was found in; the recorded state is the dense
    solution evaluated at the recorded time (the sol(t) query is answered by a piece containing t: C06 contract, whose
    pre-condition -- DO_Inv of the real DenseOutput, query inside the newest piece -- is proved at the call site); records are in
    integration order; two records of the same event made by one call are more than eps^0.7 apart (loop invariant over
    last_occurrence: it is the index of the latest record of that event).
Bounded (native): closeness to the exact root of closed-form problems, all methods families, dense output kept.
"""
from pyvc import source, solver
from pyvc.executor import Unsupported
from . import common, evcommon as EC, integrate_events as IE, events as EV, integrate_core as IC

PID = "C07"


def run(tier):
    R = common.Run(PID, "proof", tier)
    R.assume("A1", "A2", "A3", "A4", "A7")
    for a in EC.ASSUME_EVENTS:
        R.assume(a)
    R.assume("uniqueness is per call of integrate(): last_occurrence is local to the call (a crossing re-detected by a *later* call that starts on it is the known finding F27)")
    R.trust("z3", "pyvc executor", "contract of the vectorised Brent root finder proved in C14", "contract of DenseOutput lookups proved in C06")
    src = source.load_all()
    reg = solver.Registry(solver.THOROUGH_TIMEOUT_MS if tier == "thorough" else 30000)
    R.add_registry(reg)
    jobs = [dict(fn="props.events:job_handle_events", label="%s/handle_events[n=%d]" % (PID, n), kwargs=dict(prop=PID, n=n)) for n in ((1, 2, 3) if tier == "thorough" else (1, 2))]
    cfgs = EC.configs(tier, "nonterminal") + EC.configs(tier, "terminal")[:1 if tier == "quick" else None]
    for n, terms, d, dense in cfgs:
        jobs.extend(IE.event_jobs(PID, n, terms, d, dense))
    jobs.extend(IE.recursive_jobs(PID, cfgs))
    EC.obligations_of(reg, R, jobs)
    # the recorded state/time pairs are judged by the event's own function: wrapper k given to the root finder is event k on the dense solution
    from . import events as EV
    EV.check_event_wrappers(reg, src, PID)
    for name in ("handle_events", "prepare_events", "OdeSystem.integrate", "DenseOutput.add_interpolant", "DenseOutput.remove_interpolant", "DenseOutput.__len__"):
        R.under_contract(src.func(IC.F, name))
    R.samples.append(dict(contract="OdeSystem.integrate[events]", loop_invariant=[IE.subst(x, 2, 1, "ite(end_int, 8 * eps, 0)") for x in IE.EVENT_INV]))
    return EC.finish(R, reg, ["C07"], tier, "native event family (state = dense solution, |g| small, inside the run, close to the exact root, direction, order, no duplicates; 1..6 events, scales 1e-6..1e6, both directions, dense on/off)")
