"""DenseOutput under contract (shared by C06, C07/C08/C09).

Abstract view: t_eval (list of step-end times, symbolic length) and y_interpolants (list of pieces, each with its interval
[t0, t1] and an identity), the cached array __t_eval_arr with its stale flag.
DO_Inv (forward runs):  equal lengths; t_eval strictly increasing; piece i spans [t0_i, t_eval[i]] with t0_i < t_eval[i]; piece i >= 1
                        starts at or after t_eval[i-1] (pieces do not overlap; with dense output kept they are adjacent -- that is
                        proved of integrate() in props/integrate_core.py -- without it the step rolled back at a terminal event
                        leaves a gap); the orientation flag __t_decreasing is False.
DO_Inv_b (backward runs, pieces inserted at the front): t_eval strictly increasing; piece i spans [t_eval[i], t0_i] (it ends at its
                        lower end); piece i < n-1 starts at or below t_eval[i+1]; __t_decreasing is True once two pieces exist.
CacheInv: the cached array is stale or equals the list.
"""
import z3

from pyvc.executor import Executor, State, Ctx, Raised, Unsupported, Contract
from pyvc.values import Ref, SeqVal, fresh_name, to_bool
from pyvc import builtins as B
from contracts import utilities as CU

F = "desolver/differential_system.py"
N = "len(self.t_eval)"

COMMON = [N + " == len(self.y_interpolants)",
          "forall(lambda i, j: implies(0 <= i and i < j and j < " + N + ", self.t_eval[i] < self.t_eval[j]))",
          "forall(lambda i: implies(0 <= i and i < " + N + ", self.y_interpolants[i].t1 == self.t_eval[i]))"]
DO_INV = COMMON + ["forall(lambda i: implies(1 <= i and i < " + N + ", self.y_interpolants[i].t0 >= self.t_eval[i - 1]))",
                   "forall(lambda i: implies(0 <= i and i < " + N + ", self.y_interpolants[i].t0 < self.t_eval[i]))",
                   "self._DenseOutput__t_decreasing == False"]
DO_INV_B = COMMON + ["forall(lambda i: implies(0 <= i and i < " + N + " - 1, self.y_interpolants[i].t0 <= self.t_eval[i + 1]))",
                     "forall(lambda i: implies(0 <= i and i < " + N + ", self.y_interpolants[i].t0 > self.t_eval[i]))",
                     "implies(" + N + " >= 2, self._DenseOutput__t_decreasing)"]
CACHE_INV = ["self.__t_eval_arr_stale or (len(self.__t_eval_arr) == " + N + " and forall(lambda i: implies(0 <= i and i < " + N + ", self.__t_eval_arr[i] == self.t_eval[i])))"]


def new_dense(st, prefix="sol", stale=None):
    te = B.new_symlist(st, "real", prefix + "_te")
    yi = B.new_symlist(st, "piece", prefix + "_yi")
    cache = SeqVal.fresh(prefix + "_cache")
    ref = st.new_obj("DenseOutput", fields={"t_eval": te, "y_interpolants": yi, "_DenseOutput__t_eval_arr": cache,
                                           "_DenseOutput__t_decreasing": z3.Bool(fresh_name(prefix + "_decreasing")),
                                           "_DenseOutput__t_eval_arr_stale": z3.Bool(fresh_name(prefix + "_stale")) if stale is None else stale})
    st.assume(st.obj(te).fields["len"] >= 0)
    st.assume(st.obj(yi).fields["len"] >= 0)
    st.assume(cache.length >= 0)
    return ref


def new_piece(st, prefix="piece"):
    return st.new_obj("CubicHermiteInterp", fields=dict(t0=z3.Real(fresh_name(prefix + "_t0")), t1=z3.Real(fresh_name(prefix + "_t1")), id=z3.Int(fresh_name(prefix + "_id"))))


def install(ex):
    ex.contracts["search_bisection"] = CU.search_bisection
    ex.contracts["search_bisection_vec"] = CU.search_bisection_vec

    def piece_call(ex_, st, ctx, args, kwargs):
        p = st.obj(args[0]).fields
        return ex_.uf("piece_value", 2)(z3.ToReal(p["id"]), z3.ToReal(0) + args[1] if False else args[1])

    def piece_grad(ex_, st, ctx, args, kwargs):
        p = st.obj(args[0]).fields
        return ex_.uf("piece_grad", 2)(z3.ToReal(p["id"]), args[1])
    ex.call_hooks["CubicHermiteInterp.__call__"] = piece_call
    ex.call_hooks["CubicHermiteInterp.grad"] = piece_grad
    ex.inline.update(["DenseOutput.find_interval", "DenseOutput.find_interval_vec"])


def assume_all(ex, st, ctx, clauses, extra=None):
    for c in clauses:
        st.assume(to_bool(ex.eval_spec(c, st, ctx, extra=extra)))


def prove_all(ex, st, ctx, clauses, kind, label, extra=None):
    ex.prove_many(st, ctx, [(ex.eval_spec(c, st, ctx, extra=extra), kind, "%s#%d" % (label, i), None) for i, c in enumerate(clauses)])


def method_ctx(src, name, tag=None):
    fi = src.func(F, "DenseOutput." + name)
    return fi, Ctx(fi, None, fi.cls, tag=tag or ("DenseOutput." + name))


def check_add_interpolant(reg, src, prop):
    out = []
    # ---- first piece: empty dense output (fresh object: t_eval is None; or emptied by remove_interpolant: empty lists)
    for variant in ("first", "first-after-emptying"):
        ex = Executor(src, reg, prop=prop)
        install(ex)
        fi, ctx = method_ctx(src, "add_interpolant", "DenseOutput.add_interpolant[%s]" % variant)
        st = State()
        yl = st.new_obj("list", "list", items=[])
        tl = None if variant == "first" else st.new_obj("list", "list", items=[])
        ref = st.new_obj("DenseOutput", fields={"t_eval": tl, "y_interpolants": yl, "_DenseOutput__t_eval_arr": None, "_DenseOutput__t_eval_arr_stale": False,
                                               "_DenseOutput__t_decreasing": False})
        piece = new_piece(st)
        t = st.obj(piece).fields["t1"]
        for k, (s, v) in enumerate(ex.call_function(fi, [ref, t, piece], {}, st, ctx)):
            o = s.obj(ref).fields
            ok = (not isinstance(v, Raised)) and isinstance(o["t_eval"], Ref) and s.obj(o["t_eval"]).items == [t] and s.obj(o["y_interpolants"]).items == [piece] \
                and o["_DenseOutput__t_eval_arr_stale"] is True and o["_DenseOutput__t_decreasing"] is False
            reg.ground("%s/%s/single-piece-recorded#%d" % (prop, ctx.tag, k), "post", "DenseOutput.add_interpolant", ok, backend="symbolic-exec",
                       detail="t_eval == [t], y_interpolants == [piece], cache marked stale, orientation flag untouched")
        out.append(fi)
    # ---- forward and backward
    for direction, inv in (("forward", DO_INV), ("backward", DO_INV_B)):
        ex = Executor(src, reg, prop=prop)
        install(ex)
        fi, ctx = method_ctx(src, "add_interpolant", "DenseOutput.add_interpolant[%s]" % direction)
        st = State()
        ref = new_dense(st)
        piece = new_piece(st)
        pf = st.obj(piece).fields
        t = z3.Real("t_new")
        st.env = {"self": ref}
        assume_all(ex, st, ctx, inv + CACHE_INV)
        st.assume(st.obj(st.obj(ref).fields["t_eval"]).fields["len"] >= 1)
        env = {"self": ref, "y_interp": piece, "t": t}
        if direction == "forward":
            assume_all(ex, st, ctx, ["y_interp.t0 >= self.t_eval[" + N + " - 1]", "y_interp.t1 == t", "t > y_interp.t0"], extra=env)
        else:
            assume_all(ex, st, ctx, ["y_interp.t0 <= self.t_eval[0]", "y_interp.t1 == t", "t < y_interp.t0"], extra=env)
        reg.cover("%s/%s/cover#requires" % (prop, ctx.tag), ctx.tag, ex.global_axioms + st.pc)
        n0 = st.obj(st.obj(ref).fields["t_eval"]).fields["len"]
        for k, (s, v) in enumerate(ex.call_function(fi, [ref, t, piece], {}, st, ctx)):
            if isinstance(v, Raised):
                reg.ground("%s/%s/no-exception#%d" % (prop, ctx.tag, k), "post-exc", "DenseOutput.add_interpolant", False, detail=repr(v.exc))
                continue
            s.env = {"self": ref}
            prove_all(ex, s, ctx, inv + CACHE_INV, "post", "invariant-preserved.path%d" % k)
            n1 = s.obj(s.obj(ref).fields["t_eval"]).fields["len"]
            ex.prove(s, ctx, n1 == n0 + 1, "post", "one-piece-added.path%d" % k)
            where = (N + " - 1") if direction == "forward" else "0"
            ex.prove(s, ctx, ex.eval_spec("self.t_eval[%s] == t and self.y_interpolants[%s].id == y_interp.id" % (where, where), s, ctx, extra=env), "post",
                     "new-piece-keyed-by-its-end-time.path%d" % k)
            if direction == "backward":
                ex.prove(s, ctx, ex.eval_spec("self._DenseOutput__t_decreasing", s, ctx, extra=env), "post", "orientation-flag-set.path%d" % k)
        out.append(fi)
    return out


def check_remove_interpolant(reg, src, prop):
    """remove_interpolant(0) / (-1): which piece goes in which direction of the run; the invariants survive (also when the last piece goes)."""
    fi = None
    for direction, inv, idx, which in (("forward", DO_INV, 0, "oldest"), ("forward", DO_INV, -1, "newest"), ("backward", DO_INV_B, -1, "oldest"), ("backward", DO_INV_B, 0, "newest")):
        ex = Executor(src, reg, prop=prop)
        install(ex)
        fi, ctx = method_ctx(src, "remove_interpolant", "DenseOutput.remove_interpolant[%s,%s]" % (which, direction))
        st = State()
        ref = new_dense(st)
        st.env = {"self": ref}
        assume_all(ex, st, ctx, inv + CACHE_INV)
        n0 = st.obj(st.obj(ref).fields["t_eval"]).fields["len"]
        st.assume(n0 >= 1)
        reg.cover("%s/%s/cover#requires" % (prop, ctx.tag), ctx.tag, ex.global_axioms + st.pc)
        newest = (N + " - 1") if direction == "forward" else "0"
        oldest = "0" if direction == "forward" else (N + " - 1")
        keep = newest if which == "oldest" else oldest
        kept_before = ex.eval_spec("self.y_interpolants[%s].id" % keep, st, ctx.child_spec())
        gone = ex.eval_spec("self.y_interpolants[%s].id" % (oldest if which == "oldest" else newest), st, ctx.child_spec())
        for k, (s, v) in enumerate(ex.call_function(fi, [ref, idx], {}, st, ctx)):
            if isinstance(v, Raised):
                reg.ground("%s/%s/no-exception#%d" % (prop, ctx.tag, k), "post-exc", "DenseOutput.remove_interpolant", False, detail=repr(v.exc))
                continue
            s.env = {"self": ref}
            prove_all(ex, s, ctx, inv + CACHE_INV, "post", "invariant-preserved.path%d" % k)
            n1 = s.obj(s.obj(ref).fields["t_eval"]).fields["len"]
            ex.prove(s, ctx, z3.And(n1 == n0 - 1, z3.Implies(n0 >= 2, ex.eval_spec("self.y_interpolants[%s].id" % keep, s, ctx.child_spec()) == kept_before)),
                     "post", "%s-piece-removed-the-other-end-kept.path%d" % (which, k))
            removed = s.obj(v[1]).fields["id"] if isinstance(v, tuple) and isinstance(v[1], Ref) else None
            reg.ground("%s/%s/returns-the-removed-piece#%d" % (prop, ctx.tag, k), "post", "DenseOutput.remove_interpolant", removed is not None, backend="symbolic-exec")
            if removed is not None:
                ex.prove(s, ctx, removed == gone, "post", "removed-piece-is-the-%s.path%d" % (which, k))
    return fi


def check_lookup(reg, src, prop, direction="forward"):
    """find_interval / __call__ (scalar) / find_interval_vec (lifted): a query inside some piece is answered by a piece that contains it."""
    inv = DO_INV if direction == "forward" else DO_INV_B
    out = []
    for which in ("__call__", "grad", "find_interval_vec"):
        ex = Executor(src, reg, prop=prop)
        install(ex)
        fi, ctx = method_ctx(src, which, "DenseOutput.%s[%s]" % (which, direction))
        if which == "find_interval_vec":
            ctx.lifted = True
        st = State()
        ref = new_dense(st)
        st.env = {"self": ref}
        assume_all(ex, st, ctx, inv + CACHE_INV)
        n = st.obj(st.obj(ref).fields["t_eval"]).fields["len"]
        st.assume(n >= 1)
        q = z3.Real("query")
        # query inside one of the pieces
        r0 = z3.Int("piece_of_query")
        st.assume(to_bool(ex.eval_spec("0 <= r0 and r0 < " + N + " and between(q, self.y_interpolants[r0].t0, self.y_interpolants[r0].t1)", st, ctx.child_spec(), extra={"r0": r0, "q": q})))
        reg.cover("%s/%s/cover#requires" % (prop, ctx.tag), ctx.tag, ex.global_axioms + st.pc)
        for k, (s, v) in enumerate(ex.call_function(fi, [ref, q], {}, st, ctx)):
            if isinstance(v, Raised):
                reg.ground("%s/%s/no-exception#%d" % (prop, ctx.tag, k), "post-exc", "DenseOutput." + which, False, detail=repr(v.exc))
                continue
            s.env = {"self": ref}
            if which == "find_interval_vec":
                r = v
                contains = ex.eval_spec("0 <= r and r < " + N + " and between(q, self.y_interpolants[r].t0, self.y_interpolants[r].t1)", s, ctx, extra={"r": r, "q": q})
                ex.prove(s, ctx, contains, "post", "piece-contains-query.path%d" % k)
            else:
                fn = ex.uf("piece_value" if which == "__call__" else "piece_grad", 2)
                r = z3.Int(fresh_name("r"))
                goal = ex.eval_spec("0 <= r and r < " + N + " and between(q, self.y_interpolants[r].t0, self.y_interpolants[r].t1)", s, ctx, extra={"r": r, "q": q})
                pid = ex.eval_spec("self.y_interpolants[r].id", s, ctx.child_spec(), extra={"r": r})
                ex.prove(s, ctx, z3.Exists([r], z3.And(goal, v == fn(z3.ToReal(pid), q))), "post", "answered-by-the-piece-containing-the-query.path%d" % k)
        out.append(fi)
    return out


def check_t_eval_arr(reg, src, prop):
    ex = Executor(src, reg, prop=prop)
    install(ex)
    fi = src.func(F, "DenseOutput.t_eval_arr")
    ctx = Ctx(fi, None, fi.cls, tag="DenseOutput.t_eval_arr")
    st = State()
    ref = new_dense(st)
    st.env = {"self": ref}
    assume_all(ex, st, ctx, CACHE_INV)
    for k, (s, v) in enumerate(ex.call_function(fi, [ref], {}, st, ctx)):
        s.env = {"self": ref}
        goal = ex.eval_spec("len(r) == " + N + " and forall(lambda i: implies(0 <= i and i < " + N + ", r[i] == self.t_eval[i]))", s, ctx, extra={"r": v})
        ex.prove(s, ctx, goal, "post", "cached-array-equals-the-list.path%d" % k)
        prove_all(ex, s, ctx, CACHE_INV, "post", "cache-invariant.path%d" % k)
    return fi
