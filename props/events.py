"""handle_events under contract (shared by C07, C08, C09).

The real handle_events is executed symbolically for n = 1, 2 (thorough: 3) event functions g_k(t, y) (uninterpreted), every
combination of requested directions and terminal flags, both time directions (t_next - t_prev of either sign, symbolic), with
the vectorised root finder replaced by the per-element contract proved in C14 and the dense solution by an uninterpreted y(t).
`nonzero` / `argsort` fork the path (one path per subset / permutation).
"""
import itertools
from fractions import Fraction
import z3

from pyvc.executor import Executor, State, Ctx, Raised, Unsupported
from pyvc.values import UFunc, ConcVec, Ref, Opaque, fresh_name, to_bool, to_real
from . import intcall

F = "desolver/differential_system.py"


def zabs(x):
    return z3.If(x >= 0, x, -x)


def install_root_finder(ex, st_holder):
    def root_finder(ex_, st, ctx, args, kwargs):
        ev_f, bounds = args[0], args[1]
        if isinstance(ev_f, Opaque) and ev_f.tag.split("!")[0] == "module_state":
            # the functions given to the root finder were taken out of module-level state: they are whatever an earlier call -- of this
            # or of another system, before or after a reset() -- stored there, wrapping *that* call's dense solution and constants
            ex_.reg.ground("%s/%s/event-functions-are-built-from-this-call's-dense-solution" % (ex_.prop, ctx.tag), "post", "handle_events", False, backend="symbolic-exec (dataflow)",
                           detail="root_finder is given a value read from a module-level container; its content at entry is not determined by the arguments of this call")
            raise Unsupported("event functions taken from module-level state")
        fs = ex_.iterate(ev_f, st, ctx)
        lo, hi = ex_.iterate(bounds, st, ctx)
        roots, succ = [], []
        info = []
        for k, f in enumerate(fs):
            r = z3.Real(fresh_name("root%d" % k))
            ok = z3.Bool(fresh_name("success%d" % k))
            capped = z3.Bool(fresh_name("capped%d" % k))
            near = z3.Bool(fresh_name("sign_change_within_eps%d" % k))
            # evaluate the real closure ev_f[k] symbolically at the bracket ends and at the root (no forks expected)
            flo = ex_.call(f, [lo], {}, st, ctx)[0][1]
            fhi = ex_.call(f, [hi], {}, st, ctx)[0][1]
            fr = ex_.call(f, [r], {}, st, ctx)[0][1]
            # contract of brentsrootvec per element (C14): P1 inside the bracket; P4 meaning of success; P5 sign change => success unless capped
            st.assume(z3.Or(z3.And(lo <= r, r <= hi), z3.And(hi <= r, r <= lo)))
            st.assume(z3.Implies(ok, z3.Or(zabs(to_real(fr)) <= ex_.eps, near)))
            st.assume(z3.Implies(z3.And(to_real(flo) * to_real(fhi) < 0, z3.Not(capped)), ok))
            roots.append(r)
            succ.append(ok)
            info.append(dict(root=r, success=ok, capped=capped, near=near, f_lo=flo, f_hi=fhi, f_root=fr))
        st.ghost["root_info"] = info
        return (ConcVec(roots), ConcVec(succ))
    ex.call_hooks["root_finder"] = root_finder


def run_handle_events(src, reg, prop, n, directions, terminals, requires_dstate=None):
    """-> (ex, list of (state, result)), inputs"""
    ex = Executor(src, reg, prop=prop)
    ex.global_axioms = ex.global_axioms + intcall.transcendental_axioms(ex)
    install_root_finder(ex, None)
    ex.call_hooks["DenseOutput.__call__"] = lambda ex_, st, ctx, args, kwargs: ex_.uf("sol_y", 1)(to_real(args[1]))
    ex.call_hooks["DenseOutput.grad"] = lambda ex_, st, ctx, args, kwargs: ex_.uf("sol_dy", 1)(to_real(args[1]))
    fi = src.func(F, "handle_events")
    st = State()
    sol = st.new_obj("DenseOutput")
    t_prev, t_next = z3.Real("t_prev"), z3.Real("t_next")
    st.assume(t_prev != t_next)
    events = st.new_obj("list", "list", items=[UFunc("g%d" % k, "real") for k in range(n)])
    consts = st.new_obj("dict", "dict", items={})
    rds = requires_dstate or [False] * n
    ctx = Ctx(fi, None, None, tag="handle_events[n=%d,dir=%s,terminal=%s]" % (n, "".join("+" if d > 0 else ("-" if d < 0 else "0") for d in directions),
                                                                             "".join("T" if x else "f" for x in terminals)))
    args = [(sol, t_prev, t_next), events, consts, ConcVec(list(directions)), ConcVec(list(terminals)), (ConcVec(list(rds)),)]
    paths = ex.call_function(fi, args, {}, st, ctx)
    return ex, ctx, paths, dict(t_prev=t_prev, t_next=t_next, events=events, directions=directions, terminals=terminals)


def check_handle_events(reg, src, prop, n):
    fi = src.func(F, "handle_events")
    n_paths = 0
    for directions in itertools.product((-1, 0, 1), repeat=n):
        for terminals in itertools.product((False, True), repeat=n):
            ex, ctx, paths, inp = run_handle_events(src, reg, prop, n, directions, terminals)
            t_prev, t_next = inp["t_prev"], inp["t_next"]
            sgn = z3.If(t_next - t_prev > 0, 1, -1)
            for k, (s, v) in enumerate(paths):
                n_paths += 1
                if isinstance(v, Raised):
                    reg.ground("%s/%s/no-exception#%d" % (prop, ctx.tag, k), "post-exc", "handle_events", False, detail=repr(v.exc))
                    continue
                active, roots, terminate, evs = v
                act = list(active.items)
                rts = list(roots.items)
                evl = s.obj(evs).items if isinstance(evs, Ref) else list(evs)
                info = s.ghost["root_info"]
                reg.ground("%s/%s/lengths-agree#%d" % (prop, ctx.tag, k), "post", "handle_events", len(act) == len(rts) == len(evl) and
                           all(evl[j] is s.obj(inp["events"]).items[act[j]] for j in range(len(act))) and all(rts[j] is info[act[j]]["root"] or rts[j].eq(info[act[j]]["root"]) for j in range(len(act))),
                           backend="symbolic-exec", detail="active=%r: returned roots / event functions are those of the active indices, in the same order" % (act,))
                goals = []
                for j, idx in enumerate(act):
                    r = rts[j]
                    goals.append(z3.Or(z3.And(t_prev <= r, r <= t_next), z3.And(t_next <= r, r <= t_prev)))          # inside the step
                    goals.append(info[idx]["success"])                                                                 # only certified roots
                    goals.append(z3.Or(zabs(to_real(info[idx]["f_root"])) <= ex.eps, info[idx]["near"]))               # g ~ 0 there
                for j in range(len(rts) - 1):
                    goals.append(sgn * rts[j] <= sgn * rts[j + 1])                                                      # in integration order
                if goals:
                    ex.prove(s, ctx, z3.And(*goals), "post", "roots-inside-step-certified-ordered#path%d" % k)
                # direction compatibility: a root reported for direction +1 (-1) has a sampled pair showing an upward (downward) crossing
                for j, idx in enumerate(act):
                    d = inp["directions"][idx]
                    if d != 0:
                        calls = s.ghost.get("calls:g%d" % idx, [])
                        times = [c[0] for c in calls]
                        g = ex.uf("g%d" % idx, 2)
                        y = ex.uf("sol_y", 1)
                        pairs = []
                        for a in times:
                            for b in times:
                                if a is b:
                                    continue
                                ga, gb = g(to_real(a), y(to_real(a))), g(to_real(b), y(to_real(b)))
                                pairs.append(z3.And(sgn * to_real(a) < sgn * to_real(b), (ga <= 0) if d > 0 else (ga >= 0), (gb >= 0) if d > 0 else (gb <= 0)))
                        ex.prove(s, ctx, z3.Or(*pairs) if pairs else z3.BoolVal(False), "post", "direction-compatible-with-samples#path%d.%d" % (k, j))
                # terminal truncation
                term = [inp["terminals"][idx] for idx in act]
                want_terminate = any(term)
                ok_trunc = (terminate is want_terminate or terminate == want_terminate) and (not want_terminate or (term[-1] and not any(term[:-1])))
                reg.ground("%s/%s/terminal-truncation#%d" % (prop, ctx.tag, k), "post", "handle_events", bool(ok_trunc), backend="symbolic-exec",
                           detail="terminate=%r, terminal flags of the returned events %r: list cut after the first terminal event in integration order" % (terminate, term))
    reg.ground("%s/handle_events[n=%d]/paths-explored" % (prop, n), "lemma", "handle_events", n_paths >= 3 ** n * 2 ** n, detail="%d paths over %d direction/terminal configurations" % (n_paths, 3 ** n * 2 ** n))
    return fi


def check_event_wrappers(reg, src, prop, n=2):
    """The functions handle_events hands to the root finder and samples around the roots: wrapper k evaluates event k -- its own event, not
    a neighbour's -- on the dense solution at the queried time, with the solution's gradient exactly when that event asked for it
    (requires_dstate), for every mix of the two kinds of event."""
    fi = src.func(F, "handle_events")
    for rds in itertools.product((False, True), repeat=n):
        ex, ctx, paths, inp = run_handle_events(src, reg, prop, n, (0,) * n, (False,) * n, requires_dstate=list(rds))
        tag = "%s/handle_events[n=%d,requires_dstate=%s]/" % (prop, n, "".join("T" if x else "f" for x in rds))
        normal = [(s, v) for s, v in paths if not isinstance(v, Raised)]
        if not normal:
            reg.undecided(tag + "paths", "unsupported", "handle_events", "no normal path")
            continue
        s = normal[0][0]
        info = s.ghost.get("root_info", [])
        y, dy = ex.uf("sol_y", 1), ex.uf("sol_dy", 1)
        for k in range(n):
            r = info[k]["root"] if k < len(info) else None
            want = None if r is None else (ex.uf("g%d" % k, 3)(r, y(r), dy(r)) if rds[k] else ex.uf("g%d" % k, 2)(r, y(r)))
            got = info[k]["f_root"] if k < len(info) else None
            reg.ground(tag + "wrapper-%d-evaluates-its-own-event-on-the-dense-solution" % k, "post", "handle_events",
                       want is not None and z3.is_expr(got) and z3.simplify(to_real(got)).eq(z3.simplify(to_real(want))), backend="symbolic-exec",
                       detail="ev_f[%d](t) is %s, expected %s" % (k, got, want))
    return fi


def check_no_miss(reg, src, prop, n=1):
    """C08 chain link (2): a strict sign change of g_k over the step that the root finder certified (not capped), with direction 0 (or a
    compatible direction), is reported -- provided the crossing is isolated inside the sampling window (explicit hypothesis)."""
    fi = src.func(F, "handle_events")
    for terminals in itertools.product((False, True), repeat=n):
        for directions in itertools.product((0, 1, -1), repeat=n):
            ex, ctx, paths, inp = run_handle_events(src, reg, prop, n, directions, terminals)
            ctx.tag = ctx.tag.replace("handle_events", "handle_events-no-miss")
            t_prev, t_next = inp["t_prev"], inp["t_next"]
            sgn = z3.If(t_next - t_prev > 0, 1, -1)
            for k, (s, v) in enumerate(paths):
                if isinstance(v, Raised):
                    continue
                active, roots, terminate, evs = v
                act = list(active.items)
                info = s.ghost["root_info"]
                for idx in range(n):
                    d = inp["directions"][idx]
                    i_ = info[idx]
                    flo, fhi = to_real(i_["f_lo"]), to_real(i_["f_hi"])
                    sc = flo * fhi < 0
                    # isolation hypothesis: every sampled point before the root (in integration order) has the sign of g at the start of
                    # the step, every sampled point after it the sign of g at the end; the root itself carries either sign or zero
                    calls = s.ghost.get("calls:g%d" % idx, [])
                    g = ex.uf("g%d" % idx, 2)
                    y = ex.uf("sol_y", 1)
                    hyp = []
                    for c in calls:
                        a = to_real(c[0])
                        ga = g(a, y(a))
                        hyp.append(z3.Implies(sgn * a < sgn * i_["root"], ga * flo > 0))
                        hyp.append(z3.Implies(sgn * a > sgn * i_["root"], ga * fhi > 0))
                    compatible = True if d == 0 else None
                    dir_ok = z3.BoolVal(True) if d == 0 else ((flo < 0) if d > 0 else (flo > 0))
                    # earlier terminal events cut the list: the claim is for events not after the first terminal root
                    reported = z3.BoolVal(idx in act)
                    cut = z3.BoolVal(False)
                    if terminate and idx not in act:
                        last_root = list(roots.items)[-1]
                        cut = sgn * i_["root"] >= sgn * last_root          # it lies at/after the terminal event that stopped the step
                    ex.prove(s, ctx, z3.Implies(z3.And(sc, z3.Not(i_["capped"]), dir_ok, *hyp), z3.Or(reported, cut)), "post",
                             "certified-sign-change-is-reported#path%d.ev%d" % (k, idx))
    return fi


def job_handle_events(reg, src, prop, n):
    check_handle_events(reg, src, prop, n)
    return {}


def job_no_miss(reg, src, prop, n):
    check_no_miss(reg, src, prop, n)
    return {}


def check_probe_offset(reg, src, prop):
    """_probe_offset(t_prev, t_next, eps, power): the signed distance from a located root at which an event function is sampled.  It has
    the sign of the step, is at least the step scaled by eps**power, and is never below a few spacings of floating-point numbers at the
    step (4 eps max(|t_prev|, |t_next|)) -- the lemma that keeps the samples distinct from the root on the float side (defect F34 was its
    absence: at |t| >= 1e8 the samples collapsed onto the root and every crossing was dropped)."""
    fi = src.func(F, "_probe_offset")
    for power in (Fraction(1, 2), Fraction(3, 4)):
        ex = Executor(src, reg, prop=prop)
        ex.global_axioms = ex.global_axioms + intcall.transcendental_axioms(ex)
        st = State()
        t_prev, t_next = z3.Real("t_prev"), z3.Real("t_next")
        st.assume(t_prev != t_next)
        ctx = Ctx(fi, None, None, tag="_probe_offset[power=%s]" % power)
        for k, (s, v) in enumerate(ex.call_function(fi, [t_prev, t_next, ex.eps, power], {}, st, ctx)):
            if isinstance(v, Raised) or not z3.is_expr(v):
                reg.undecided("%s/%s/value#%d" % (prop, ctx.tag, k), "unsupported", "_probe_offset", "result %r" % (v,))
                continue
            r = to_real(v)
            dt = t_next - t_prev
            spacing = 4 * ex.eps * z3.If(zabs(t_prev) >= zabs(t_next), zabs(t_prev), zabs(t_next))
            ex.prove(s, ctx, z3.And(r != 0, (r > 0) == (dt > 0)), "post", "has-the-sign-of-the-step#%d" % k)
            ex.prove(s, ctx, zabs(r) >= spacing, "post", "never-below-the-float-spacing-at-the-step#%d" % k)
            ex.prove(s, ctx, zabs(r) >= zabs(dt) * ex.uf("pow", 2)(ex.eps, z3.RealVal(str(power))), "post", "never-below-the-scaled-step#%d" % k)
    return fi
