"""Contracts on the integrators' step controller and `__call__` (shared by C04, C05, C03, C18).

update_timestep  : proved from its body (three memory states x scaling present/absent) with `arctan` and `**` axiomatised:
                   returns (corr*h, corr < 0.81) with 1 - pi/4 <= corr < 1 + pi/2; writes only the controller memory keys.
RungeKuttaIntegrator.__call__ : executed over its control skeleton (step / update_timestep replaced by their contracts):
                   I1 sign(dTime) == sign(timestep), 0 < |dTime| <= |timestep|; I2 sign(new_dt) == sign(timestep);
                   fixed-step explicit: dTime == new_dt == timestep; every retry after a controller rejection is strictly
                   smaller in magnitude; normal return => last controller verdict accepted (and Newton converged).
ExplicitSymplecticIntegrator.__call__ : dTime == new_dt == timestep.
"""
import z3

from pyvc.executor import Executor, State, Ctx, Raised, Unsupported
from pyvc.values import LinComb, Poly, UFunc, Opaque, fresh_name, to_bool, to_real

FT = "desolver/integrators/integrator_types.py"
FTPL = "desolver/integrators/integrator_template.py"
FIU = "desolver/integrators/utilities.py"

PI = z3.Real("pi")


def transcendental_axioms(ex):
    """Assumptions listed in the evidence: arctan is a function into (-pi/2, pi/2) with arctan(x) >= -pi/4 for x >= -1;
    x ** r > 0 for x > 0; exp > 0."""
    x, y = z3.Real("ax_x"), z3.Real("ax_y")
    atan, pw, ex_ = ex.uf("arctan", 1), ex.uf("pow", 2), ex.uf("exp", 1)
    return [PI > z3.Q(314159, 100000), PI < z3.Q(314160, 100000),
            z3.ForAll([x], z3.And(atan(x) > -PI / 2, atan(x) < PI / 2, z3.Implies(x >= -1, atan(x) >= -PI / 4)), patterns=[atan(x)]),
            z3.ForAll([x, y], z3.Implies(x > 0, pw(x, y) > 0), patterns=[pw(x, y)]),
            z3.ForAll([x], ex_(x) > 0, patterns=[ex_(x)])]


AXIOM_TEXT = ("arctan is an uninterpreted function with range (-pi/2, pi/2) and arctan(x) >= -pi/4 for x >= -1; x ** r is an uninterpreted function, positive for x > 0; "
              "exp is positive; 3.14159 < pi < 3.1416; norm() of an array is an arbitrary non-negative real")


def solver_dict_variants(st):
    out = []
    for mem in (0, 1, 2):
        for scaling in (False, True):
            items = dict(initial_state=Opaque("y0"), diff=Opaque("diff"), timestep=z3.Real("h"), safety_factor=z3.Real("sf"), atol=Opaque("atol"),
                         rtol=Opaque("rtol"), dState=Opaque("dy"), order=z3.Real("order"), initial_time=z3.Real("t_init"))
            if mem >= 1:
                items["epsilon_last"] = z3.Real("eps_last")
            if mem >= 2:
                items["epsilon_last_last"] = z3.Real("eps_last_last")
            if scaling:
                items["system_scaling"] = Opaque("scaling")
            out.append(("mem%d%s" % (mem, "+scaling" if scaling else ""), items))
    return out


def check_update_timestep(reg, src, prop):
    fi = src.func(FTPL, "IntegratorTemplate.update_timestep")
    for label, items in solver_dict_variants(None):
        ex = Executor(src, reg, prop=prop)
        ex.global_axioms = ex.global_axioms + transcendental_axioms(ex)
        st = State()
        sd = st.new_obj("dict", "dict", items=dict(items))
        selfobj = st.new_obj("IntegratorTemplate", fields={"solver_dict": sd, "_IntegratorTemplate__custom_adaptation_fn": None})
        h, sf, order = items["timestep"], items["safety_factor"], items["order"]
        st.assume(h != 0)
        st.assume(sf > 0)
        st.assume(order > 0)
        ctx = Ctx(fi, None, fi.cls, tag="update_timestep[%s]" % label)
        paths = ex.call_function(fi, [selfobj, True], {}, st, ctx)
        for k, (s, v) in enumerate(paths):
            if isinstance(v, Raised):
                reg.ground("%s/update_timestep[%s]/no-exception#%d" % (prop, label, k), "post-exc", "update_timestep", False, detail=repr(v.exc))
                continue
            new_dt, redo = v
            rb = to_bool(redo)
            absn = z3.If(new_dt >= 0, new_dt, -new_dt)
            absh = z3.If(h >= 0, h, -h)
            ex.prove(s, ctx, z3.And(z3.Implies(h > 0, new_dt > 0), z3.Implies(h < 0, new_dt < 0)), "post", "sign-preserved#%d" % k)
            ex.prove(s, ctx, z3.And(z3.Implies(rb, absn < z3.Q(81, 100) * absh), z3.Implies(z3.Not(rb), absn >= z3.Q(81, 100) * absh)), "post", "redo-iff-shrunk-below-0.81#%d" % k)
            ex.prove(s, ctx, z3.And(absn >= (1 - PI / 4) * absh, absn < (1 + PI / 2) * absh), "post", "corr-bounded#%d" % k)
            after = s.obj(sd).items
            changed = [key for key in set(after) | set(items) if key not in items or after.get(key) is not items.get(key)]
            reg.ground("%s/update_timestep[%s]/frame-controller-memory-only#%d" % (prop, label, k), "frame", "update_timestep",
                       set(changed) <= {"system_scaling", "epsilon_last", "epsilon_last_last"}, backend="symbolic-exec", detail="keys written: %r" % (sorted(changed),))
        # absolute time is never read by the controller (shift invariance of the step-size decisions)
    return fi


def check_controller_error_measure(reg, src, prop):
    """The error measure the controller steers by (scalar view of one component, fresh controller memory): the reciprocal of
    |diff| / (atol + rtol * max(|y|, |dState / h|)) -- absolute AND relative tolerance, scaled by the state."""
    fi = src.func(FTPL, "IntegratorTemplate.update_timestep")
    for scaling in (False, True):
        ex = Executor(src, reg, prop=prop)
        ex.global_axioms = ex.global_axioms + transcendental_axioms(ex)
        st = State()
        y0, diff, h, sf, atol, rtol, dy, order = (z3.Real(n) for n in ("y0", "diff", "h", "sf", "atol", "rtol", "dy", "order"))
        items = dict(initial_state=y0, diff=diff, timestep=h, safety_factor=sf, atol=atol, rtol=rtol, dState=dy, order=order, initial_time=z3.Real("t_init"))
        sc_old = z3.Real("scaling_old")
        if scaling:
            items["system_scaling"] = sc_old
            st.assume(sc_old >= 0)
        sd = st.new_obj("dict", "dict", items=dict(items))
        selfobj = st.new_obj("IntegratorTemplate", fields={"solver_dict": sd, "_IntegratorTemplate__custom_adaptation_fn": None})
        for a in (h != 0, sf > 0, order > 0, atol > 0, rtol > 0, diff != 0):
            st.assume(a)
        ctx = Ctx(fi, None, fi.cls, tag="update_timestep[scalar-view%s]" % ("+scaling" if scaling else ""))
        zabs = lambda x: z3.If(x >= 0, x, -x)
        fresh_scale = z3.If(zabs(y0) >= zabs(dy / h), zabs(y0), zabs(dy / h))
        scale = (z3.Q(8, 10) * sc_old + z3.Q(2, 10) * fresh_scale) if scaling else fresh_scale
        for k, (s, v) in enumerate(ex.call_function(fi, [selfobj, True], {}, st, ctx)):
            if isinstance(v, Raised):
                reg.ground("%s/%s/no-exception#%d" % (prop, ctx.tag, k), "post-exc", "update_timestep", False, detail=repr(v.exc))
                continue
            after = s.obj(sd).items
            eps_cur = after.get("epsilon_last")
            ex.prove(s, ctx, to_real(after["system_scaling"]) == scale, "post", "state-scale-is-max-of-state-and-slope#%d" % k)
            ex.prove(s, ctx, to_real(eps_cur) * zabs(diff) == atol + rtol * scale, "post", "error-measure-uses-atol-plus-rtol-times-scale#%d" % k)
    return fi


def install_call_stubs(ex, newton=True, faulting=False):
    def step_stub(ex_, st_, ctx, args, kwargs):
        selfref, ts = args[0], args[5]
        if faulting == "value-error-once":
            # a linear-algebra / ValueError inside the first attempt of a step is caught by __call__ and the step retried
            from pyvc.values import ExcVal
            ncalls = st_.ghost.get("n_step_calls", 0)
            st_.ghost["n_step_calls"] = ncalls + 1
            if ncalls == 0:
                sr = st_.fork()
                sr.ghost["caught_fault"] = True
                return [(sr, Raised(ExcVal("ValueError", tag="stage-solve-fault"))), (st_, _step_ok(st_, selfref, ts))]
            return _step_ok(st_, selfref, ts)
        if faulting:
            # the right-hand side may fail inside any step with an error that is not a linear-algebra / value error
            sr = st_.fork()
            sr.ghost["fault_raised"] = True
            from pyvc.values import ExcVal
            out = [(sr, Raised(ExcVal("RuntimeError", tag="rhs-fault")))]
            out.append((st_, _step_ok(st_, selfref, ts)))
            return out
        return _step_ok(st_, selfref, ts)

    def _step_ok(st_, selfref, ts):
        flag = z3.Bool(fresh_name("newton_ok"))
        st_.obj(st_.obj(selfref).fields["solver_dict"]).items["newton_iteration_success"] = flag
        st_.ghost["last_newton"] = flag
        st_.ghost.setdefault("step_sizes", []).append(ts)
        st_.ghost.setdefault("verdicts", [])
        st_.obj(selfref).fields["dTime"] = ts
        ds = z3.Real(fresh_name("dState"))
        st_.obj(selfref).fields["dState"] = ds
        return (ts, (ts, ds))

    def upd_stub(ex_, st_, ctx, args, kwargs):
        # contract of update_timestep (proved by check_update_timestep): (corr * solver_dict['timestep'], corr < 0.81)
        selfref = args[0]
        h = st_.obj(st_.obj(selfref).fields["solver_dict"]).items["timestep"]
        if "first_update_memory" not in st_.ghost:
            # ghost: which of the controller's memory keys the first update_timestep of this __call__ finds in solver_dict
            st_.ghost["first_update_memory"] = tuple(k for k in STALE_MEMORY if k in st_.obj(st_.obj(selfref).fields["solver_dict"]).items)
        corr = z3.Real(fresh_name("corr"))
        st_.assume(corr >= z3.Q(2146, 10000))
        st_.assume(corr < z3.Q(2571, 1000))
        redo = corr < z3.Q(81, 100)
        st_.ghost["last_redo"] = redo
        st_.ghost.setdefault("verdicts", []).append(redo)
        # the implicit-aware wrapper multiplies by tau in (0.84, 1.16) (proved: check_implicit_aware)
        tau = z3.Real(fresh_name("tau"))
        st_.assume(tau > z3.Q(84, 100))
        st_.assume(tau < z3.Q(116, 100))
        return (corr * tau * h, redo)

    ex.call_hooks["RungeKuttaIntegrator.step"] = step_stub
    ex.call_hooks["RungeKuttaIntegrator.update_timestep"] = upd_stub
    ex.call_hooks["RungeKuttaIntegrator.get_error_estimate"] = lambda ex_, st_, ctx, args, kwargs: z3.Real(fresh_name("err"))


STALE_MEMORY = ("system_scaling", "epsilon_last", "epsilon_last_last")


def rk_self(st, implicit, adaptive, retries=3, keep=None):
    """An integrator object as an earlier call may have left it: the controller's per-step memory of that call is still in solver_dict.
    `keep` is the set solver_dict_keep_keys the real constructor builds (props/ctor.check_rk_init); the retry budget is shortened to
    `retries` by keeping the key num_step_retries alive (the real default, 64, is read by .get() once the key has been filtered out)."""
    items = dict(redo_count=0, num_step_retries=retries)
    for k in STALE_MEMORY:
        items[k] = Opaque("stale_" + k)
    sd = st.new_obj("dict", "dict", items=items)
    keep = frozenset(keep if keep is not None else ["redo_count", "safety_factor", "order", "atol", "rtol"]) | frozenset(["num_step_retries"])
    fields = dict(solver_dict=sd, solver_dict_keep_keys=keep, final_rhs=None, _explicit=not implicit, _fsal=False, _adaptive=adaptive, _adaptivity_enabled=False,
                  stage_values=Opaque("sv"), atol=Opaque("atol"), rtol=Opaque("rtol"), dTime=None, dState=None, _requires_high_precision=False,
                  initial_state=None, initial_time=None, initial_rhs=None)
    fields["_RungeKuttaIntegrator__rhs_jac"] = Opaque("jac")
    return st.new_obj("RungeKuttaIntegrator", fields=fields)


def zabs(x):
    return z3.If(x >= 0, x, -x)


def check_rk_call(reg, src, prop, implicit, adaptive, keep=None):
    ex = Executor(src, reg, prop=prop)
    install_call_stubs(ex)
    fi = src.func(FT, "RungeKuttaIntegrator.__call__")
    st = State()
    selfobj = rk_self(st, implicit, adaptive, keep=keep)
    label = "implicit" if implicit and not adaptive else ("implicit-adaptive" if implicit else ("adaptive" if adaptive else "explicit-fixed"))
    ctx = Ctx(fi, None, fi.cls, tag="RungeKuttaIntegrator.__call__[%s]" % label)
    h = z3.Real("h0")
    st.assume(h != 0)
    consts = st.new_obj("dict", "dict", items={})
    paths = ex.call_function(fi, [selfobj, UFunc("rhs", "real"), z3.Real("t"), z3.Real("y"), consts, h], {}, st, ctx)
    n_ret = n_raise = 0
    for k, (s, v) in enumerate(paths):
        sizes = s.ghost.get("step_sizes", [])
        verdicts = s.ghost.get("verdicts", [])
        # C05(b): every step issued after a controller rejection is strictly smaller in magnitude than the rejected one, same sign
        for j in range(1, len(sizes)):
            ex.prove(s, ctx, z3.And(z3.Implies(h > 0, sizes[j] > 0), z3.Implies(h < 0, sizes[j] < 0), zabs(sizes[j]) <= zabs(h)), "post",
                     "retry-same-sign-not-longer-than-request#path%d.%d" % (k, j))
            if j - 1 < len(verdicts):
                ex.prove(s, ctx, z3.Implies(verdicts[j - 1], zabs(sizes[j]) < zabs(sizes[j - 1])), "post", "retry-after-rejection-strictly-smaller#path%d.%d" % (k, j))
        if isinstance(v, Raised):
            n_raise += 1
            reg.ground("%s/%s/raises-only-FailedToMeetTolerances#path%d" % (prop, ctx.tag, k), "post-exc", "__call__", v.exc.cls == "FailedToMeetTolerances",
                       backend="symbolic-exec", detail="exception class %s" % v.exc.cls)
            continue
        n_ret += 1
        new_dt, (dT, dS) = v
        ex.prove(s, ctx, z3.And(z3.Implies(h > 0, dT > 0), z3.Implies(h < 0, dT < 0), zabs(dT) <= zabs(h)), "post", "I1-dTime-sign-and-bound#path%d" % k)
        ex.prove(s, ctx, z3.And(z3.Implies(h > 0, new_dt > 0), z3.Implies(h < 0, new_dt < 0)), "post", "I2-new-dt-sign#path%d" % k)
        if not implicit and not adaptive:
            ex.prove(s, ctx, z3.And(dT == h, new_dt == h), "post", "fixed-step-exact#path%d" % k)
        if adaptive or implicit:
            ex.prove(s, ctx, z3.Not(s.ghost["last_redo"]) if "last_redo" in s.ghost else False, "post", "returned-step-was-accepted-by-controller#path%d" % k)
            # the tolerance scale of this step is built from this step: nothing of an earlier call's controller memory reaches the first
            # error test of the call (keys kept across calls come from the real constructor)
            reg.ground("%s/%s/first-error-test-uses-no-memory-of-earlier-calls#path%d" % (prop, ctx.tag, k), "post", "__call__",
                       s.ghost.get("first_update_memory") == (), backend="symbolic-exec",
                       detail="controller memory present at the first update_timestep of the call: %r (kept keys: %s)" % (s.ghost.get("first_update_memory"), sorted(keep) if keep is not None else "harness default"))
        if implicit:
            ex.prove(s, ctx, s.ghost.get("last_newton", False), "post", "unconverged-never-returned#path%d" % k)
        o = s.obj(selfobj).fields
        reg.ground("%s/%s/state-fields-describe-returned-step#path%d" % (prop, ctx.tag, k), "post", "__call__",
                   z3.is_expr(o["dTime"]) and o["dTime"].eq(dT) and o["dState"] is dS or (z3.is_expr(o["dState"]) and o["dState"].eq(dS)), backend="symbolic-exec")
    reg.ground("%s/%s/paths-explored" % (prop, ctx.tag), "lemma", "__call__", n_ret >= 1, detail="%d returning, %d raising paths" % (n_ret, n_raise))
    return fi


RICH = "generate_richardson_integrator.RichardsonExtrapolatedIntegrator"


def check_richardson_call(reg, src, prop):
    """RichardsonExtrapolatedIntegrator.__call__ (the wrapper's own step-size logic) for symplectic and non-symplectic bases, steps of
    either sign.  adaptive_richardson is replaced by what it returns for a fixed-step basis (the whole requested step: dt0 == dTime ==
    timestep; C01 proves its extrapolation part), update_timestep by its contract proved above (same sign, corr in [1 - pi/4,
    1 + pi/2), redo iff corr < 0.81), the recursive retry by the wrapper's own contract (induction on the retry depth).  The two
    halving / doubling loops of the symplectic branch are cut by invariants that include their *progress* condition: whenever the
    guard holds, halving (doubling) moves |next_timestep| toward the value the guard compares it with -- then the loop terminates
    after finitely many iterations (geometric approach of a fixed non-zero bound), otherwise it never does."""
    fi = src.func(FT, RICH + ".__call__")
    for symplectic in (False, True):
        ex = Executor(src, reg, prop=prop)
        ex.global_axioms = ex.global_axioms + transcendental_axioms(ex)
        st = State()
        h = z3.Real("h_req")
        st.assume(h != 0)
        sd = st.new_obj("dict", "dict", items={})
        selfobj = st.new_obj("RichardsonExtrapolatedIntegrator", fields=dict(symplectic=symplectic, solver_dict=sd, dState=None, dTime=None))

        # the step handed in is the system's own dt array (OdeSystem.integrate passes self.dt itself; __dt0 may be the same object): the
        # wrapper must not update it in place
        ex.borrowed[id(h)] = ("passed in as `timestep` (the caller's step-size array)", h)

        def adaptive_richardson(ex_, st_, ctx, args, kwargs):
            ts = args[5]
            return (ts, (ts, z3.Real(fresh_name("dy"))), z3.Real(fresh_name("diff")))

        def update_timestep(ex_, st_, ctx, args, kwargs):
            o = st_.obj(st_.obj(args[0]).fields["solver_dict"]).items
            ts = to_real(o["timestep"])
            corr = z3.Real(fresh_name("corr"))
            st_.assume(z3.And(corr >= 1 - PI / 4, corr < 1 + PI / 2))
            redo = corr < z3.Q(81, 100)
            st_.ghost.setdefault("controller", []).append(dict(ts=ts, corr=corr, redo=redo))
            return (corr * ts, redo)

        def recursive(ex_, st_, ctx, args, kwargs):
            # the wrapper's own contract (I1 / I2), applied to the retry; pre-condition: a non-zero step of the same sign, strictly shorter
            nxt = to_real(args[5])
            last = st_.ghost["controller"][-1]
            ex_.prove(st_, ctx, z3.And(nxt != 0, z3.Implies(h > 0, nxt > 0), z3.Implies(h < 0, nxt < 0), zabs(nxt) < zabs(last["ts"])), "pre@callsite",
                      "retry-is-a-strictly-shorter-step-of-the-same-sign")
            dT, nd = z3.Real(fresh_name("dT_retry")), z3.Real(fresh_name("new_dt_retry"))
            st_.assume(z3.And(z3.Implies(nxt > 0, z3.And(dT > 0, dT <= nxt, nd > 0)), z3.Implies(nxt < 0, z3.And(dT < 0, dT >= nxt, nd < 0))))
            st_.ghost["retried"] = True
            return (nd, (dT, z3.Real(fresh_name("dS_retry"))))
        ex.call_hooks[RICH.split(".")[-1] + ".adaptive_richardson"] = adaptive_richardson
        ex.call_hooks[RICH.split(".")[-1] + ".update_timestep"] = update_timestep
        ex.call_hooks[RICH.split(".")[-1] + ".__call__"] = recursive
        same_sign = "((dt0 > 0 and next_timestep > 0 and new_timestep > 0) or (dt0 < 0 and next_timestep < 0 and new_timestep < 0))"
        loops = {0: {"invariant": [same_sign + " and abs(next_timestep) <= abs(dt0)",
                                   # progress: while the guard holds, halving brings |next| down toward |new| (which it exceeds)
                                   "implies(LOOP_GUARD, abs(new_timestep) < abs(next_timestep))"]},
                 1: {"invariant": [same_sign + " and abs(next_timestep) >= abs(dt0)",
                                   "implies(LOOP_GUARD, abs(0.8 * new_timestep + 0.2 * timestep) > 2 * abs(next_timestep))"]}}
        from pyvc.executor import Contract
        c = Contract(FT, RICH + ".__call__", sorts={}, requires=[], ensures=[], loops=loops)
        ctx = Ctx(fi, c, fi.cls, tag="RichardsonExtrapolatedIntegrator.__call__[%s]" % ("symplectic" if symplectic else "non-symplectic"))
        ctx.entry = st.fork()
        consts = st.new_obj("dict", "dict", items={})
        paths = ex.call_function(fi, [selfobj, UFunc("rhs", "real"), z3.Real("t"), z3.Real("y"), consts, h], {}, st, ctx, contract=c)
        n_ret = 0
        for k, (s, v) in enumerate(paths):
            if isinstance(v, Raised):
                reg.ground("%s/%s/no-exception#%d" % (prop, ctx.tag, k), "post-exc", "__call__", False, detail=repr(v.exc))
                continue
            n_ret += 1
            new_dt, (dT, dS) = v
            ex.prove(s, ctx, z3.And(z3.Implies(h > 0, to_real(dT) > 0), z3.Implies(h < 0, to_real(dT) < 0), zabs(to_real(dT)) <= zabs(h)), "post", "I1-dTime-sign-and-bound#path%d" % k)
            ex.prove(s, ctx, z3.And(z3.Implies(h > 0, to_real(new_dt) > 0), z3.Implies(h < 0, to_real(new_dt) < 0)), "post", "I2-new-dt-sign#path%d" % k)
            last = s.ghost["controller"][-1]
            # a step the controller rejected is not handed back: it was retried (non-symplectic: always; symplectic: unless the doubling branch cleared the flag)
            if not symplectic:
                ex.prove(s, ctx, z3.Implies(last["redo"], z3.BoolVal(bool(s.ghost.get("retried")))), "post", "rejected-step-is-retried#path%d" % k)
        reg.ground("%s/%s/paths-explored" % (prop, ctx.tag), "lemma", "__call__", n_ret >= 2, detail="%d returning paths" % n_ret)
    return fi


def check_symplectic_call(reg, src, prop):
    ex = Executor(src, reg, prop=prop)
    fi = src.func(FT, "ExplicitSymplecticIntegrator.__call__")
    st = State()

    def step_stub(ex_, st_, ctx, args, kwargs):
        selfref = args[0]
        ts = kwargs.get("timestep", args[5] if len(args) > 5 else None)
        st_.obj(selfref).fields["dTime"] = ts
        st_.obj(selfref).fields["dState"] = LinComb.sym("dS")
        st_.obj(selfref).fields["initial_rhs"] = LinComb.sym("k0")
        return (ts, (ts, LinComb.sym("dS")))
    ex.call_hooks["ExplicitSymplecticIntegrator.step"] = step_stub
    selfobj = st.new_obj("ExplicitSymplecticIntegrator", fields=dict(final_rhs=None, initial_rhs=None, dTime=None, dState=None, initial_state=None, initial_time=None))
    h = Poly.sym("h")
    ctx = Ctx(fi, None, fi.cls, tag="ExplicitSymplecticIntegrator.__call__")
    consts = st.new_obj("dict", "dict", items={})
    paths = ex.call_function(fi, [selfobj, UFunc("rhs", "lincomb"), Poly.sym("t"), LinComb.sym("y"), consts, h], {}, st, ctx)
    for k, (s, v) in enumerate(paths):
        ok = (not isinstance(v, Raised)) and v[0] == h and v[1][0] == h
        reg.ground("%s/ExplicitSymplecticIntegrator.__call__/fixed-step-exact#path%d" % (prop, k), "post", "__call__", ok, backend="symbolic-exec",
                   detail="returns (timestep, (timestep, dState))")
    return fi


def check_implicit_aware(reg, src, prop):
    """implicit_aware_update_timestep returns (tau * timestep_from_error, redo) with 0.84 < tau < 1.16 and the same redo."""
    fi = src.func(FIU, "implicit_aware_update_timestep")
    for label, has, nit in (("no-newton-history", False, None), ("iterations-known", True, (3, 4)), ("first-iterations-zero", True, (0, 4))):
        ex = Executor(src, reg, prop=prop)
        ex.global_axioms = ex.global_axioms + transcendental_axioms(ex)
        st = State()
        items = dict(timestep=z3.Real("h"), atol=z3.Real("atol"), rtol=z3.Real("rtol"))
        if has:
            items.update(niter0=nit[0], niter1=nit[1], tau0=z3.Real("tau0"), tau1=z3.Real("tau1"), newton_prec0=z3.Real("np0"), newton_prec1=z3.Real("np1"))
        sd = st.new_obj("dict", "dict", items=items)
        integ = st.new_obj("RungeKuttaIntegrator", fields=dict(solver_dict=sd))
        te, redo = z3.Real("ts_err"), z3.Bool("redo_err")
        ex.call_hooks["RungeKuttaIntegrator.update_timestep"] = lambda ex_, st_, ctx, args, kwargs: (te, redo)
        ctx = Ctx(fi, None, None, tag="implicit_aware_update_timestep[%s]" % label)
        paths = ex.call_function(fi, [integ], {}, st, ctx)
        for k, (s, v) in enumerate(paths):
            if isinstance(v, Raised):
                reg.ground("%s/%s/no-exception#%d" % (prop, ctx.tag, k), "post-exc", "implicit_aware_update_timestep", False, detail=repr(v.exc))
                continue
            out, r2 = v
            ex.prove(s, ctx, z3.And(z3.Implies(te > 0, z3.And(out > z3.Q(84, 100) * te, out < z3.Q(116, 100) * te)),
                                    z3.Implies(te < 0, z3.And(out < z3.Q(84, 100) * te, out > z3.Q(116, 100) * te))), "post", "tau-in-(0.84,1.16)#%d" % k)
            reg.ground("%s/%s/redo-passed-through#%d" % (prop, ctx.tag, k), "post", "implicit_aware_update_timestep", r2 is redo, backend="symbolic-exec")
    return fi


def check_rk_call_faults(reg, src, prop, implicit, adaptive):
    """An exception raised inside step() that is not one of the caught linear-algebra / ValueError classes escapes
    RungeKuttaIntegrator.__call__ unchanged, from the first attempt and from every retry."""
    ex = Executor(src, reg, prop=prop)
    install_call_stubs(ex, faulting=True)
    fi = src.func(FT, "RungeKuttaIntegrator.__call__")
    st = State()
    selfobj = rk_self(st, implicit, adaptive, retries=2)
    label = "implicit" if implicit else ("adaptive" if adaptive else "explicit-fixed")
    ctx = Ctx(fi, None, fi.cls, tag="RungeKuttaIntegrator.__call__[faults,%s]" % label)
    h = z3.Real("h0")
    st.assume(h != 0)
    consts = st.new_obj("dict", "dict", items={})
    paths = ex.call_function(fi, [selfobj, UFunc("rhs", "real"), z3.Real("t"), z3.Real("y"), consts, h], {}, st, ctx)
    n = 0
    for k, (s, v) in enumerate(paths):
        if s.ghost.get("fault_raised"):
            n += 1
            reg.ground("%s/%s/rhs-fault-propagates#path%d" % (prop, ctx.tag, k), "post-exc", "__call__",
                       isinstance(v, Raised) and v.exc.cls == "RuntimeError", backend="symbolic-exec",
                       detail="a RuntimeError raised inside step() escapes __call__ (outcome: %s)" % ("raised " + v.exc.cls if isinstance(v, Raised) else "returned normally"))
    reg.ground("%s/%s/fault-paths-explored" % (prop, ctx.tag), "lemma", "__call__", n >= 1, detail="%d paths with an injected fault" % n)
    return fi


def check_rk_call_caught_fault(reg, src, prop):
    """explicit fixed-step method: a ValueError / linear-algebra error inside the first attempt is caught and the step is retried
    with the *same* step size: the returned dTime and new_dt still equal the requested timestep."""
    ex = Executor(src, reg, prop=prop)
    install_call_stubs(ex, faulting="value-error-once")
    fi = src.func(FT, "RungeKuttaIntegrator.__call__")
    st = State()
    selfobj = rk_self(st, False, False)
    ctx = Ctx(fi, None, fi.cls, tag="RungeKuttaIntegrator.__call__[caught-fault,explicit-fixed]")
    h = z3.Real("h0")
    st.assume(h != 0)
    consts = st.new_obj("dict", "dict", items={})
    n = 0
    for k, (s, v) in enumerate(ex.call_function(fi, [selfobj, UFunc("rhs", "real"), z3.Real("t"), z3.Real("y"), consts, h], {}, st, ctx)):
        if not s.ghost.get("caught_fault"):
            continue
        n += 1
        if isinstance(v, Raised):
            reg.ground("%s/%s/retry-succeeds#path%d" % (prop, ctx.tag, k), "post", "__call__", False, backend="symbolic-exec", detail="raised %r" % (v.exc,))
            continue
        new_dt, (dT, dS) = v
        ex.prove(s, ctx, z3.And(dT == h, new_dt == h), "post", "fixed-step-exact-after-caught-fault#path%d" % k)
    reg.ground("%s/%s/caught-fault-paths-explored" % (prop, ctx.tag), "lemma", "__call__", n >= 1, detail="%d paths" % n)
    return fi


def check_rk_call_unbounded(reg, src, prop, implicit, adaptive, keep=None, faulting=False):
    """RungeKuttaIntegrator.__call__ with the retry loop `for _ in range(num_step_retries)` *cut by an invariant* instead of unrolled: the
    clauses hold for every retry budget (the shipped default is 64) and every number of retries actually made.
      invariant at the head of a retry: the step is to be redone; the proposal `timestep` has the sign of the requested step; the step
        executed last (self.dTime) has that sign and is not longer than the requested one; if the controller rejected it, the proposal
        is strictly shorter than it;
      per retry: the step issued has the sign of the request, is not longer than it, and is strictly shorter than the rejected one;
      exits: `break` only with an accepted (and, implicit, converged) step; exhaustion raises FailedToMeetTolerances."""
    from pyvc.executor import Contract
    ex = Executor(src, reg, prop=prop)
    fi = src.func(FT, "RungeKuttaIntegrator.__call__")
    label_ = "implicit" if implicit and not adaptive else ("implicit-adaptive" if implicit else ("adaptive" if adaptive else "explicit-fixed"))
    tag_ = "RungeKuttaIntegrator.__call__[%s,any-number-of-retries%s]" % (label_, ",faults" if faulting else "")

    def step_stub(ex_, st_, ctx, args, kwargs):
        selfref, ts = args[0], args[5]
        if faulting:
            # the right-hand side may fail inside any step (first attempt or any retry) with an error that is not one of the caught classes
            from pyvc.values import ExcVal
            sr = st_.fork()
            sr.ghost["fault_raised"] = True
            return [(sr, Raised(ExcVal("RuntimeError", tag="rhs-fault"))), (st_, _ok(st_, selfref, ts))]
        return _ok(st_, selfref, ts)

    def _ok(st_, selfref, ts):
        flag = z3.Bool(fresh_name("newton_ok"))
        st_.obj(st_.obj(selfref).fields["solver_dict"]).items["newton_iteration_success"] = flag
        st_.ghost["last_newton"] = flag
        st_.env["g_issued"] = ts
        st_.env["g_newton"] = flag
        st_.obj(selfref).fields["dTime"] = ts
        ds = z3.Real(fresh_name("dState"))
        st_.obj(selfref).fields["dState"] = ds
        return (ts, (ts, ds))

    def upd_stub(ex_, st_, ctx, args, kwargs):
        # contract of update_timestep / implicit_aware_update_timestep (proved by check_update_timestep / check_implicit_aware)
        selfref = args[0]
        h = st_.obj(st_.obj(selfref).fields["solver_dict"]).items["timestep"]
        corr, tau = z3.Real(fresh_name("corr")), z3.Real(fresh_name("tau"))
        st_.assume(z3.And(corr >= z3.Q(2146, 10000), corr < z3.Q(2571, 1000), tau > z3.Q(84, 100), tau < z3.Q(116, 100)))
        redo = corr < z3.Q(81, 100)
        st_.ghost["last_redo"] = redo
        st_.env["g_rejected"] = redo
        # every verdict -- of the first attempt and of each retry -- is formed from the attempt it judges: neither the error scale nor the
        # controller memory of an earlier call or of a *rejected* attempt is present (update_timestep writes these keys, proved frame;
        # defect F31: they used to be carried from a rejected attempt into the judgement of its retry)
        items_ = st_.obj(st_.obj(selfref).fields["solver_dict"]).items
        seen = tuple(k for k in STALE_MEMORY if k in items_)
        n_upd = st_.ghost.get("n_updates", 0)
        st_.ghost["n_updates"] = n_upd + 1
        reg.ground("%s/%s/verdict-formed-without-memory-of-rejected-attempts[%s]" % (prop, tag_, "first-attempt" if n_upd == 0 else "retry"), "post", "__call__", seen == (),
                   backend="symbolic-exec", detail="controller memory present when update_timestep is called: %r" % (seen,))
        for k in STALE_MEMORY:
            items_[k] = Opaque("memory_of_this_attempt_" + k)
        return (corr * tau * h, redo)
    ex.call_hooks["RungeKuttaIntegrator.step"] = step_stub
    ex.call_hooks["RungeKuttaIntegrator.update_timestep"] = upd_stub
    ex.call_hooks["RungeKuttaIntegrator.get_error_estimate"] = lambda ex_, st_, ctx, args, kwargs: z3.Real(fresh_name("err"))
    st = State()
    items = dict(redo_count=0)
    for k in STALE_MEMORY:
        items[k] = Opaque("stale_" + k)
    sd = st.new_obj("dict", "dict", items=items)
    keepset = frozenset(keep if keep is not None else ["redo_count", "safety_factor", "order", "atol", "rtol"])
    fields = dict(solver_dict=sd, solver_dict_keep_keys=keepset, final_rhs=None, _explicit=not implicit, _fsal=False, _adaptive=adaptive, _adaptivity_enabled=False,
                  stage_values=Opaque("sv"), atol=Opaque("atol"), rtol=Opaque("rtol"), dTime=None, dState=None, _requires_high_precision=False,
                  initial_state=None, initial_time=None, initial_rhs=None)
    fields["_RungeKuttaIntegrator__rhs_jac"] = Opaque("jac")
    selfobj = st.new_obj("RungeKuttaIntegrator", fields=fields)
    same = "((current_timestep > 0 and %s > 0) or (current_timestep < 0 and %s < 0))"
    loops = {"num_step_retries": {
        "cut": True, "havoc": ["g_issued", "g_rejected", "g_newton"],
        "invariant": ["redo_step == True", same % ("timestep", "timestep"),
                      # step() and update_timestep() do not touch the flags __call__ dispatches on (frame of step: proved in props/C02.check_rk_step)
                      "self._explicit == %s and self._adaptive == %s and self._adaptivity_enabled == False" % (not implicit, adaptive),
                      (same % ("self.dTime", "self.dTime")) + " and abs(self.dTime) <= abs(current_timestep)",
                      "implies(g_rejected, abs(timestep) < abs(self.dTime))"],
        "let_body": {"g_rejected_head": "g_rejected", "dTime_head": "self.dTime"},
        "ensures_iteration": [(same % ("g_issued", "g_issued")) + " and abs(g_issued) <= abs(current_timestep)",
                              "implies(g_rejected_head, abs(g_issued) < abs(dTime_head))",
                              # the loop is left by `break` only with an accepted step (and a converged stage solve)
                              "implies(not redo_step, not g_rejected" + (" and g_newton" if implicit else "") + ")"]}}
    c = Contract(FT, "RungeKuttaIntegrator.__call__", sorts={}, requires=[], ensures=[], loops=loops)
    label = "implicit" if implicit and not adaptive else ("implicit-adaptive" if implicit else ("adaptive" if adaptive else "explicit-fixed"))
    ctx = Ctx(fi, c, fi.cls, tag="RungeKuttaIntegrator.__call__[%s,any-number-of-retries%s]" % (label, ",faults" if faulting else ""))
    ctx.entry = st.fork()
    h = z3.Real("h0")
    st.assume(h != 0)
    consts = st.new_obj("dict", "dict", items={})
    t_arg, y_arg = z3.Real("t"), z3.Real("y")
    # ownership: the step, time and state handed in are the caller's arrays (OdeSystem passes its own dt / buffer rows): never updated in place
    for v_, what in ((h, "timestep"), (t_arg, "initial_time"), (y_arg, "initial_state")):
        ex.borrowed[id(v_)] = ("passed in as `%s` (an array the caller still holds)" % what, v_)
    paths = ex.call_function(fi, [selfobj, UFunc("rhs", "real"), t_arg, y_arg, consts, h], {}, st, ctx, contract=c)
    n_ret = n_raise = n_fault = 0
    for k, (s, v) in enumerate(paths):
        if s.ghost.get("fault_raised"):
            # C12: the fault escapes unchanged -- from the first attempt and from any retry (no handler of __call__ swallows it)
            n_fault += 1
            reg.ground("%s/%s/rhs-fault-propagates#path%d" % (prop, ctx.tag, k), "post-exc", "__call__", isinstance(v, Raised) and v.exc.cls == "RuntimeError", backend="symbolic-exec",
                       detail="a RuntimeError raised inside step() escapes __call__ (outcome: %s)" % ("raised " + v.exc.cls if isinstance(v, Raised) else "returned normally"))
            continue
        if isinstance(v, Raised):
            n_raise += 1
            reg.ground("%s/%s/raises-only-FailedToMeetTolerances#path%d" % (prop, ctx.tag, k), "post-exc", "__call__", v.exc.cls == "FailedToMeetTolerances", backend="symbolic-exec",
                       detail="exception class %s" % v.exc.cls)
            continue
        n_ret += 1
        new_dt, (dT, dS) = v
        ex.prove(s, ctx, z3.And(z3.Implies(h > 0, z3.And(dT > 0, new_dt > 0)), z3.Implies(h < 0, z3.And(dT < 0, new_dt < 0)), zabs(dT) <= zabs(h)), "post", "I1-I2-sign-and-bound#path%d" % k)
        if adaptive or implicit:
            ex.prove(s, ctx, z3.Not(s.ghost["last_redo"]) if "last_redo" in s.ghost else False, "post", "returned-step-was-accepted-by-controller#path%d" % k)
        if implicit:
            ex.prove(s, ctx, s.ghost.get("last_newton", False), "post", "unconverged-never-returned#path%d" % k)
        if not implicit and not adaptive:
            ex.prove(s, ctx, z3.And(dT == h, new_dt == h), "post", "fixed-step-exact#path%d" % k)
    reg.ground("%s/%s/paths-explored" % (prop, ctx.tag), "lemma", "__call__", n_ret >= 1 and (n_raise >= 1 or not (adaptive or implicit)) and (n_fault >= (2 if (adaptive or implicit) else 1) or not faulting),
               detail="%d returning, %d raising paths, %d paths with an injected fault" % (n_ret, n_raise, n_fault))
    return fi
