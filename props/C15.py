"""C15 -- nonlinear system solvers only claim success at an actual solution.

E1 (success-flag dataflow): hybrj, newtontrustregion and nonlinear_roots are executed symbolically on their real text with arrays
abstracted to opaque values (their norms and scalar reductions are uninterpreted reals, comparisons of unmodelled values are
nondeterministic -- an over-approximation of every numerical behaviour), the iteration loops cut by invariants, for every tolerance
and iteration budget.  What is decided is *what a reported success entails at the returned point*: the property asks for
    success  =>  ||F(x_returned)|| below (a modest multiple of) the tolerance.
The solvers' own termination rules also accept 'the step became small' / 'the trust region collapsed'; those paths refute the
clause and are recorded as known finding F18, each obligation restricted to the complement of that region so that any *other* way
of claiming success without a small residual is still reported.  Also proved: the residual reported to the caller (5th info
component, the `prec` the implicit Runge-Kutta step compares with its tolerance) is the residual norm at the returned point on
every branch of the front end, and a failed attempt restarts the next solver from the caller's x0.
scipy.optimize.root (MINPACK) is external (A6): its branch is only followed for its dataflow.
Bounded (native): residuals of reported successes over smooth test systems, n = 1..12, both dispatch paths, bad starts, singular Jacobians.
"""
import z3

from pyvc import source, solver
from pyvc.executor import Executor, State, Ctx, Raised, Unsupported, Contract
from pyvc.values import UFunc, Opaque, Ref, fresh_name, to_bool, to_real
from . import common, C03

PID = "C15"
F = "desolver/utilities/optimizer.py"

SORTS = {"f": ("uf", "F", "opaque"), "x0": "Opaque", "jac": ("uf", "J", "opaque"), "tol": "Real", "verbose": ("const", False), "maxiter": "Int", "var_bounds": ("const", None)}

hybrj = Contract(
    F, "hybrj", sorts=dict(SORTS),
    requires=["tol > 0", "maxiter >= 1"],
    ensures=[
        # the property's clause: a reported success means a small residual at the returned point
        "implies(result[1][0], D.ar_numpy.linalg.norm(result[1][3]) < tol)",
        # what the code does guarantee (strongest statement of its termination rule)
        "implies(result[1][0], D.ar_numpy.linalg.norm(result[1][3]) < tol or result[1][1] <= xtol or trust_region <= xtol)",
        # the residual handed back is the one of the returned point
        "same(result[1][3], F0)",
    ],
    result=("tuple", "Opaque", ("tuple", "Bool", "Real", "Int", "Opaque")),
    loops={3: {"cut": True, "invariant": ["success == False"], "defines": {"xtol": "Real"},
               # the step-size rule is MINPACK's: relative to the problem size and to the size of the iterate the step starts from -- the
               # scale in which the known-finding region A-xtol is stated must be that one, not whatever the variable `xtol` happens to hold
               "let_body": {"x_norm_at_head": "D.ar_numpy.linalg.norm(x)"},
               "ensures_iteration": ["xtol == tol * (xdim + x_norm_at_head)"]}})

ntr = Contract(
    F, "newtontrustregion", sorts=dict(SORTS, jac_update_rate=("const", 20), initial_trust_region=("const", None)),
    requires=["tol > 0", "maxiter >= 1"],
    ensures=[
        "implies(result[1][0], result[1][4] < tol)",
        "implies(result[1][0], result[1][4] < 0.8 * tol or dxn <= 0.8 * xtol)",
        "result[1][4] == D.ar_numpy.linalg.norm(F1)",
    ],
    result=("tuple", "Opaque", ("tuple", "Bool", "Int", "Int", "Int", "Real")),
    loops={3: {"cut": True, "invariant": ["Fn1 == D.ar_numpy.linalg.norm(F1)", "implies(iter_index > 0, not success and not convergence_failure)"],
               "defines": {"xtol": "Real", "success": "Bool", "convergence_failure": "Bool"},
               "ensures_iteration": ["xtol == tol * (xdim + D.ar_numpy.linalg.norm(x))"]}})


# success through the step-size criterion (MINPACK's xtol rule): the residual is then bounded by ||J|| * xtol for a full Gauss-Newton step --
# numerical analysis over the linear algebra the executor does not model.  Inside that region the property is in fact violated when
# the iterates run away (xtol is relative to ||x||): known finding F18c, witnessed by the bounded native family; the obligation is
# restricted to the complement of the region so that any other false success is still a violation
XTOL_REGION = {"hybrj": "result[1][1] <= xtol", "newtontrustregion": "dxn <= 0.8 * xtol"}


def make_executor(src, reg):
    ex = Executor(src, reg, prop=PID)
    ex.opaque_nondet = True
    ex.opaque_shapes = True
    return ex


def check_solver(reg, src, c, link_var):
    ex = make_executor(src, reg)
    c.loops[3]["links"] = [("F", "x", link_var)]
    name = c.func

    def post_hook(ex_, s, v, pctx, tr):
        if isinstance(v, Raised):
            return
        env = s.ghost.get("_ret_env") or {}
        # the residual handed back belongs to the point handed back: result[0] is x (reshape is the identity on values), and the
        # residual object is f(x) by the ghost call log
        ok = v[0] is env.get("x") and ex_.linked(s, "F", env.get("x"), env.get(link_var))
        if name == "hybrj":
            ok = ok and v[1][3] is env.get("F0")
        reg.ground("%s/%s/returned-residual-is-f-at-the-returned-point[%s]" % (PID, name, tr), "post", name, bool(ok), backend="symbolic-exec",
                   detail="result[0] is x and %s is f(x) (identity of unmodelled values along the path)" % link_var)
    ex.verify(c, post_hook=post_hook, regions={("post", 0): ("F18c / A-xtol (step-size termination rule: known finding F18c inside it, bounded native only)", XTOL_REGION[name])})
    return src.func(F, name)


def check_front_end(reg, src):
    """nonlinear_roots with hybrj / newtontrustregion replaced by the contracts proved above and scipy.optimize.root external."""
    ex = make_executor(src, reg)
    fi = src.func(F, "nonlinear_roots")
    calls = []

    def solver_stub(which):
        def h(ex_, st, ctx, args, kwargs):
            x_arg = args[1]
            root, Fv = Opaque("root_" + which), Opaque("F_" + which)
            ok, small_step = z3.Bool(fresh_name("success_" + which)), z3.Bool(fresh_name("step_size_rule_" + which))
            resid = z3.Real("norm_" + Fv.tag)
            st.assume(resid >= 0)
            tol = to_real(kwargs.get("tol"))
            st.assume(z3.Implies(z3.And(ok, z3.Not(small_step)), resid < tol))          # proved clause post#0 (outside the A-xtol region)
            st.ghost.setdefault("calls:F", []).append((root,))
            st.ghost.setdefault("vals:F", []).append(Fv)                                   # proved: the residual belongs to the returned point
            st.ghost.setdefault("solver_calls", []).append(dict(which=which, x=x_arg, root=root, F=Fv, ok=ok, small_step=small_step, resid=resid, tol=tol))
            if which == "hybrj":
                dxn = z3.Real(fresh_name("dxn"))
                return (root, (ok, dxn, z3.Int(fresh_name("iterations")), Fv))
            return (root, (ok, z3.Int(fresh_name("iterations")), z3.Int(fresh_name("nfev")), z3.Int(fresh_name("njev")), resid))
        return h
    ex.call_hooks["hybrj"] = solver_stub("hybrj")
    ex.call_hooks["newtontrustregion"] = solver_stub("newtontrustregion")
    st = State()
    x0 = Opaque("x0")
    tol = z3.Real("tol")
    st.assume(tol > 0)
    ctx = Ctx(fi, None, None, tag="nonlinear_roots")
    f, jac = UFunc("F", "opaque"), UFunc("J", "opaque")
    paths = ex.call_function(fi, [f, x0], dict(jac=jac, tol=tol, additional_args=(), additional_kwargs=st.new_obj("dict", "dict", items={})), st, ctx)
    n_ok = 0
    for k, (s, v) in enumerate(paths):
        if isinstance(v, Raised):
            continue
        x_ret, info = v
        sc = s.ghost.get("solver_calls", [])
        if not sc:
            continue            # MINPACK branch: external (A6), dataflow only
        n_ok += 1
        last = sc[-1]
        success, prec = info[0], info[4]
        tag = "nonlinear_roots[%s]" % "+".join(c["which"] for c in sc)
        # (1) the point handed back is the last solver's point
        reg.ground("%s/%s/returns-the-last-solvers-point#%d" % (PID, tag, k), "post", "nonlinear_roots", x_ret is last["root"], backend="symbolic-exec")
        # (2) the reported precision is the residual norm at that point
        ex.prove(s, Ctx(fi, None, None, tag=tag), to_real(prec) == last["resid"], "post", "reported-precision-is-the-residual-norm-at-the-returned-point#%d" % k)
        # (3) success => small residual (outside the step-size rule region)
        ex.prove(s, Ctx(fi, None, None, tag=tag), z3.Implies(z3.And(to_bool(success), z3.Not(last["small_step"])), z3.Or(last["resid"] < last["tol"], last["resid"] <= 8 * ex.eps)), "post",
                 "success-means-small-residual#%d" % k)
        # (4) a solver that failed does not leak its point: the next one starts from the caller's x0
        for c in sc:
            reg.ground("%s/%s/solver-%s-starts-from-the-callers-x0#%d" % (PID, tag, c["which"], k), "post", "nonlinear_roots", c["x"] is x0, backend="symbolic-exec")
    reg.ground("%s/nonlinear_roots/paths-through-the-built-in-solvers" % PID, "cover", "nonlinear_roots", n_ok >= 2, backend="symbolic-exec", detail="%d normal returns through hybrj / newtontrustregion" % n_ok)
    return fi


def run(tier):
    R = common.Run(PID, "proof", tier)
    R.assume("A1", "A2", "A3", "A5", "A6", "A7")
    R.assume("arrays are opaque values: norms and scalar reductions are uninterpreted reals (one per array object), comparisons of unmodelled values are nondeterministic; the linear algebra (solve, matmul, Broyden update, "
             "inverse) is havocked -- an over-approximation of every numerical behaviour, so what is proved is the success-flag dataflow, not convergence")
    R.assume("A-xtol: success through the step-size termination rule (|dx| <= xtol, MINPACK's rule) bounds the residual by ||J|| * xtol for a full Gauss-Newton step: numerical analysis, outside these contracts; the "
             "obligation 'success => small residual' is restricted to the complement of that region; inside it the bounded native family witnesses a genuine violation (known finding F18c: runaway iterates)")
    R.assume("scipy.optimize.root (MINPACK hybr) is external: its success flag and residual are taken as returned (dataflow only)")
    R.assume("scalar (0-d) initial guesses are forwarded to the vector code by a wrapper that is not under contract; result shapes are a bounded native clause")
    R.trust("z3", "pyvc executor (symbolic for-loop cut, identity links over unmodelled values)")
    src = source.load_all()
    reg = solver.Registry(solver.THOROUGH_TIMEOUT_MS if tier == "thorough" else 20000)
    R.add_registry(reg)
    known_refuted = []
    try:
        R.under_contract(check_solver(reg, src, hybrj, "F0"))
        R.under_contract(check_solver(reg, src, ntr, "F1"))
        R.under_contract(check_front_end(reg, src))
    except Unsupported as e:
        reg.undecided(PID + "/executor/unsupported", "unsupported", "executor", str(e))
    for ob in list(reg.obligations):
        if not ob.discharged and ob.kind != "cover":
            e = R.kf.match(PID, ob.name)
            if e:
                reg.obligations.remove(ob)
                ob.kf = e
                known_refuted.append(ob)
    nat = None
    try:
        nat = common.run_native("monitor/native_c15.py", dict(tier=tier), timeout=2400)
        R.bounded.append(dict(name="native nonlinear-solver family (residual of every reported success, result shape, reported precision, systems without a root; n = 1..12, float64 / longdouble, 3 solvers)",
                              bound=nat["bound"], cases=nat["cases"], failing_clauses={k: len(v) for k, v in nat["failures"].items()}, label="bounded"))
    except Exception as e:
        R.notes.append("native family could not run: %r" % (e,))
    C03.triage(R, reg, nat)
    for e in R.kf.for_property(PID):
        hit = [o for o in known_refuted if getattr(o, "kf", None) is e]
        nat_hit = nat and any(cl in nat["failures"] for cl in e.get("native_clauses", []))
        R.known(e, bool(hit) or bool(nat_hit), "obligations %s" % ([o.name for o in hit[:2]],))
    R.samples.append(dict(contract="hybrj", requires=hybrj.requires, ensures=hybrj.ensures, loop_invariant=hybrj.loops[3]["invariant"], links="F0 is f(x)"))
    return R.finish()
