"""Verification of OdeSystem.integrate (main loop, buffers, try/except/else/finally) -- shared by C03, C04, C12, C13, C18, C20.

The real `integrate` is executed symbolically.  The recorded trajectory is the pair of z3 arrays (__t, __y) with the
counter; states are one real per step (element-wise view).  Callees are replaced by contracts:
  integrator.__call__   I1/I2 of props/intcall.py (proved there from the integrator classes), may raise
  callbacks             arbitrary: may assign dt (through the setter), may raise
  __alloc_space_steps   1 <= result <= 5000            (proved here from its body)
  __allocate_soln_space grows both buffers by num_units, keeps the prefix   (proved here from its body)
Private helpers (__fix_dt_dir, dt setter/getter, __trim_soln_space, properties) are inlined.
"""
import z3

from pyvc.executor import Executor, Contract, State, Ctx, Raised, Unsupported
from pyvc.values import SeqVal, UFunc, Opaque, Ref, ExcVal, fresh_name, to_bool

F = "desolver/differential_system.py"

# ----------------------------------------------------------------------------------------------------------------
# helper contracts (strings are evaluated inside class OdeSystem, so self.__x is name-mangled)
# ----------------------------------------------------------------------------------------------------------------
ODE_FIELDS = {"counter": "Int", "_OdeSystem__t": "Seq[Real]", "_OdeSystem__y": "Seq[Real]", "_OdeSystem__dt": "Real",
              "_OdeSystem__tf": "Real", "_OdeSystem__t0": "Real", "_OdeSystem__inferred_backend": ("const", "numpy"),
              "_OdeSystem__array_con_kwargs": ("const", None)}

alloc_space_steps = Contract(
    F, "OdeSystem.__alloc_space_steps", short="OdeSystem.__alloc_space_steps",
    sorts={"self": ("obj", "OdeSystem", ODE_FIELDS), "tf": "Real"},
    requires=["self.__dt != 0", "0 <= self.counter and self.counter < len(self.__t)"],
    ensures=["1 <= result and result <= 5000"], result="Int")

allocate_soln_space = Contract(
    F, "OdeSystem.__allocate_soln_space", short="OdeSystem.__allocate_soln_space",
    sorts={"self": ("obj", "OdeSystem", ODE_FIELDS), "num_units": "Int"},
    requires=["num_units >= 0", "len(self.__t) >= 1", "len(self.__y) >= 1"],
    ensures=["len(self.__t) == len(old(self.__t)) + num_units", "len(self.__y) == len(old(self.__y)) + num_units",
             "forall(lambda i: implies(0 <= i and i < len(old(self.__t)), self.__t[i] == old(self.__t)[i]))",
             "forall(lambda i: implies(0 <= i and i < len(old(self.__y)), self.__y[i] == old(self.__y)[i]))"],
    modifies=["self.__t", "self.__y"], result="None")

INTEGRATOR_PARAMS = ["self_", "rhs", "initial_time", "initial_state", "constants", "timestep"]
integrator_call = Contract(
    None, "Integrator.__call__", short="Integrator.__call__", param_names=INTEGRATOR_PARAMS,
    requires=["timestep != 0"],
    ensures=["implies(timestep > 0, result[1][0] > 0 and result[1][0] <= timestep and result[0] > 0)",
             "implies(timestep < 0, result[1][0] < 0 and result[1][0] >= timestep and result[0] < 0)"],
    result=("tuple", "Real", ("tuple", "Real", "Real")), may_raise=True, exc_kinds=("AnyException", "KeyboardInterrupt"))

integrator_call_fixed = Contract(
    None, "Integrator.__call__", short="Integrator.__call__", param_names=INTEGRATOR_PARAMS,
    requires=["timestep != 0"],
    ensures=["result[1][0] == timestep and result[0] == timestep"],
    result=("tuple", "Real", ("tuple", "Real", "Real")), may_raise=True, exc_kinds=("AnyException", "KeyboardInterrupt"))


def base_executor(src, reg, prop, fixed_step=False):
    ex = Executor(src, reg, prop=prop)
    ex.feas_quantified = False           # path pruning by the quantifier-free part of the path condition only (sound, faster)
    ex.modular_loops = True              # the main loop is verified once from requires + invariant (prefix path facts dropped)
    ex.contracts["OdeSystem.__alloc_space_steps"] = alloc_space_steps
    ex.contracts["OdeSystem.__allocate_soln_space"] = allocate_soln_space
    ex.contracts["Integrator.__call__"] = integrator_call_fixed if fixed_step else integrator_call
    ex.inline.update(["OdeSystem.__fix_dt_dir", "OdeSystem.__trim_soln_space", "prepare_events", "OdeSystem.get_step_interpolant"])
    return ex


def verify_helpers(src, reg, prop):
    out = []
    for c in (alloc_space_steps, allocate_soln_space):
        ex = Executor(src, reg, prop=prop)
        ex.verify(c)
        out.append(src.func(c.file, c.func))
    return out


# ----------------------------------------------------------------------------------------------------------------
# the integrate contract
# ----------------------------------------------------------------------------------------------------------------
DIR = "ite(tf_ > old(self.__t)[old(self.counter)], 1, -1)"        # direction of this call (tf_ is the call's target)
# representation invariant required on entry: the buffers hold at least the recorded rows (after any integrate() they hold exactly
# them -- that is the post-condition -- but the recursive call that lands on a terminal event is made with longer buffers)
REP = ["self.counter >= 0", "len(self.__t) >= self.counter + 1", "len(self.__y) == len(self.__t)", "self.__dt != 0"]

LOOP_INV = [
    "tf == tf_ and implicit_integration == False and end_int == False and events is None",
    # buffers: the current point is inside both buffers, which have equal length
    "0 <= self.counter and self.counter < len(self.__t) and len(self.__t) == len(self.__y)",
    # prefix frame: everything recorded before this call is untouched
    "old(self.counter) <= self.counter",
    "forall(lambda i: implies(0 <= i and i <= old(self.counter), self.__t[i] == old(self.__t)[i] and self.__y[i] == old(self.__y)[i]))",
    # recorded steps of this call move strictly toward the target ...
    "forall(lambda i: implies(old(self.counter) < i and i <= self.counter, " + DIR + " * (self.__t[i] - self.__t[i - 1]) > 0))",
    # ... and never beyond it; the current time is never before the start of the call
    DIR + " * (tf_ - self.__t[self.counter]) >= 0",
    DIR + " * (self.__t[self.counter] - old(self.__t)[old(self.counter)]) >= 0",
    "abs(tf_ - old(self.__t)[old(self.counter)]) >= eps",
    "same(self.__int_status, old(self.__int_status))",
]

POST_COMMON = [
    "ite(abs(tf_ - old(self.__t)[old(self.counter)]) >= eps, len(self.__t) == self.counter + 1 and len(self.__y) == self.counter + 1, "
    "len(self.__t) == len(old(self.__t)) and len(self.__y) == len(old(self.__y)))",
    "old(self.counter) <= self.counter",
    "forall(lambda i: implies(0 <= i and i <= old(self.counter), self.__t[i] == old(self.__t)[i] and self.__y[i] == old(self.__y)[i]))",
    "implies(abs(tf_ - old(self.__t)[old(self.counter)]) >= eps, forall(lambda i: implies(old(self.counter) < i and i <= self.counter, " + DIR + " * (self.__t[i] - self.__t[i - 1]) > 0)))",
    "implies(abs(tf_ - old(self.__t)[old(self.counter)]) >= eps, " + DIR + " * (tf_ - self.__t[self.counter]) >= 0)",
    DIR + " * (self.__t[self.counter] - old(self.__t)[old(self.counter)]) >= 0",
]


def make_contract(callbacks=0, extra_inv=(), extra_post=(), extra_req=(), status0=0, t_given=True, extra_exc=(), drop_status_post=False):
    sorts = {"self": ("obj", "OdeSystem", dict(ODE_FIELDS, **{
        "_OdeSystem__dense_output": ("const", False), "_OdeSystem__int_status": ("const", status0),
        "_OdeSystem__sol": ("obj", "DenseOutput", {}), "integrator": ("obj", "Integrator", {}), "equ_rhs": ("obj", "DiffRHS", {}),
        "_OdeSystem__consts": ("const", None)})),
        "t": "Real" if t_given else ("const", None), "eta": ("const", False), "events": ("const", None)}
    if callbacks:
        sorts["callback"] = ("list",) + tuple(("uf", "cb%d" % k, "opaque", True) for k in range(callbacks))
    else:
        sorts["callback"] = ("const", None)
    c = Contract(
        F, "OdeSystem.integrate", sorts=sorts,
        requires=REP + list(extra_req),
        ensures=POST_COMMON + [
            # ends at the target (loop exit), unless a callback set the step to zero
            "implies(abs(tf_ - old(self.__t)[old(self.counter)]) >= eps, abs(tf_ - self.__t[self.counter]) < 8 * eps or self.__dt == 0)",
            # a call made when already at the target changes nothing
            "implies(abs(tf_ - old(self.__t)[old(self.counter)]) < eps, self.counter == old(self.counter) and self.__dt == old(self.__dt) and same(self.__int_status, old(self.__int_status)))",
        ] + ([] if drop_status_post else ["implies(abs(tf_ - old(self.__t)[old(self.counter)]) >= eps, self.__int_status == 1)"]) + list(extra_post),
        ensures_exc=POST_COMMON + [
            "is_exc(exc, 'FailedIntegration') or is_exc(exc, 'KeyboardInterrupt')",
            "self.__int_status is exc",
            "implies(is_exc(exc, 'FailedIntegration'), exc.__cause__ is not None)",
        ] + list(extra_exc),
        ghost={"tf_": "Real"},
        loops={0: {"invariant": LOOP_INV + list(extra_inv)}})
    c.requires.append("tf_ == t" if t_given else "tf_ == self.__tf")
    return c


def install_callbacks(ex, n):
    for k in range(n):
        def cb(ex_, st, ctx, args, kwargs, k=k):
            # an arbitrary callback: may assign any step size through the dt setter, may raise; it does not touch the trajectory
            sysref = args[0]
            out = []
            for kind in ("AnyException", "KeyboardInterrupt"):
                sr = st.fork()
                sr.ghost.setdefault("raised", []).append(("callback%d" % k, kind))
                out.append((sr, Raised(ExcVal(kind, tag="callback%d" % k))))
            st.obj(sysref).fields["_OdeSystem__dt"] = z3.Real(fresh_name("dt_cb"))
            st.ghost.setdefault("callback_log", []).append(k)
            out.append((st, None))
            return out
        ex.call_hooks["ufunc:cb%d" % k] = cb


def track_rows(ex, reg, prop):
    """Ghost link between the integrator's result and the recorded row: at the end of every loop iteration the new row is
    (previous time + returned dTime, previous state + returned dState) -- times and states stay paired with the step that produced them."""
    base_contract = ex.contracts["Integrator.__call__"]
    orig_apply = ex.apply_contract

    def apply(c, args, kwargs, st, ctx, node):
        if c is base_contract and "self" in st.env and isinstance(st.env["self"], Ref):
            o = st.obj(st.env["self"]).fields
            cnt = o["counter"]
            rec = dict(counter=cnt, t=z3.Select(o["_OdeSystem__t"].arr, cnt), y=z3.Select(o["_OdeSystem__y"].arr, cnt))
            out = orig_apply(c, args, kwargs, st, ctx, node)
            for s2, v in out:
                if not isinstance(v, Raised):
                    s2.ghost["row"] = dict(rec, result=v)
            return out
        return orig_apply(c, args, kwargs, st, ctx, node)
    ex.apply_contract = apply

    def iteration_end(ex_, st, ctx):
        row = st.ghost.get("row")
        if row is None:
            reg.ground("%s/%s/recorded-row-is-previous-plus-returned-increment" % (ex_.prop, ctx.tag), "post", "OdeSystem.integrate", False, detail="no integrator call in the iteration")
            return
        o = st.obj(st.env["self"]).fields
        new_dt, (dT, dS) = row["result"]
        cnt = o["counter"]
        ex_.prove(st, ctx, z3.And(cnt == row["counter"] + 1, z3.Select(o["_OdeSystem__t"].arr, cnt) == row["t"] + dT, z3.Select(o["_OdeSystem__y"].arr, cnt) == row["y"] + dS),
                  "post", "recorded-row-is-previous-plus-returned-increment")
    return iteration_end


def verify_integrate(src, reg, prop, callbacks=0, fixed_step=False, extra_inv=(), extra_post=(), extra_req=(), post_hook=None, regions=None, status0=0, t_given=True,
                     extra_exc=(), drop_status_post=False, loop_hooks=None):
    ex = base_executor(src, reg, prop, fixed_step=fixed_step)
    install_callbacks(ex, callbacks)
    if loop_hooks is None:
        loop_hooks = {"on_iteration_end": track_rows(ex, reg, prop)}
    c = make_contract(callbacks, extra_inv, extra_post, extra_req, status0=status0, t_given=t_given, extra_exc=extra_exc, drop_status_post=drop_status_post)
    if loop_hooks:
        c.loops[0].update(loop_hooks)
    rets = ex.verify(c, post_hook=post_hook, regions=regions)
    return ex, c, rets


# ----------------------------------------------------------------------------------------------------------------
# dense output kept: one interpolant per recorded step, covering exactly the recorded grid (both run directions)
# ----------------------------------------------------------------------------------------------------------------
SOL = "self._OdeSystem__sol"
DENSE_REP = [
    # DO_Inv of the DenseOutput object (props/dense.py), restated on self.__sol, with adjacency
    "len(SOL.t_eval) == len(SOL.y_interpolants)",
    "forall(lambda i, j: implies(0 <= i and i < j and j < len(SOL.t_eval), SOL.t_eval[i] < SOL.t_eval[j]))",
    "forall(lambda i: implies(0 <= i and i < len(SOL.t_eval), SOL.y_interpolants[i].t1 == SOL.t_eval[i]))",
    "forall(lambda i: implies(1 <= i and i < len(SOL.t_eval), SOL.y_interpolants[i].t0 == SOL.t_eval[i - 1]))",
    "SOL._DenseOutput__t_decreasing == False",
    # exactly one piece per recorded step: piece i spans [t_i, t_{i+1}]
    "len(SOL.t_eval) == self.counter",
    "forall(lambda i: implies(0 <= i and i < self.counter, SOL.t_eval[i] == self.__t[i + 1] and SOL.y_interpolants[i].t0 == self.__t[i]))",
    # the whole recorded trajectory runs in increasing time (a forward call on a system that has only been integrated forward)
    "forall(lambda i: implies(1 <= i and i <= self.counter, self.__t[i] > self.__t[i - 1]))",
]
DENSE_REP = [c.replace("SOL", SOL) for c in DENSE_REP]
# runs in decreasing time: pieces are inserted at the front, piece i is recorded step counter - 1 - i, it ends (lower end) at t_eval[i]
DENSE_REP_B = [
    "len(SOL.t_eval) == len(SOL.y_interpolants)",
    "forall(lambda i, j: implies(0 <= i and i < j and j < len(SOL.t_eval), SOL.t_eval[i] < SOL.t_eval[j]))",
    "forall(lambda i: implies(0 <= i and i < len(SOL.t_eval), SOL.y_interpolants[i].t1 == SOL.t_eval[i]))",
    "forall(lambda i: implies(0 <= i and i < len(SOL.t_eval) - 1, SOL.y_interpolants[i].t0 == SOL.t_eval[i + 1]))",
    "implies(len(SOL.t_eval) >= 2, SOL._DenseOutput__t_decreasing)",
    "len(SOL.t_eval) == self.counter",
    "forall(lambda i: implies(0 <= i and i < self.counter, SOL.t_eval[i] == self.__t[self.counter - i] and SOL.y_interpolants[i].t0 == self.__t[self.counter - i - 1]))",
    # the whole recorded trajectory runs in decreasing time (a backward call on a system that has only been integrated backward)
    "forall(lambda i: implies(1 <= i and i <= self.counter, self.__t[i] < self.__t[i - 1]))",
]
DENSE_REP_B = [c.replace("SOL", SOL) for c in DENSE_REP_B]


def dense_contract(callbacks=0, direction=1, extra_inv=(), extra_post=()):
    """integrate()'s contract with dense output kept (events None)"""
    rep = DENSE_REP if direction > 0 else DENSE_REP_B
    c = make_contract(callbacks, extra_inv=extra_inv, extra_post=extra_post)
    c.sorts = dict(c.sorts)
    selfsort = c.sorts["self"]
    fields = dict(selfsort[2])
    fields["_OdeSystem__dense_output"] = ("const", True)
    c.sorts["self"] = ("obj", "OdeSystem", fields)
    c.requires = c.requires + rep + ["tf_ > self.__t[self.counter]" if direction > 0 else "tf_ < self.__t[self.counter]"]
    c.ensures = c.ensures + rep
    c.ensures_exc = c.ensures_exc + rep
    c.loops = {0: {"invariant": c.loops[0]["invariant"] + rep}}
    return c


def real_add_interpolant_hook(ex, src):
    """DenseOutput.add_interpolant: the real body is executed; a literal list it creates ([t], [piece]) is re-represented afterwards as
    a symbolic-length list (same contents)."""
    from pyvc import builtins as B
    fi_add = src.func(F, "DenseOutput.add_interpolant")

    def add_interpolant(ex_, st, ctx, args, kwargs):
        out = ex_.call_function(fi_add, list(args), dict(kwargs), st, ctx)
        for s2, v in out:
            sf = s2.obj(args[0]).fields
            for fld, elem in (("t_eval", "real"), ("y_interpolants", "piece")):
                o = s2.obj(sf[fld]) if isinstance(sf[fld], Ref) else None
                if o is not None and o.kind == "list":
                    sf[fld] = B.symlist_from_items(s2, o.items, elem, "sol_" + fld)
        return out
    ex.call_hooks["DenseOutput.add_interpolant"] = add_interpolant


def verify_integrate_dense(src, reg, prop, callbacks=0, direction=1, extra_inv=(), extra_post=()):
    """integrate() with dense output kept: the dense output covers exactly the recorded steps, on normal and on exceptional exit.
    direction=+1: forward call on a forward trajectory; -1: backward call on a backward trajectory."""
    from . import dense as DN
    ex = base_executor(src, reg, prop)
    install_callbacks(ex, callbacks)
    DN.install(ex)
    ex.inline.update(["DenseOutput.__len__"])
    base_contract = ex.contracts["Integrator.__call__"]
    orig_apply = ex.apply_contract

    def apply(c, args, kwargs, st, ctx, node):
        out = orig_apply(c, args, kwargs, st, ctx, node)
        if c is base_contract:
            for s2, v in out:
                if not isinstance(v, Raised):
                    integ = s2.obj(args[0]).fields
                    integ["initial_time"], integ["initial_state"] = args[2], args[3]
                    integ["dTime"], integ["dState"] = v[1][0], v[1][1]
        return out
    ex.apply_contract = apply

    def dense_output(ex_, st, ctx, args, kwargs):
        # contract of TableauIntegrator.dense_output (proved in props/C06.py from its body): the Hermite piece of the last step
        integ = st.obj(args[0]).fields
        t0, dT = integ["initial_time"], integ["dTime"]
        piece = st.new_obj("CubicHermiteInterp", fields=dict(t0=t0, t1=t0 + dT, id=z3.Int(fresh_name("piece_id"))))
        return (t0 + dT, piece)
    ex.call_hooks["Integrator.dense_output"] = dense_output
    real_add_interpolant_hook(ex, src)
    c = dense_contract(callbacks, direction, extra_inv, extra_post)
    orig_make = ex.make_param

    def make_param(name, sort, st):
        if name == "self._OdeSystem__sol":
            return DN.new_dense(st, "sol")
        return orig_make(name, sort, st)
    ex.make_param = make_param
    rets = ex.verify(c)
    return ex, c, rets
