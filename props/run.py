"""./check <Cxx> [--tier quick|thorough] : dispatch to props/<Cxx>.py"""
import importlib
import os
import sys
import traceback


def main(argv):
    if not argv:
        print("usage: check <Cxx> [--tier quick|thorough]")
        return 3
    pid = argv[0]
    tier = os.environ.get("VERIF_TIER", "quick")
    if "--tier" in argv:
        tier = argv[argv.index("--tier") + 1]
    os.environ["VERIF_TIER"] = tier
    try:
        mod = importlib.import_module("props." + pid)
    except ImportError as e:
        print("CHECKER-ERROR no check for %s: %r" % (pid, e))
        return 3
    try:
        return int(mod.run(tier))
    except SystemExit:
        raise
    except Exception:
        traceback.print_exc()
        from . import common
        rc = 3
        try:
            rc = common.finish_after_crash(traceback.format_exc())
        except Exception:
            traceback.print_exc()
        if rc == 3:
            print("CHECKER-ERROR property=%s checker crashed (never a violation)" % pid)
        return rc


if __name__ == "__main__":
    sys.exit(main(sys.argv[1:]))
