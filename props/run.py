"""./check <Cxx> [--tier quick|thorough] : dispatch to props/<Cxx>.py"""
import importlib
import os
import sys
import traceback


def main(argv):
    if not argv:
        print("usage: check <Cxx> [--tier quick|thorough]")
        return 3
    pid = argv[0]
    if "--replay" in argv:
        return replay(pid, argv[argv.index("--replay") + 1])
    tier = os.environ.get("VERIF_TIER", "quick")
    if "--tier" in argv:
        tier = argv[argv.index("--tier") + 1]
    os.environ["VERIF_TIER"] = tier
    try:
        mod = importlib.import_module("props." + pid)
    except ImportError as e:
        print("CHECKER-ERROR no check for %s: %r" % (pid, e))
        return 3
    try:
        return int(mod.run(tier))
    except SystemExit:
        raise
    except Exception:
        traceback.print_exc()
        from . import common
        rc = 3
        try:
            rc = common.finish_after_crash(traceback.format_exc())
        except Exception:
            traceback.print_exc()
        if rc == 3:
            print("CHECKER-ERROR property=%s checker crashed (never a violation)" % pid)
        return rc


NATIVE_OF = {"C07": ("monitor/native_events.py", dict(props=["C07"])), "C08": ("monitor/native_events.py", dict(props=["C08"])), "C09": ("monitor/native_events.py", dict(props=["C09"]))}


def replay(pid, path):
    """./check <Cxx> --replay <file>: re-decide the recorded failing obligation from its SMT-LIB text (the verification condition as it was
    generated from the source at that time) and re-run the bounded native family of the property against the current tree to see whether
    the recorded failing clause still fails.  Exit 1 if the violation reproduces, 0 if it does not."""
    import json
    from . import common
    if not os.path.isabs(path):
        path = os.path.join(common.OUT, path)
    d = json.load(open(path))
    print("obligation : %s" % d.get("obligation"))
    print("solver said: %s (%s)  model: %s" % (d.get("solver", {}).get("answer"), d.get("solver", {}).get("backend"), str(d.get("solver", {}).get("model"))[:400]))
    reproduced = False
    if d.get("smt2"):
        import z3
        s = z3.Solver()
        s.set("timeout", 60000)
        try:
            s.from_string(d["smt2"])
            r = s.check()
            print("re-check of the recorded verification condition: %s (sat = the negated obligation has a model: refuted)" % r)
            reproduced = reproduced or str(r) == "sat"
        except Exception as e:
            print("recorded SMT-LIB text could not be re-checked: %r" % (e,))
    nat = d.get("native") or {}
    clauses = []
    if isinstance(nat.get("witness"), dict) and nat["witness"].get("clause"):
        clauses = [nat["witness"]["clause"]]
    clauses += list((nat.get("failures") or {}).keys())
    script, extra = NATIVE_OF.get(pid, ("monitor/native_%s.py" % pid.lower(), {}))
    if clauses and os.path.exists(os.path.join(common.VERIF, script)):
        res = common.run_native(script, dict(tier="quick", **extra), timeout=2400)
        still = [c for c in clauses if c in res.get("failures", {})]
        print("native family against the current tree: clauses recorded %r, failing now %r" % (clauses, still))
        for c in still:
            print("  witness: %s" % json.dumps(res["failures"][c][0])[:400])
        reproduced = reproduced or bool(still)
    print("REPRODUCED" if reproduced else "NOT-REPRODUCED")
    return 1 if reproduced else 0


if __name__ == "__main__":
    sys.exit(main(sys.argv[1:]))
