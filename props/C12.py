"""C12 -- a failure leaves a consistent, resumable prefix of the trajectory.

E1: the exceptional post-condition of the real OdeSystem.integrate is proved at every raising program point of the loop (integrator
call, buffer growth, each callback): the exception that escapes is FailedIntegration carrying the original as __cause__ (a
KeyboardInterrupt escapes as itself), the status is that object, the buffers are trimmed to counter + 1, the prefix recorded before the
call is untouched, every step recorded by the call is strictly monotone toward the target and not beyond it, dt != 0 -- i.e. the
representation invariant that integrate() requires holds again (resumability is then C03 applied to that state); also from a pre-state
whose status already is a failure (second fault).  One obligation per raising program point covers every dynamic position k of the
failing call and every succession of faults.  RungeKuttaIntegrator.__call__: an exception raised inside step() that is not one of
the deliberately caught classes escapes unchanged from the first attempt and from every retry.  reset(): see C13.
Bounded: native fault injection at every k of short runs (float side, dense output on).
"""
from pyvc import source, solver
from pyvc.executor import Unsupported
from pyvc.values import ExcVal
from . import common, integrate_core as IC, intcall, C03

PID = "C12"


def run(tier):
    R = common.Run(PID, "proof", tier)
    R.assume("A1", "A2", "A3")
    R.assume("faults inside the event block and the dense-output bookkeeping on failure are verified for one terminal event with dense output kept, both directions (exceptional post-condition: one piece per recorded step); other event configurations through the bounded native fault-injection family")
    R.assume("'finite' is a floating-point statement (bounded native clause); user callables are arbitrary: they may raise Exception subclasses or KeyboardInterrupt at any call")
    R.trust("z3", "pyvc executor (try/except/else/finally, exception class matching incl. the symbolic 'any user exception')")
    src = source.load_all()
    reg = solver.Registry(solver.THOROUGH_TIMEOUT_MS if tier == "thorough" else 20000)
    R.add_registry(reg)
    resumable = ["self.__dt != 0"]
    try:
        for fi in IC.verify_helpers(src, reg, PID):
            R.under_contract(fi)
        R.under_contract(src.func(IC.F, "OdeSystem.integrate"))
        IC.verify_integrate(src, reg, PID + "/no-callback", callbacks=0, extra_post=resumable, extra_exc=resumable, extra_inv=resumable)
        IC.verify_integrate(src, reg, PID + "/two-callbacks", callbacks=2)
        # second fault: the pre-state's status already is a failure object
        IC.verify_integrate(src, reg, PID + "/after-a-failure", callbacks=1, status0=ExcVal("FailedIntegration", tag="earlier-failure"), drop_status_post=True)
        for implicit, adaptive in ((False, True), (True, False), (False, False)):
            R.under_contract(intcall.check_rk_call_faults(reg, src, PID, implicit, adaptive))
            R.under_contract(intcall.check_rk_call_unbounded(reg, src, PID, implicit, adaptive, faulting=True))      # ... from any retry: loop cut by an invariant
        # resuming after a fault relies on the cached end slope naming the point it was computed at: step() records (final_time, final_state)
        # together with final_rhs on *every* attempt, so a fault in a later attempt cannot leave a slope under the label of another point
        from . import C06, e2common
        C06.check_step_end_point(reg, src, e2common.load_tables(R))
        for o in reg.obligations:
            if o.name.startswith("C06/"):
                o.name = o.name.replace("C06/", PID + "/", 1)
        # reset() after a failure -- from any failed state, in particular one in which the fault hit the very first step (no step
        # recorded, status = the failure object, dt already clamped, evaluations counted): the pristine system again (C13's obligations)
        from . import C13
        R.under_contract(C13.check_reset(reg, src, PID, status0=ExcVal("FailedIntegration", tag="failed-call"), label=",after-a-failure"))
        # faults inside the event block (an event function raises; the re-integration to a terminal event fails): the exceptional
        # post-condition includes the representation invariant of the interpolants -- dense output kept: exactly one piece per recorded
        # step, in both run directions -- so that the next call may start from the failed state
        from . import integrate_events as IE
        reg.fail_fast = (3, 25)
        for d in (1, -1):
            IE.verify_integrate_events(src, reg, PID + "/" + IE.config_label(1, (True,), d, 0, True), n=1, terminals=(True,), direction=d, dense=True)
    except Unsupported as e:
        reg.undecided(PID + "/executor/unsupported", "unsupported", "executor", str(e))
    except solver.FailFast as e:
        R.notes.append(str(e))
    nat = None
    try:
        nat = common.run_native("monitor/native_c12.py", dict(tier=tier), timeout=2400)
        R.bounded.append(dict(name="native fault injection at every position k (rhs faults, KeyboardInterrupt, callback faults), resume, reset", bound=nat["bound"],
                              cases=nat["cases"], failing_clauses={k: len(v) for k, v in nat["failures"].items()}, label="bounded"))
    except Exception as e:
        R.notes.append("native family could not run: %r" % (e,))
    C03.triage(R, reg, nat)
    for e in R.kf.for_property(PID):
        nat_hit = nat and any(cl in nat["failures"] for cl in e.get("native_clauses", []))
        R.known(e, bool(nat_hit), "native clauses %s" % ([cl for cl in e.get("native_clauses", []) if nat and cl in nat["failures"]],))
    R.samples.append(dict(contract="OdeSystem.integrate ensures_exc", clauses=IC.POST_COMMON + ["is_exc(exc, 'FailedIntegration') or is_exc(exc, 'KeyboardInterrupt')", "self.__int_status is exc", "exc.__cause__ is not None"]))
    return R.finish()
