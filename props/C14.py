"""C14 -- bracketing root finders return certified roots.

E1 (proved): brentsroot and brentsrootvec (lifted, callable and list front ends) against the clauses of the
property, for every function f (uninterpreted), every bracket order, every tolerance: bracket invariant,
P1 inside bracket, P2 located sign change on the convergence exit, P4 meaning of success, P5 success
under a sign change at every scale, P6 no false success, variant (iteration cap), P7 scalar/vector
agreement as a lock-step relational proof (initial states, one iteration, exit decisions).
E3 (bounded, labelled): native float family incl. float32 / scales 1e-6..1e9.
"""
import ast
import copy
import fnmatch
import z3

from pyvc import source, solver, mutate
from pyvc.executor import Executor, State, Ctx, Unsupported, Raised
from pyvc.values import UFunc, to_bool, to_real, is_z3
from contracts import optimizer as CO
from . import common

PID = "C14"
CLAUSE_OF_POST = {0: "P1", 1: "P4", 2: "P2", 3: "P2-cap", 4: "P5", 5: "P6"}

# (mutation kind, substring of the mutated expression): first matching site of the real AST
CANARIES = {
    "brentsroot": [("cmprev", "D.ar_numpy.abs(fa) < D.ar_numpy.abs(fb) ->"), ("binswap", "(a + b) / 2 -> (a - b) / 2"),
                   ("cmprev", "D.ar_numpy.abs(f(b)) <= tol ->")],
    "brentsrootvec": [("cmprev", "D.ar_numpy.abs(fa) < D.ar_numpy.abs(fb) ->"), ("binswap", "(a[mask] + b[mask]) / 2 -> (a[mask] - b[mask]) / 2")],
}


def tol_none(c):
    c2 = copy.copy(c)
    c2.sorts = dict(c.sorts)
    c2.sorts["tol"] = ("const", None)
    c2.ensures = [e.replace(CO.TOLV, "eps") for e in c.ensures]
    c2.label = "tol-none"
    return c2


def regions_for(R, prefix, ensures_count):
    out = {}
    for j in range(ensures_count):
        e = R.kf.match(PID, "%s/post#%d[" % (prefix, j))
        if e and e.get("region"):
            out[("post", j)] = (e["id"], e["region"])
    return out


def lockstep(ex, src, reg):
    """P7: under a strict sign change the vector program's element follows the scalar program step by step."""
    fs = src.func(CO.F, "brentsroot")
    fv = src.func(CO.F, "brentsrootvec")
    f = UFunc("f", "real")
    lo, hi, tol = z3.Real("lo"), z3.Real("hi"), z3.Real("tolp")
    heads = {}

    def capture(which):
        def cb(st, node, ctx):
            heads.setdefault(which, []).append((st, node))
        return cb

    # ---- initial agreement: run both functions up to their loop heads from the same inputs
    for which, fi, c in (("s", fs, CO.brentsroot), ("v", fv, CO.brentsrootvec)):
        c2 = copy.copy(c)
        c2.loops = {0: {"capture": capture(which)}}
        c2.ensures = []
        c2.requires = []
        c2.abstract = set()
        ex.verify(c2, args_override={"f": f, "bounds": (lo, hi), "tol": tol},
                  extra_assume=[ex.uf("f", 1)(lo) * ex.uf("f", 1)(hi) < 0])
    names = ["a", "b", "c", "d", "fa", "fb", "fc", "mflag", "numiter", "tol"]
    ctx = Ctx(None, None, None, tag="lockstep")
    n = 0
    for ss, _ in heads.get("s", []):
        for sv, _ in heads.get("v", []):
            st = State()
            st.pc = list(ss.pc) + list(sv.pc)
            if not ex.feasible(st):
                continue
            eqs = [_eq(ss.env[k], sv.env[k]) for k in names]
            goal = z3.And(*eqs + [to_bool(sv.env["conv"]), z3.Not(to_bool(ss.env["conv"]))])
            ex.prove(st, ctx, goal, "lemma", "P7-init-states-agree#%d" % n)
            n += 1
    if n == 0:
        reg.undecided("C14/lockstep/P7-init", "lemma", "lockstep", "no feasible pair of loop-entry states")
    # ---- one iteration from a common symbolic state
    wnode_s = heads["s"][0][1]
    wnode_v = heads["v"][0][1]
    sym = dict(a=z3.Real("A"), b=z3.Real("B"), c=z3.Real("C"), d=z3.Real("Dd"), fa=z3.Real("FA"), fb=z3.Real("FB"),
               fc=z3.Real("FC"), mflag=z3.Bool("MFLAG"), numiter=z3.Int("NUMITER"), tol=z3.Real("TOL"))
    base = State()
    fz = ex.uf("f", 1)
    base.assume(sym["fa"] == fz(sym["a"]))
    base.assume(sym["fb"] == fz(sym["b"]))
    base.assume(sym["fc"] == fz(sym["c"]))
    base.assume(sym["numiter"] >= 3)
    base.assume(sym["numiter"] <= 63)
    s0 = base.fork()
    s0.env = dict(sym, f=f, conv=False, verbose=False)
    v0 = base.fork()
    v0.env = dict(sym, f=f, _f=None, conv=z3.BoolVal(True), not_conv=z3.BoolVal(False), s=z3.Real("S_prev"), fs=z3.Real("FS_prev"),
                  true_conv=z3.Bool("TC_prev"), verbose=False, mask=z3.Bool("M_prev"))
    # the vector program calls its wrapper _f(x, mask): bind it to the real closure from the function body
    vdefs = [n for n in ast.walk(fv.node) if isinstance(n, ast.FunctionDef) and n.name == "_f"]
    from pyvc.values import Closure
    v0.env["_f"] = Closure(vdefs[-1], v0.env, None, None, fv)       # the `else:` wrapper (callable front end)
    cs = Ctx(fs, None, None, lifted=False, tag="lockstep")
    cv = Ctx(fv, None, None, lifted=True, tag="lockstep")
    sp = ex.exec_block(wnode_s.body, s0, cs)
    vp = ex.exec_block(wnode_v.body, v0, cv)
    k = 0
    for s1, oc in sp:
        for v1, ocv in vp:
            st = State()
            st.pc = list(s1.pc) + [p for p in v1.pc if not any(p.eq(q) for q in s1.pc)]
            if not ex.feasible(st):
                continue
            eqs = [_eq(s1.env[nm], v1.env[nm]) for nm in ("a", "b", "c", "d", "fa", "fb", "fc", "mflag", "numiter")]
            ex.prove(st, ctx, z3.And(*eqs), "lemma", "P7-step-states-agree#%d" % k)
            # exit decisions: scalar leaves the loop iff conv or the `break`; the vector element stops iff not conv
            scalar_continues = z3.BoolVal(False) if (oc is not None and oc[0] == "break") else z3.Not(to_bool(s1.env["conv"]))
            ex.prove(st, ctx, scalar_continues == to_bool(v1.env["conv"]), "lemma", "P7-exit-decisions-agree#%d" % k)
            k += 1
    if k == 0:
        reg.undecided("C14/lockstep/P7-step", "lemma", "lockstep", "no feasible pair of iteration paths")


def _eq(x, y):
    if is_z3(x) and z3.is_bool(x) or is_z3(y) and z3.is_bool(y) or isinstance(x, bool) or isinstance(y, bool):
        return to_bool(x) == to_bool(y)
    return to_real(x) == to_real(y)


def check_bracket_tol(reg, src, prop=PID):
    """_bracket_tol(tol, a, b): the width at which a bracket counts as converged is the requested tolerance but never less than
    eps * max(|a|, |b|) -- the spacing of floating-point numbers at the bracket.  This is the lemma that connects the proofs over the
    reals (A1) with the float side: with this width the stopping test |b - a| <= width is reachable for a bracket that has collapsed to
    adjacent floats, at any magnitude of the bracket (defect F9b was its absence)."""
    import z3
    from pyvc.executor import State, Ctx, Raised
    from pyvc.values import to_real
    fi = src.func(CO.brentsroot.file, "_bracket_tol")
    ex = Executor(src, reg, prop=prop)
    st = State()
    tol, a, b = z3.Real("tol"), z3.Real("a"), z3.Real("b")
    st.assume(tol >= 0)
    ctx = Ctx(fi, None, None, tag="_bracket_tol")
    absz = lambda x: z3.If(x >= 0, x, -x)
    # the epsilon is that of the *bracket's* type (a tolerance handed in as a wider or narrower float type says nothing about the spacing of
    # the bracket's numbers): dtype provenance of the three arguments is tracked
    ex.dtype_tags[id(a)] = ("bracket", a)
    ex.dtype_tags[id(b)] = ("bracket", b)
    ex.dtype_tags[id(tol)] = ("tol", tol)
    paths = ex.call_function(fi, [tol, a, b], {}, st, ctx)
    spacing = z3.Real("eps_bracket") * z3.If(absz(a) >= absz(b), absz(a), absz(b))
    for k, (s, v) in enumerate(paths):
        if isinstance(v, Raised) or not z3.is_expr(v):
            reg.undecided("%s/_bracket_tol/value#%d" % (prop, k), "unsupported", "_bracket_tol", "result %r" % (v,))
            continue
        r = to_real(v)
        ex.prove(s, ctx, r >= tol, "post", "never-below-the-requested-tolerance#%d" % k)
        ex.prove(s, ctx, r >= spacing, "post", "never-below-the-float-spacing-at-the-bracket#%d" % k)
        ex.prove(s, ctx, z3.Or(r == tol, r == spacing), "post", "no-wider-than-needed#%d" % k)
    return fi


def run(tier):
    R = common.Run(PID, "proof", tier)
    R.assume("A1", "A2", "A3", "A4", "A7")
    R.assume("the interpolated trial point `s` of both solvers is abstracted to an arbitrary real in the contract proofs (sound: the proofs rely only on the safeguard cond1), and interpreted exactly (total real division) in the lock-step proof")
    R.assume("'within the requested tolerance' is proved for the convergence exit; on the 64-iteration cap exit only 'a sign change lies between the returned end points' is proved (DESIGN.md C14, honest limit)")
    R.trust("z3 5.1.0 (nonlinear real arithmetic + uninterpreted functions)", "pyvc executor (A2), canaries + native family as cross-check",
            "element-wise lifting of brentsrootvec; its list front end is verified on the projection f = [f_i] (A4)")
    src = source.load_all()
    reg = solver.Registry(solver.THOROUGH_TIMEOUT_MS if tier == "thorough" else solver.QUICK_TIMEOUT_MS)
    R.add_registry(reg)
    ex = Executor(src, reg, prop=PID)
    jobs = [(CO.brentsroot, None), (tol_none(CO.brentsroot), "tol-none"),
            (CO.brentsrootvec, None), (CO.brentsrootvec_list, "list-front-end"), (tol_none(CO.brentsrootvec), "tol-none")]
    try:
        R.under_contract(check_bracket_tol(reg, src))
        for c, label in jobs:
            fi = src.func(c.file, c.func)
            R.under_contract(fi)
            ex.prop = PID + ("/" + label if label else "")
            regs = regions_for(R, "%s/%s" % (ex.prop, fi.qualname), len(c.ensures))
            ex.verify(c, regions=regs)
        ex.prop = PID
        try:
            lockstep(ex, src, reg)
        except Unsupported:
            raise
        except Exception as e:
            # the lock-step harness starts one loop iteration of both solvers from a common symbolic state built from the loop-carried
            # variables of the current source; a body it cannot start from that state (e.g. a new loop-carried local) is undecided
            reg.undecided("C14/lockstep/harness-does-not-fit-the-current-loop-body", "unsupported", "lockstep", "%s: %s" % (type(e).__name__, e))
    except Unsupported as e:
        reg.undecided("C14/executor/unsupported", "unsupported", "executor", str(e))

    # ---- bounded native family (also the witness search for refuted obligations) ------------------------------
    fam = None
    try:
        fam = common.run_native("monitor/native_c14.py", dict(mode="search", seed=R.seed, n_random=100 if tier == "quick" else 2000,
                                                              longdouble=(tier == "thorough")))
    except Exception as e:
        R.notes.append("native family could not run: %r" % (e,))
    known_native = {}
    for e in R.kf.for_property(PID):
        for cl in e.get("native_clauses", []):
            known_native[cl] = e
    unexpected_native = {}
    if fam is not None:
        for cl, cases in fam["failures"].items():
            if cl not in known_native:
                unexpected_native[cl] = cases
        R.bounded.append(dict(name="native float family for both Brent solvers (clauses P1..P7 evaluated natively)",
                              bound="6 function kinds x 7 scales (1e-6..1e9) x 6 brackets (both orders, roots at end points) x 3 tolerances x float64/float32%s + %d seeded random cases" % (
                                  "/longdouble" if tier == "thorough" else "", 100 if tier == "quick" else 2000),
                              cases=fam["cases"], distinct=fam["distinct"], failing_clauses=fam["fail_counts"],
                              unexpected_failures={k: v[:2] for k, v in unexpected_native.items()}, label="bounded"))

    # ---- refuted obligations -----------------------------------------------------------------------------------
    for ob in list(reg.obligations):
        if ob.discharged or ob.result == "unknown":
            continue
        clause = None
        if ob.kind == "post" and "#" in ob.name:
            try:
                clause = CLAUSE_OF_POST.get(int(ob.name.split("post#")[1].split("[")[0]))
            except ValueError:
                pass
        elif "P7" in ob.name:
            clause = "P7"
        elif ob.kind in ("inv-pres", "inv-init"):
            clause = "invariant"
        witness = None
        if fam is not None and clause:
            for cl, cases in fam["failures"].items():
                if cl.startswith(clause) and cl not in known_native:
                    witness = dict(clause=cl, case=cases[0])
                    break
        payload = dict(clause=clause, source=dict(file=CO.F, function=ob.func),
                       native=dict(witness=witness, note="witness from the seeded native family" if witness else
                                   "counter-model is a state of one loop iteration / an uninterpreted f; no native failing input found in the seeded family"))
        path = R.write_replay(ob, payload)
        R.violation(ob, path, witness is not None, "clause=%s" % clause)
    # native failures with no refuted obligation behind them (floating-point side, outside A1)
    if unexpected_native and not R.violations:
        ob = reg.ground("C14/native-family/unexpected-failure", "bounded", "brentsroot*", False, backend="native-family",
                        detail="clauses failing natively: %s" % sorted(unexpected_native))
        path = R.write_replay(ob, dict(native=dict(failures={k: v[:3] for k, v in unexpected_native.items()})))
        R.violation(ob, path, True, "bounded-native clause=%s" % ",".join(sorted(unexpected_native)))

    # ---- known findings: replay the recorded witness ------------------------------------------------------------
    for e in R.kf.for_property(PID):
        try:
            res = common.run_native("monitor/native_c14.py", dict(mode="witness", witness=e["witness"]))
            still = any(cl in res["failed_clauses"] for cl in e.get("native_clauses", []))
            R.known(e, still, "witness %s -> failing clauses %s" % (e["witness"], res["failed_clauses"]))
        except Exception as ex_:
            R.notes.append("known finding %s witness replay error %r" % (e["id"], ex_))

    run_canaries(R, src)
    R.samples.append(dict(contract="brentsroot", ensures=CO.brentsroot.ensures, loop_invariant=CO.brentsroot.loops[0]["invariant"],
                          abstract=["s (havocked when assigned from a division by a non-constant)"]))
    R.extra_cov["clauses"] = {"P1": "post#0 inside the bracket", "P4": "post#1 success => |f|<=tol or sign change within tol",
                              "P2": "post#2/3 located sign change", "P5": "post#4 sign change => success", "P6": "post#5 (vector) no false success",
                              "P7": "lock-step lemmas"}
    return R.finish()


def run_canaries(R, src):
    for fn, wanted in CANARIES.items():
        c = CO.brentsroot if fn == "brentsroot" else CO.brentsrootvec
        fi = src.func(c.file, c.func)
        muts = mutate.mutants(fi.node)
        for w in wanted:
            sel = [(d, n) for d, n in muts if d.startswith(w[0]) and w[1] in d]
            if not sel:
                R.canaries.append(dict(function=fn, canary=list(w), result="not-applicable (site no longer present in source)"))
                continue
            d, node = sel[0]
            creg = solver.Registry(5000)
            cex = Executor(src, creg, prop=PID)
            try:
                with mutate.Mutated(fi, node):
                    cex.verify(c, regions=regions_for(R, "%s/%s" % (PID, fi.qualname), len(c.ensures)))
                killed = any((not o.discharged) and o.kind != "cover" for o in creg.obligations)
            except Unsupported:
                killed = True
            R.canaries.append(dict(function=fn, canary=d, refuted=killed))
            if not killed:
                ob = R.registries[0].ground("C14/%s/canary-refuted:%s" % (fn, w[1][:40]), "canary", fn, False, backend="z3",
                                            detail="engine PROVED a weakened copy of the function: %s" % d)
                ob.result = "unknown"
