"""Shared driver pieces: run context, known findings, replay files, evidence, verdict protocol.

Exit codes: 0 held / 1 VIOLATION (refuted obligation, replayed) / 2 undecided / 3 checker crash.
"""
import fnmatch
import hashlib
import json
import os
import subprocess
import sys
import time

VERIF = os.path.dirname(os.path.dirname(os.path.abspath(__file__)))
REPO = os.environ.get("VERIF_REPO", "/repo")
VENV_PY = "/venv/bin/python"
OUT = os.environ.get("VERIF_OUT", VERIF)        # where evidence/ and replays/ are written (mutant sweeps use a scratch dir)

GLOBAL_ASSUMPTIONS = {
    "A1": "A1 machine arithmetic treated as mathematical: floats are reals (no rounding, overflow, NaN); float literals are read as their decimal value",
    "A2": "A2 the executor's encoding of Python (floor division, chained comparisons, tuple-swap order, while/else, short-circuit, closures); not encoded: generators, descriptors other than property",
    "A3": "A3 numpy/autoray functions have their documented element-wise / reduction meaning (operator table pyvc/builtins.py); numpy itself trusted",
    "A4": "A4 element-wise lifting: a function built only from element-wise numpy operations and masked assignment is verified as the scalar program of one element, `any(c)` = c or nondeterministic",
    "A5": "A5 numpy backend only: branches guarded by backend == 'torch' are cut",
    "A6": "A6 scipy.optimize.root, scipy.linalg.solve, numpy.linalg.inv are external (assumed contracts, nothing proved about them)",
    "A7": "A7 termination proved only where a variant is stated; elsewhere partial correctness",
    "A8": "A8 cited theorems not mechanised: Butcher order theorem (rooted trees / P-series), simplifying assumptions B,C,D => order, M=0 => symplectic, composition of shears symplectic, maximum principle for A-stability, Peano kernel bound for cubic Hermite, Aitken-Neville elimination given an asymptotic expansion",
}

EXTRACTION_DROPS = ("docstrings and comments; `if verbose:` blocks and print(); `with warnings.catch_warnings()/numpy.printoptions()/"
                    "errstate()/no_grad()/backend_like()` treated as transparent blocks; tqdm progress-bar statements; branches guarded by "
                    "backend == 'torch' (A5). Nothing else is removed: an unsupported statement makes the function UNDECIDED, not passed.")


class KnownFindings(object):
    def __init__(self, path=None):
        self.path = path or os.path.join(VERIF, "known_findings.json")
        self.entries = []
        if os.path.exists(self.path):
            with open(self.path) as f:
                self.entries = json.load(f).get("findings", [])

    def for_property(self, pid):
        return [e for e in self.entries if e.get("status") == "known" and pid in e.get("properties", [e.get("property")])]

    def match(self, pid, obligation_name):
        """Known (unrepaired) finding whose obligation pattern matches."""
        for e in self.for_property(pid):
            for pat in e.get("obligations", []):
                if fnmatch.fnmatch(obligation_name, pat):
                    return e
        return None

    def by_id(self, fid):
        for e in self.entries:
            if e.get("id") == fid:
                return e
        return None


CURRENT = [None]          # the Run of this process (so that obligations already refuted are still reported if the checker crashes later)


def finish_after_crash(exc_text):
    """The checker crashed (an engine limit met in code it had not seen): obligations refuted before the crash are still violations and
    are reported as such; without any the crash stays a crash (exit 3, never a violation)."""
    R = CURRENT[0]
    if R is None:
        return 3
    R.notes.append("checker crashed after generating %d obligations: %s" % (sum(len(r.obligations) for r in R.registries), exc_text[-600:]))
    refuted = [o for r in R.registries for o in r.obligations if not o.discharged and o.result == "sat" and o.kind not in ("cover", "bounded") and not R.kf.match(R.pid, o.name)]
    if not refuted:
        return 3
    for ob in refuted[:10]:
        R.violation(ob, R.write_replay(ob, dict(identity=ob.detail, note="reported after a later part of the checker crashed", native=dict(witness=None))), False)
    rc = R.finish()
    return 1 if rc in (1, 2, 3) and R.violations else 3


class Run(object):
    def __init__(self, pid, level, tier=None, design_ref=None):
        CURRENT[0] = self
        self.pid = pid
        self.level = level
        self.tier = tier or os.environ.get("VERIF_TIER", "quick")
        self.seed = int(os.environ.get("VERIF_SEED", "0") or 0)
        self.t0 = time.time()
        self.kf = KnownFindings()
        self.violations = []       # (obligation name, replay path, native_failed: bool)
        self.undecided = []
        self.known_lines = []
        self.bounded = []          # bounded stand-ins: dict(name, bound, cases, failures)
        self.functions = []        # functions under contract: dict(file, func, sha256, lines)
        self.assumptions = []
        self.trusted = []
        self.samples = []
        self.canaries = []
        self.extra_cov = {}
        self.registries = []
        self.checker_cmd = "cd /verif && ./check %s --tier %s" % (pid, self.tier)
        self.notes = []

    # -- bookkeeping ---------------------------------------------------------------------------
    def assume(self, *keys):
        for k in keys:
            s = GLOBAL_ASSUMPTIONS.get(k, k)
            if s not in self.assumptions:
                self.assumptions.append(s)

    def trust(self, *items):
        for s in items:
            if s not in self.trusted:
                self.trusted.append(s)

    def under_contract(self, finfo, note=None):
        d = dict(file=finfo.file, function=finfo.qualname, sha256=finfo.sha256, lines=list(finfo.lines))
        if note:
            d["note"] = note
        if d not in self.functions:
            self.functions.append(d)

    def add_registry(self, reg):
        self.registries.append(reg)

    def all_obligations(self):
        for r in self.registries:
            for o in r.obligations:
                yield o

    # -- replay files ----------------------------------------------------------------------------
    def write_replay(self, obligation, payload):
        d = os.path.join(OUT, "replays", self.pid)
        os.makedirs(d, exist_ok=True)
        h = hashlib.sha256((obligation.name + json.dumps(payload, sort_keys=True, default=str)).encode()).hexdigest()[:10]
        safe = "".join(ch if ch.isalnum() or ch in "-_." else "_" for ch in obligation.name)[:120]
        path = os.path.join(d, "%s-%s.json" % (safe, h))
        body = dict(property=self.pid, obligation=obligation.name, kind=obligation.kind, function=obligation.func,
                    solver=dict(backend=obligation.backend, answer=obligation.result, ms=round(obligation.ms, 1),
                                model=obligation.model, detail=obligation.detail))
        if obligation.smt2:
            body["smt2"] = obligation.smt2[:20000]
        body.update(payload)
        with open(path, "w") as f:
            json.dump(body, f, indent=1, default=str)
        return os.path.relpath(path, OUT)

    def violation(self, obligation, replay_path, native_failed, what=""):
        self.violations.append((obligation.name, replay_path, native_failed, what))

    def known(self, entry, still_fails, detail=""):
        if still_fails:
            self.known_lines.append("KNOWN-FINDING: property=%s %s [%s] %s" % (self.pid, entry["what"], entry["id"], detail))
        else:
            self.notes.append("known finding %s no longer reproduces natively: %s" % (entry["id"], detail))

    # -- finish --------------------------------------------------------------------------------------
    def finish(self):
        obs = list(self.all_obligations())
        total = len(obs)
        discharged = sum(1 for o in obs if o.discharged)
        unknown = [o for o in obs if o.result == "unknown"]
        for o in unknown:
            self.undecided.append(o.name)
        # vacuity guards: an unreachable cover point means a contradictory contract -- nothing proved under it is believed.
        # That is a defect of the check, never a violation of the property.
        vac = [o for o in obs if o.kind == "cover" and not o.discharged]
        for o in vac:
            if o.name not in self.undecided:
                self.undecided.append(o.name + " (VACUOUS: cover point unreachable)")
        if vac:
            self.violations = [v for v in self.violations if "cover#" not in v[0]]
        if total == 0 and not self.bounded:
            print("CHECKER-ERROR property=%s zero obligations generated (vacuous run)" % self.pid)
            self.write_evidence(obs, total, discharged)
            return 3
        self.write_evidence(obs, total, discharged)
        for line in self.known_lines:
            print(line)
        if self.violations:
            for name, path, native, what in self.violations:
                print("VIOLATION property=%s replay=%s obligation=%s %s%s" % (
                    self.pid, path, name, what, "" if native else " no-failing-input-found"))
            return 1
        if self.undecided:
            for n in self.undecided[:20]:
                print("UNDECIDED property=%s obligation=%s" % (self.pid, n))
            return 2
        print("OK property=%s obligations=%d discharged=%d bounded_checks=%d wall=%.1fs" % (
            self.pid, total, discharged, len(self.bounded), time.time() - self.t0))
        return 0

    def write_evidence(self, obs, total, discharged):
        backends = {}
        for o in obs:
            backends[o.backend] = backends.get(o.backend, 0) + 1
        solver_ms = sum(o.ms for o in obs)
        samples = list(self.samples)
        for o in obs[:3]:
            samples.append(o.to_json(with_smt=False))
        big = [o for o in obs if o.smt2]
        for o in big[:1]:
            samples.append(dict(id=o.name, smt2=o.smt2[:3000]))
        cov = dict(
            obligations=total, discharged=discharged, checker_cmd=self.checker_cmd,
            trusted_base=self.trusted or ["z3 5.1.0", "CPython ast", "pyvc executor (A2)"],
            samples=samples,
            functions_under_contract=self.functions,
            obligations_by_backend=backends,
            solver_time_s=round(solver_ms / 1000.0, 3),
            obligation_list=[o.to_json() for o in obs] if total <= 400 else [o.to_json() for o in obs if not o.discharged][:200],
            obligation_kinds=_count(o.kind for o in obs),
            undischarged=[o.to_json() for o in obs if not o.discharged][:50],
            bounded=self.bounded,
            canaries=self.canaries,
            extraction_drops=EXTRACTION_DROPS,
            known_findings=[l for l in self.known_lines],
            notes=self.notes,
            evaluations=max(total, 1),
            distinct_nontrivial=max(len({o.name for o in obs}), 2) if total >= 2 else 2,
            rule="one evaluation = one named proof obligation generated from the current source text; distinct by obligation name",
            explanation=self.extra_cov.pop("explanation", "") or ("contract-based deductive verification: %d obligations generated from the "
                         "source text of /repo on this run, %d discharged" % (total, discharged)),
        )
        unm = []
        for r in self.registries:
            unm.extend(r.unmodelled)
        if unm:
            cov["havocked_constructs"] = sorted({"%s: %s" % u for u in unm})[:100]
        cov.update(self.extra_cov)
        ev = dict(property_id=self.pid, tier=self.tier if self.tier in ("quick", "thorough") else "quick", seed=self.seed,
                  level=self.level, coverage=cov, assumptions=self.assumptions, wall_s=round(time.time() - self.t0, 2),
                  violations=len(self.violations))
        os.makedirs(os.path.join(OUT, "evidence"), exist_ok=True)
        with open(os.path.join(OUT, "evidence", "%s.json" % self.pid), "w") as f:
            json.dump(ev, f, indent=1, default=str)


def _count(it):
    d = {}
    for x in it:
        d[x] = d.get(x, 0) + 1
    return d


def run_native(script_relpath, payload, timeout=600):
    """Run a /verif script under /venv/bin/python against /repo's working tree; JSON in (stdin), JSON out (stdout last line)."""
    env = dict(os.environ)
    env["PYTHONPATH"] = REPO + os.pathsep + VERIF
    env.setdefault("OMP_NUM_THREADS", "1")
    p = subprocess.run([VENV_PY, os.path.join(VERIF, script_relpath)], input=json.dumps(payload), capture_output=True,
                       text=True, timeout=timeout, env=env, cwd=REPO)
    if p.returncode != 0:
        raise RuntimeError("native helper %s failed (exit %d): %s" % (script_relpath, p.returncode, p.stderr[-2000:]))
    lines = [l for l in p.stdout.strip().splitlines() if l.strip()]
    return json.loads(lines[-1])


def hexfloat(fr):
    """Fraction / z3 rational string -> nearest float hex."""
    from fractions import Fraction
    if isinstance(fr, str):
        s = fr.replace("?", "")
        try:
            fr = Fraction(s)
        except Exception:
            fr = Fraction(float(s))
    return float(fr).hex()


def z3_value_to_fraction(v):
    import z3
    from fractions import Fraction
    if v is None:
        return None
    if z3.is_int_value(v):
        return Fraction(v.as_long())
    if z3.is_rational_value(v):
        return Fraction(v.numerator_as_long(), v.denominator_as_long())
    if z3.is_algebraic_value(v):
        a = v.approx(30)
        return Fraction(a.numerator_as_long(), a.denominator_as_long())
    if z3.is_true(v):
        return Fraction(1)
    if z3.is_false(v):
        return Fraction(0)
    return None


# ----------------------------------------------------------------------------------------------------------------
# parallel verification jobs: each job builds its own executor / registry in a fresh process and hands its obligations back
# ----------------------------------------------------------------------------------------------------------------
def _job_worker(spec):
    import importlib
    import traceback
    from pyvc import source, solver
    from pyvc.executor import Unsupported
    mod, fn = spec["fn"].split(":")
    t0 = time.time()
    reg = solver.Registry(spec.get("timeout_ms", 20000))
    if spec.get("fail_fast", True):
        reg.fail_fast = (3, 25)
    out = dict(label=spec.get("label", spec["fn"]), obligations=[], error=None, unsupported=None, stats={})
    try:
        src = source.load_all()
        res = getattr(importlib.import_module(mod), fn)(reg, src, **spec.get("kwargs", {}))
        if isinstance(res, dict):
            out["stats"] = res
    except Unsupported as e:
        out["unsupported"] = str(e)
    except solver.FailFast as e:
        out["stopped_early"] = str(e)
    except Exception:
        out["error"] = traceback.format_exc()
    for ob in reg.obligations:
        d = {}
        for k, v in ob.__dict__.items():
            if k == "z3model":
                continue
            if k == "region" and isinstance(v, tuple):
                v = v[0]
            d[k] = json.loads(json.dumps(v, default=str))
        out["obligations"].append(d)
    out["seconds"] = round(time.time() - t0, 1)
    return out


def run_jobs(reg, jobs, workers=None):
    """Run verification jobs in parallel processes; their obligations are appended to `reg` (in job order).  Returns the per-job summaries.
    A job that crashes raises here (exit 3 by the dispatcher); a job outside the executor's subset leaves an `undecided` obligation."""
    import multiprocessing as mp
    from pyvc import solver
    workers = workers or min(len(jobs), max(1, (os.cpu_count() or 4) - 2))
    ctx = mp.get_context("spawn")
    with ctx.Pool(workers) as pool:
        results = pool.map(_job_worker, jobs, chunksize=1)
    for r in results:
        if r["error"]:
            raise RuntimeError("verification job %s crashed:\n%s" % (r["label"], r["error"]))
        for d in r["obligations"]:
            ob = solver.Obligation(reg.unique(d["name"]), d["kind"], d["func"], d.get("lineno"))
            for k, v in d.items():
                if k != "name":
                    setattr(ob, k, v)
            reg.obligations.append(ob)
        if r["unsupported"]:
            reg.undecided("%s/executor/unsupported" % r["label"], "unsupported", "executor", r["unsupported"])
    return [dict(label=r["label"], obligations=len(r["obligations"]), seconds=r["seconds"], stats=r["stats"], **({"stopped_early": r["stopped_early"]} if r.get("stopped_early") else {})) for r in results]
