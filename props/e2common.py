"""Shared pieces of the E2 (table invariant) checks."""
import hashlib
import os
from fractions import Fraction

from . import common
from tabinv import order as O

SCHEME_FILES = ["desolver/integrators/explicit_integration_schemes.py", "desolver/integrators/implicit_integration_schemes.py"]


def load_tables(R):
    d = common.run_native("tabinv/dump.py", {})
    for f in SCHEME_FILES:
        path = os.path.join(common.REPO, f)
        with open(path, "rb") as fh:
            R.functions.append(dict(file=f, function="<class tables: tableau_intermediate, tableau_final, __order__, symplectic>",
                                    sha256=hashlib.sha256(fh.read()).hexdigest(),
                                    note="data invariant: values dumped from the imported classes by tabinv/dump.py on this run"))
    R.trust("the /venv import of desolver.integrators from /repo's working tree (tables are the objects the solver uses)")
    return d


def tables(m):
    ti = O.frac_table(m["tableau_intermediate"])
    tf = O.frac_table(m["tableau_final"]) if "tableau_final" in m else None
    return ti, tf


def fl(x):
    return float(x) if isinstance(x, Fraction) else x
