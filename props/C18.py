"""C18 -- the solve_ivp facade honours its arguments and agrees with the object API.

E1: the real solve_ivp is executed symbolically with the OdeSystem it builds replaced by an abstract object whose `integrate` and
`__getitem__` are the contracts proved in C03 and C19 (callers are checked against callee contracts):
  args binding (order preserving, through nested DiffRHS wrappers), first step clipped into [min_step, max_step], constructor and
  integrate() receive the caller's settings, the step-clipping callback keeps |dt| in [min_step, max_step] *without changing its
  sign*, without t_eval the result is (system.t, states with the time axis moved last), with t_eval the i-th returned time is within
  tol_epsilon of the i-th requested time in integration order and is paired with the state recorded there, result fields are the
  system's own.  max_step: with the clipping callback integrate() never records a step longer than max_step (integrate's loop
  invariant, verified on the real integrate with that callback's contract).
Array shapes for n-d states, dtypes and agreement with scipy are a bounded native family.
"""
import ast
import os
import z3

from pyvc import source, solver
from pyvc.executor import Executor, State, Ctx, Raised, Unsupported, Contract
from pyvc.values import UFunc, ConcVec, Ref, SeqVal, Opaque, ModuleRef, Closure, fresh_name, to_bool, to_real, ExcVal
from pyvc import builtins as B
from contracts import system as CS
from . import common, integrate_core as IC, C03

PID = "C18"
F = "desolver/differential_system.py"


def make_system(ex, st, kwargs):
    """Abstract OdeSystem as solve_ivp sees it (contract of OdeSystem.__init__: Rep holds, trajectory = the initial point, settings stored)."""
    t_span = kwargs["t"]
    t0, tf = ex.iterate(t_span, st, Ctx(None, tag="solve_ivp"))
    tarr = z3.Store(z3.Array(fresh_name("sys_t"), z3.IntSort(), z3.RealSort()), 0, to_real(t0))
    yarr = z3.Store(z3.Array(fresh_name("sys_y"), z3.IntSort(), z3.RealSort()), 0, z3.Real("y0_value"))
    dt = to_real(kwargs["dt"])
    dt_oriented = z3.If((dt > 0) != (to_real(tf) - to_real(t0) > 0), -dt, dt)
    fields = {"counter": 0, "_OdeSystem__t": SeqVal(tarr, z3.IntVal(1)), "_OdeSystem__y": SeqVal(yarr, z3.IntVal(1)), "_OdeSystem__dt": dt_oriented,
              "_OdeSystem__tf": to_real(tf), "_OdeSystem__t0": to_real(t0), "_OdeSystem__dense_output": kwargs.get("dense_output"),
              "_OdeSystem__int_status": 0, "_OdeSystem__sol": st.new_obj("DenseOutput"), "_OdeSystem__events": st.new_obj("list", "list", items=[]),
              "_OdeSystem__consts": kwargs.get("constants"), "_OdeSystem__rtol": kwargs.get("rtol"), "_OdeSystem__atol": kwargs.get("atol"),
              "equ_rhs": st.new_obj("DiffRHS", fields=dict(rhs=kwargs.get("equ_rhs"), nfev=z3.Int("nfev"), njev=z3.Int("njev"))),
              "_OdeSystem__inferred_backend": "numpy", "_OdeSystem__array_con_kwargs": None, "ctor_kwargs": dict(kwargs), "method_set_to": None,
              "integrate_calls": []}
    return st.new_obj("OdeSystem", fields=fields)


INTEGRATE_POST = ("len(self.__t) == self.counter + 1 and len(self.__y) == self.counter + 1 and old(self.counter) <= self.counter",
                  "forall(lambda i: implies(0 <= i and i <= old(self.counter), self.__t[i] == old(self.__t)[i] and self.__y[i] == old(self.__y)[i]))",
                  "abs(t - self.__t[self.counter]) < 8 * eps or self.__dt == 0")


def install(ex, reg):
    ctor = ex.src.find_method("OdeSystem", "__init__")
    ctor_params = [a.arg for a in ctor.node.args.args][1:]          # the real constructor's parameter names, in order (without self)

    def new_system(ex_, st, ctx, args, kwargs):
        bound = dict(zip(ctor_params, args))                          # positional arguments bind as python binds them
        bound.update(kwargs)
        return make_system(ex_, st, bound)
    ex.call_hooks["new:OdeSystem"] = new_system
    ex.call_hooks["OdeSystem"] = ex.call_hooks["new:OdeSystem"]

    def set_method(ex_, st, ctx, args, kwargs):
        st.obj(args[0]).fields["method_set_to"] = args[1]
        return None
    ex.call_hooks["OdeSystem.method.setter"] = set_method

    def integrate(ex_, st, ctx, args, kwargs):
        # contract of OdeSystem.integrate proved in C03 (normal return): prefix kept, buffers trimmed, ends within tol_epsilon of the target
        sysref = args[0]
        o = st.obj(sysref).fields
        o["integrate_calls"] = o["integrate_calls"] + [dict(kwargs)]
        tgt = kwargs.get("t")
        if tgt is None:
            tgt = o["_OdeSystem__tf"]
        tgt = to_real(tgt)
        old_t, old_y, old_c = o["_OdeSystem__t"], o["_OdeSystem__y"], o["counter"]
        ex_.prove(st, ctx, z3.And(to_z3i(old_c) >= 0, old_t.length == to_z3i(old_c) + 1, old_y.length == to_z3i(old_c) + 1), "pre@callsite", "pre@callsite:integrate-Rep")
        c1 = z3.Int(fresh_name("counter"))
        nt, ny = SeqVal.fresh("sys_t"), SeqVal.fresh("sys_y")
        i = z3.Int(fresh_name("i"))
        st.assume(z3.And(c1 >= to_z3i(old_c), nt.length == c1 + 1, ny.length == c1 + 1))
        st.assume(z3.ForAll([i], z3.Implies(z3.And(i >= 0, i <= to_z3i(old_c)), z3.And(z3.Select(nt.arr, i) == z3.Select(old_t.arr, i), z3.Select(ny.arr, i) == z3.Select(old_y.arr, i)))))
        newdt = z3.Real(fresh_name("sys_dt"))
        last = z3.Select(nt.arr, c1)
        cbs = kwargs.get("callback")
        no_callbacks = isinstance(cbs, Ref) and st.obj(cbs).items == []
        close = z3.If(tgt - last >= 0, tgt - last, last - tgt) < 8 * ex_.eps
        # without callbacks nothing can set dt to zero (C12: dt != 0 is part of the post-state), so the run ends at its target
        st.assume(z3.And(close, newdt != 0) if no_callbacks else z3.Or(close, newdt == 0))
        if os.environ.get("VERIF_CANARY_C18") == "weak-integrate-post":
            st.pc.pop()
            st.assume(z3.Or(close, newdt == 0))
        o["_OdeSystem__t"], o["_OdeSystem__y"], o["counter"], o["_OdeSystem__dt"] = nt, ny, c1, newdt
        o["_OdeSystem__int_status"] = 1
        return None
    ex.call_hooks["OdeSystem.integrate"] = integrate
    ex.contracts["OdeSystem.__getitem__"] = CS.getitem_int
    ex.call_hooks["StateTuple"] = lambda ex_, st, ctx, args, kwargs: st.new_obj("StateTuple", fields=dict(kwargs))

    def getfullargspec(ex_, st, ctx, args, kwargs):
        fn = args[0]
        names = fn.attrs.get("__params__") if isinstance(fn, UFunc) else None
        if names is None:
            raise Unsupported("getfullargspec of %r" % (fn,))
        # a FullArgSpec named tuple: readable by position ([0]) and by name (.args)
        lst = st.new_obj("list", "list", items=list(names))
        return st.new_obj("FullArgSpec", fields=dict(args=lst, varargs=None, varkw=None, defaults=None, kwonlyargs=st.new_obj("list", "list", items=[]), kwonlydefaults=None, annotations=None))
    ex.call_hooks["getitem:FullArgSpec"] = lambda ex_, st, ctx, ref, idx: st.obj(ref).fields[("args", "varargs", "varkw", "defaults", "kwonlyargs", "kwonlydefaults", "annotations")[idx]]
    ex.call_hooks["inspect.getfullargspec"] = getfullargspec
    ex.call_hooks["getfullargspec"] = getfullargspec
    ex.call_hooks["OdeResult"] = lambda ex_, st, ctx, args, kwargs: st.new_obj("OdeResult", fields=dict(kwargs))

    def transpose(ex_, st, ctx, args, kwargs):
        return st.new_obj("Transposed", fields=dict(base=args[0], axes=kwargs.get("axes")))
    ex.handlers["D.ar_numpy.transpose"] = transpose

    def sort(ex_, st, ctx, args, kwargs):
        v = args[0]
        if not isinstance(v, ConcVec):
            raise B.Havoc("sort")
        # A3: numpy.sort returns the ascending rearrangement: one path per permutation (argsort) then gather
        out = []
        for s2, perm in B.TABLE["D.ar_numpy.argsort"](ex_, st, ctx, [v], {}) if len(v) > 1 else [(st, ConcVec(list(range(len(v)))))]:
            out.append((s2, ConcVec([v.items[k] for k in perm.items])))
        return out
    ex.handlers["D.ar_numpy.sort"] = sort
    ex.inline.update(["OdeSystem.t", "OdeSystem.y"])


def to_z3i(v):
    return z3.IntVal(v) if isinstance(v, int) else v


def run_solve_ivp(src, reg, label, **kw):
    ex = Executor(src, reg, prop=PID)
    ex.oob_raises = True
    install(ex, reg)
    fi = src.func(F, "solve_ivp")
    st = State()
    ctx = Ctx(fi, None, None, tag="solve_ivp[%s]" % label)
    t0, tf = z3.Real("t0"), z3.Real("tf")
    st.assume(t0 != tf)
    nparams = kw.pop("nparams", 0)
    wrap = kw.pop("wrap", 0)
    fun = UFunc("user_fun", "opaque", attrs={"__params__": ["t", "y"] + ["p%d" % k for k in range(nparams)] + (["extra"] if kw.pop("extra_param", False) else [])})
    f_arg = fun
    for _ in range(wrap):
        f_arg = st.new_obj("DiffRHS", fields=dict(rhs=f_arg))
    args = dict(fun=f_arg, t_span=(t0, tf), y0=Opaque("y0"))
    args.update(kw)
    paths = ex.call_function(fi, [], args, st, ctx)
    return ex, ctx, paths, dict(t0=t0, tf=tf, fun=fun, f_arg=f_arg)


def check_facade(reg, src):
    fi = src.func(F, "solve_ivp")
    # ---- (1) args binding, through 0, 1, 2 DiffRHS wrappers; fewer args than parameters; ---------------------------------------
    for wrap in (0, 1, 2):
        for nparams, nargs in ((2, 2), (3, 2), (1, 1)):
            vals = tuple(z3.Real("arg%d" % k) for k in range(nargs))
            ex, ctx, paths, inp = run_solve_ivp(src, reg, "args,wrap=%d,%d-of-%d" % (wrap, nargs, nparams), args=vals, nparams=nparams, wrap=wrap)
            for k, (s, v) in enumerate(paths):
                if isinstance(v, Raised):
                    reg.ground("%s/%s/no-exception#%d" % (PID, ctx.tag, k), "post-exc", "solve_ivp", False, detail=repr(v.exc))
                    continue
                sysobj = s.obj(s.obj(v).fields["ode_system"]).fields
                consts = sysobj["ctor_kwargs"].get("constants")
                items = s.obj(consts).items if isinstance(consts, Ref) else None
                want = {"p%d" % j: vals[j] for j in range(nargs)}
                reg.ground("%s/%s/args-bound-to-parameters-in-order#%d" % (PID, ctx.tag, k), "post", "solve_ivp", items is not None and list(items.keys()) == list(want.keys())
                           and all(items[a] is want[a] for a in want), backend="symbolic-exec", detail="constants == dict(zip(parameters[2:], args)): %r" % (list(items.keys()) if items else None,))
    # ---- (2)-(4) settings pass-through, no t_eval ------------------------------------------------------------------------------
    ms, mn, fs = z3.Real("max_step"), z3.Real("min_step"), z3.Real("first_step")
    ex, ctx, paths, inp = run_solve_ivp(src, reg, "no-t_eval,max_step", max_step=ms, min_step=mn, first_step=fs, dense_output=True, events=Opaque("events"),
                                        atol=z3.Real("atol"), rtol=z3.Real("rtol"), method="RK45")
    for k, (s, v) in enumerate(paths):
        if isinstance(v, Raised):
            reg.ground("%s/%s/no-exception#%d" % (PID, ctx.tag, k), "post-exc", "solve_ivp", False, detail=repr(v.exc))
            continue
        res = s.obj(v).fields
        sysref = res["ode_system"]
        so = s.obj(sysref).fields
        ck = so["ctor_kwargs"]
        dt0 = to_real(ck["dt"])
        ex.prove(s, ctx, z3.Implies(mn <= ms, z3.And(dt0 <= ms, dt0 >= mn, z3.Implies(z3.And(fs <= ms, fs >= mn), dt0 == fs))), "post", "first-step-clipped-into-[min_step,max_step]#%d" % k)
        reg.ground("%s/%s/settings-passed-to-the-system#%d" % (PID, ctx.tag, k), "post", "solve_ivp", ck.get("equ_rhs") is inp["f_arg"] and ck.get("dense_output") is True and
                   so["method_set_to"] == "RK45" and z3.is_expr(ck.get("atol")) and ck["atol"].eq(z3.Real("atol")) and z3.is_expr(ck.get("rtol")) and ck["rtol"].eq(z3.Real("rtol")) and
                   len(so["integrate_calls"]) == 1 and
                   so["integrate_calls"][0].get("events") is not None, backend="symbolic-exec", detail="constructor kwargs %r; method %r; integrate kwargs %r" % (
                       sorted(ck), so["method_set_to"], [sorted(c) for c in so["integrate_calls"]]))
        cbs = so["integrate_calls"][0].get("callback")
        cb_items = s.obj(cbs).items if isinstance(cbs, Ref) else []
        reg.ground("%s/%s/step-clipping-callback-installed#%d" % (PID, ctx.tag, k), "post", "solve_ivp", len(cb_items) == 1 and isinstance(cb_items[0], Closure), backend="symbolic-exec")
        # t_res is the system's time grid, y_res the states with the time axis moved last: columns pair with times
        tr, yr = res["t"], res["y"]
        ok_t = isinstance(tr, SeqVal) and tr.arr.eq(so["_OdeSystem__t"].arr)
        yo = s.obj(yr).fields if isinstance(yr, Ref) else {}
        base = yo.get("base")
        reg.ground("%s/%s/times-and-states-are-the-systems-own-paired#%d" % (PID, ctx.tag, k), "post", "solve_ivp", ok_t and isinstance(base, SeqVal) and base.arr.eq(so["_OdeSystem__y"].arr),
                   backend="symbolic-exec", detail="t_res is ode_system.t; y_res = transpose(ode_system.y, axes=[1, ..., ndim-1, 0])")
        for fld, attr in (("sol", "_OdeSystem__sol"), ("t_events", "_OdeSystem__events"), ("y_events", "_OdeSystem__events")):
            reg.ground("%s/%s/result-field-%s#%d" % (PID, ctx.tag, fld, k), "post", "solve_ivp", res.get(fld) is so[attr] or res.get(fld) == so[attr], backend="symbolic-exec")
        reg.ground("%s/%s/result-counters#%d" % (PID, ctx.tag, k), "post", "solve_ivp", res.get("nfev") is s.obj(so["equ_rhs"]).fields["nfev"] and res.get("njev") is s.obj(so["equ_rhs"]).fields["njev"],
                   backend="symbolic-exec")
        # the installed callback: |dt| stays within [min_step, max_step] and keeps its sign
        if cb_items:
            for dname, dval in (("forward", z3.Real("dt_pos")), ("backward", z3.Real("dt_neg"))):
                s3 = s.fork()
                s3.assume(dval > 0 if dname == "forward" else dval < 0)
                s3.assume(z3.And(mn >= 0, mn <= ms, ms > 0))
                sys2 = s3.new_obj("OdeSystemDtOnly", fields=dict(dt=dval))
                r3 = ex.call(cb_items[0], [sys2], {}, s3, ctx)
                for s4, v4 in r3:
                    nd = to_real(s4.obj(sys2).fields["dt"])
                    ab = z3.If(nd >= 0, nd, -nd)
                    ex.prove(s4, ctx, z3.And(ab <= ms, ab >= mn, (nd > 0) == (dval > 0), z3.Implies(z3.And(z3.If(dval >= 0, dval, -dval) <= ms, z3.If(dval >= 0, dval, -dval) >= mn), nd == dval)),
                             "post", "step-callback-clips-magnitude-keeps-sign[%s]#%d" % (dname, k))
    # transposition axes for 2-d and 3-d stored arrays (time axis first -> last)
    text, tree = src.load(F)
    fn = [n for n in tree.body if isinstance(n, ast.FunctionDef) and n.name == "solve_ivp"][0]
    tr_calls = [ast.unparse(n) for n in ast.walk(fn) if isinstance(n, ast.Call) and ast.unparse(n.func).endswith("transpose")]
    ok_axes = len(tr_calls) == 1 and "axes=[*range(1, len(ode_system.y.shape)), 0]" in tr_calls[0].replace("  ", " ")
    reg.ground("%s/solve_ivp/time-axis-moved-last" % PID, "post", "solve_ivp", ok_axes, backend="ast", detail="%r: the permutation [1, ..., ndim-1, 0] moves the time axis last and keeps the order of the state axes" % (tr_calls,))
    # ---- (5) t_eval: 1..3 requested times, any order, repeated values allowed, forward and backward spans ------------------------------
    for n in (1, 2, 3):
        te = ConcVec([z3.Real("te%d" % k) for k in range(n)])
        ex, ctx, paths, inp = run_solve_ivp(src, reg, "t_eval,n=%d" % n, t_eval=te)
        t0, tf = inp["t0"], inp["tf"]
        feasible_normal = 0
        for k, (s, v) in enumerate(paths):
            if not ex.feasible(s):
                continue
            if not isinstance(v, Raised):
                feasible_normal += 1
            lo, hi = z3.If(t0 < tf, t0, tf), z3.If(t0 < tf, tf, t0)
            inside = z3.And(*[z3.And(x >= lo, x <= hi) for x in te.items])
            if isinstance(v, Raised):
                # the only legitimate exception: a requested time outside the span
                ex.prove(s, ctx, z3.Not(inside), "post-exc", "raises-only-for-times-outside-the-span#%d" % k)
                continue
            res = s.obj(v).fields
            so = s.obj(res["ode_system"]).fields
            calls = so["integrate_calls"]
            tgts = [to_real(c.get("t")) for c in calls]
            tr = res["t"]
            got = list(tr.items) if isinstance(tr, ConcVec) else None
            goals = [z3.BoolVal(got is not None and len(got) == n and len(tgts) == n)]
            if got is not None and len(got) == n == len(tgts):
                sgn = z3.If(tf > t0, 1, -1)
                for j in range(n):
                    goals.append(z3.If(tgts[j] - got[j] >= 0, tgts[j] - got[j], got[j] - tgts[j]) < 8 * ex.eps)          # returned time is the requested one
                    goals.append(z3.Or(*[tgts[j] == x for x in te.items]))                                                # a requested time
                for j in range(n - 1):
                    goals.append(sgn * tgts[j] <= sgn * tgts[j + 1])                                                      # visited in integration order
                for x in te.items:
                    goals.append(z3.Or(*[tg == x for tg in tgts]))                                                         # every requested time is visited
            ex.prove(s, ctx, z3.And(*goals), "post", "t_eval-times-returned-in-integration-order#%d" % k)
        o_ = reg.ground("%s/%s/cover#normal-path-feasible" % (PID, ctx.tag), "cover", "solve_ivp", feasible_normal >= 1, detail="%d feasible normally returning paths" % feasible_normal)
        o_.expect, o_.result = "sat", ("sat" if feasible_normal >= 1 else "unsat")
    return fi


def check_t_eval_any_length(reg, src):
    """solve_ivp with t_eval an array of *symbolic length* n >= 1: the loop `for t in t_eval` is cut by an invariant (as many results as
    requested times visited so far, each within tol_epsilon of its requested time; the system keeps integrate()'s representation
    invariant), numpy.sort by its axioms (ascending, same length, same set of values: A3 -- multiplicities of repeated values are only
    covered by the enumeration for n <= 3 above).  Post: n times are returned, the j-th is the j-th requested time in integration order
    (ascending for an increasing span, descending for a decreasing one) to tol_epsilon; ValueError only for a time outside the span."""
    fi = src.func(F, "solve_ivp")
    ex = Executor(src, reg, prop=PID)
    ex.oob_raises = True
    install(ex, reg)
    n = z3.Int("n_eval")
    te = SeqVal(z3.Array("t_eval_in", z3.IntSort(), z3.RealSort()), n, "Real")
    sorted_holder = {}

    def sort(ex_, st, ctx, args, kwargs):
        v = args[0]
        if not isinstance(v, SeqVal):
            raise B.Havoc("sort")
        S = SeqVal(z3.Array(fresh_name("sorted"), z3.IntSort(), z3.RealSort()), v.length, "Real")
        i, j = z3.Int(fresh_name("i")), z3.Int(fresh_name("j"))
        st.assume(z3.ForAll([i, j], z3.Implies(z3.And(0 <= i, i < j, j < v.length), z3.Select(S.arr, i) <= z3.Select(S.arr, j))))
        st.assume(z3.ForAll([i], z3.Implies(z3.And(0 <= i, i < v.length), z3.Exists([j], z3.And(0 <= j, j < v.length, z3.Select(S.arr, i) == z3.Select(v.arr, j))))))
        st.assume(z3.ForAll([j], z3.Implies(z3.And(0 <= j, j < v.length), z3.Exists([i], z3.And(0 <= i, i < v.length, z3.Select(S.arr, i) == z3.Select(v.arr, j))))))
        sorted_holder["S"] = S
        return S
    ex.handlers["D.ar_numpy.sort"] = sort
    SYS = "ode_system"
    inv = ["len(t_res) == iter_index and len(y_res) == iter_index",
           "forall(lambda j: implies(0 <= j and j < iter_index, abs(t_res[j] - t_eval[j]) < 8 * eps))",
           # the system stays in the state integrate() requires and leaves (C03): trajectory buffers exactly as long as the record
           "%s.counter >= 0 and len(%s._OdeSystem__t) == %s.counter + 1 and len(%s._OdeSystem__y) == %s.counter + 1" % (SYS, SYS, SYS, SYS, SYS),
           "%s._OdeSystem__dt != 0" % SYS]
    c = Contract(F, "solve_ivp", sorts={}, requires=[], ensures=[], loops={"for t in t_eval": {"cut": True, "invariant": inv, "symlists": {"t_res": "real", "y_res": "real"}}})
    st = State()
    st.assume(n >= 1)
    t0, tf = z3.Real("t0"), z3.Real("tf")
    st.assume(t0 != tf)
    fun = UFunc("user_fun", "opaque", attrs={"__params__": ["t", "y"]})
    ctx = Ctx(fi, c, None, tag="solve_ivp[t_eval,any-length]")
    ctx.entry = st.fork()
    paths = ex.call_function(fi, [], dict(fun=fun, t_span=(t0, tf), y0=Opaque("y0"), t_eval=te), st, ctx, contract=c)
    lo, hi = z3.If(t0 < tf, t0, tf), z3.If(t0 < tf, tf, t0)
    k_ = z3.Int("k_in")
    inside = z3.ForAll([k_], z3.Implies(z3.And(0 <= k_, k_ < n), z3.And(z3.Select(te.arr, k_) >= lo, z3.Select(te.arr, k_) <= hi)))
    n_norm = 0
    for k, (s, v) in enumerate(paths):
        if isinstance(v, Raised):
            ex.prove(s, ctx, z3.Not(inside), "post-exc", "raises-only-for-times-outside-the-span#%d" % k)
            reg.ground("%s/%s/raises-ValueError#%d" % (PID, ctx.tag, k), "post-exc", "solve_ivp", v.exc.cls == "ValueError", backend="symbolic-exec", detail="exception class %s" % v.exc.cls)
            continue
        n_norm += 1
        res = s.obj(v).fields
        tr = res["t"]
        S = sorted_holder.get("S")
        if not (isinstance(tr, SeqVal) and S is not None):
            reg.undecided("%s/%s/result#%d" % (PID, ctx.tag, k), "unsupported", "solve_ivp", "t result %r" % (tr,))
            continue
        j = z3.Int("j_out")
        want = z3.If(tf > t0, z3.Select(S.arr, j), z3.Select(S.arr, n - 1 - j))
        d = z3.Select(tr.arr, j) - want
        ex.prove(s, ctx, tr.length == n, "post", "as-many-times-as-requested#%d" % k)
        ex.prove(s, ctx, z3.ForAll([j], z3.Implies(z3.And(0 <= j, j < n), z3.If(d >= 0, d, -d) < 8 * ex.eps)), "post", "j-th-time-is-the-j-th-requested-time-in-integration-order#%d" % k)
        yr = res["y"]
        ex.prove(s, ctx, yr.length == n if isinstance(yr, SeqVal) else False, "post", "one-state-per-time#%d" % k)
    reg.ground("%s/%s/paths-explored" % (PID, ctx.tag), "lemma", "solve_ivp", n_norm >= 2, detail="%d normal paths (increasing and decreasing span), %d in all" % (n_norm, len(paths)))
    return fi


def max_step_chain(reg, src):
    """integrate() with the clipping callback's contract (|dt| <= M after every callback, sign kept) and |dt| <= M initially never
    records a step longer than M."""
    ex = IC.base_executor(src, reg, PID + "/max-step-chain")
    M = z3.Real("max_step")

    def cb(ex_, st, ctx, args, kwargs):
        o = st.obj(args[0]).fields
        d = o["_OdeSystem__dt"]
        nd = z3.Real(fresh_name("dt_clipped"))
        st.assume(z3.And(z3.If(nd >= 0, nd, -nd) <= M, (nd > 0) == (d > 0), (nd < 0) == (d < 0)))
        o["_OdeSystem__dt"] = nd
        return [(st, None)]
    ex.call_hooks["ufunc:cb0"] = cb
    T0 = "old(self.__t)[old(self.counter)]"
    inv = ["max_step_ > 0", "abs(self.__dt) <= max_step_",
           "forall(lambda i: implies(old(self.counter) < i and i <= self.counter, abs(self.__t[i] - self.__t[i - 1]) <= max_step_))"]
    c = IC.make_contract(1, extra_inv=inv, extra_req=["max_step_ > 0", "abs(self.__dt) <= max_step_"],
                         extra_post=["implies(abs(tf_ - " + T0 + ") >= eps, forall(lambda i: implies(old(self.counter) < i and i <= self.counter, abs(self.__t[i] - self.__t[i - 1]) <= max_step_)))"])
    c.ghost = dict(c.ghost, max_step_="Real")
    orig = ex.make_param

    def mk(name, sort, st):
        if name == "max_step_":
            return M
        return orig(name, sort, st)
    ex.make_param = mk
    ex.verify(c)
    return src.func(IC.F, "OdeSystem.integrate")


def run(tier):
    R = common.Run(PID, "proof", tier)
    R.assume("A1", "A2", "A3")
    R.assume("inside solve_ivp the OdeSystem is represented by the construction contract (Rep holds, trajectory is the initial point, dt oriented toward tf, settings stored), which is proved in this same run from the real text of OdeSystem.__init__ (props/ctor.py); integrate and __getitem__ by the contracts proved in C03 / C19")
    R.assume("inspect.getfullargspec returns the parameter names of the user function in order (assumed); numpy.sort / transpose have their documented meaning (A3)")
    R.assume("shapes (n_t,) and (*state_shape, n_t) for n-d states, dtypes, and agreement with scipy.integrate.solve_ivp are a bounded native family only")
    R.trust("z3", "pyvc executor")
    src = source.load_all()
    reg = solver.Registry(solver.THOROUGH_TIMEOUT_MS if tier == "thorough" else 20000)
    R.add_registry(reg)
    known_refuted = []
    try:
        R.under_contract(check_facade(reg, src))
        R.under_contract(max_step_chain(reg, src))
        try:
            check_t_eval_any_length(reg, src)          # t_eval of any length: the loop over the requested times cut by an invariant
        except Unsupported as e:
            reg.undecided(PID + "/solve_ivp[t_eval,any-length]/unsupported", "unsupported", "executor", str(e))
        from . import ctor
        for fi in IC.verify_helpers(src, reg, PID):
            R.under_contract(fi)
        R.under_contract(ctor.check_ode_init(reg, src, PID)[0])
    except Unsupported as e:
        reg.undecided(PID + "/executor/unsupported", "unsupported", "executor", str(e))
    for ob in list(reg.obligations):
        if not ob.discharged and ob.kind != "cover":
            e = R.kf.match(PID, ob.name)
            if e:
                reg.obligations.remove(ob)
                ob.kf = e
                known_refuted.append(ob)
    nat = None
    try:
        nat = common.run_native("monitor/native_c18.py", dict(tier=tier), timeout=1500)
        R.bounded.append(dict(name="native facade family (shapes for n-d states, t_eval subsets, args, max_step, parity with the object API and with scipy)", bound=nat["bound"], cases=nat["cases"],
                              failing_clauses={k: len(v) for k, v in nat["failures"].items()}, label="bounded"))
    except Exception as e:
        R.notes.append("native family could not run: %r" % (e,))
    C03.triage(R, reg, nat)
    for e in R.kf.for_property(PID):
        hit = [o for o in known_refuted if getattr(o, "kf", None) is e]
        nat_hit = nat and any(cl in nat["failures"] for cl in e.get("native_clauses", []))
        R.known(e, bool(hit) or bool(nat_hit), "obligations %s" % ([o.name for o in hit[:2]],))
    return R.finish()
