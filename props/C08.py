"""C08 -- no event crossing is missed.

The property is a chain; each link is a contract on the real function that implements it:
  (1) brentsrootvec: a sign change over the bracket gives success unless the iteration cap is hit (C14, P5, proved there; F9 repaired);
  (2) handle_events (real text, no-miss lemma): a strict sign change of g_k between the ends of the step that the root finder
      certified, with direction 0 or a compatible direction, is among the returned events -- unless it lies after the terminal
      event that cut the list; hypothesis stated explicitly: the crossing is isolated inside the sampling window of the
      direction classifier;
  (3) OdeSystem.integrate (real text): every root handle_events returns is recorded in __events in the same iteration, unless it
      repeats (within eps^0.7) the latest record of the same event (ghost obligation at the end of every loop iteration);
  (4) the interpolant consulted is the one of the step just taken: at the call of handle_events the newest piece of the real
      DenseOutput spans [t_prev, t_next] and DO_Inv holds (pre@callsite), in both time directions;
  (5) pruning while dense output is off keeps that piece: remove_interpolant drops the *oldest* piece (C06 contract of
      remove_interpolant per direction; loop invariant 'at most two pieces, newest ends at the current time').
Scale / steepness independence: g is uninterpreted -- nothing in the chain depends on its magnitude (F9 was the exception).
Bounded (native): counts of crossings of closed-form problems over 12 orders of magnitude of scale, 1..6 events, all families.
"""
from pyvc import source, solver
from . import common, evcommon as EC, integrate_events as IE, integrate_core as IC

PID = "C08"


def run(tier):
    R = common.Run(PID, "proof", tier)
    R.assume("A1", "A2", "A3", "A4", "A7")
    for a in EC.ASSUME_EVENTS:
        R.assume(a)
    R.assume("link (1) holds 'unless the iteration cap (64) is hit'; that the cap is not hit for a bracket of a double is not proved (bounded native)")
    R.assume("link (2) hypothesis: the crossing is the only sign change of g_k within (root +- 3 eps^0.75 |t_next - t_prev|) (isolated crossing); two crossings of one event function inside one step yield one record (sign change at the ends is then absent or single) -- outside the property's premise 'changes sign between the two ends'")
    R.assume("g(t_prev, y_prev) and g(t_next, y_next) are what the root finder sees at the bracket ends because the Hermite piece reproduces the recorded states at its ends (C17/C06, proved there)")
    R.trust("z3", "pyvc executor", "contract of the vectorised Brent root finder proved in C14", "contracts of DenseOutput proved in C06")
    src = source.load_all()
    reg = solver.Registry(solver.THOROUGH_TIMEOUT_MS if tier == "thorough" else 30000)
    R.add_registry(reg)
    jobs = [dict(fn="props.events:job_no_miss", label="%s/handle_events-no-miss[n=%d]" % (PID, n), kwargs=dict(prop=PID, n=n)) for n in (1, 2)]
    jobs += [dict(fn="props.events:job_handle_events", label="%s/handle_events[n=%d]" % (PID, n), kwargs=dict(prop=PID, n=n)) for n in (1, 2)]
    cfgs = EC.configs(tier, "nonterminal")
    for n, terms, d, dense in cfgs:
        jobs.extend(IE.event_jobs(PID, n, terms, d, dense))
    jobs.append(dict(fn="props.integrate_events:job_remove", label=PID + "/DenseOutput", kwargs=dict(prop=PID)))
    EC.obligations_of(reg, R, jobs)
    # link (1) on the float side: the stopping width of the root finder is never below the spacing of floats at the bracket, so a
    # sign-changing bracket that has collapsed to adjacent floats is accepted at any magnitude of t (lemma over _bracket_tol, props/C14.py)
    from . import C14, events as EV
    R.under_contract(C14.check_bracket_tol(reg, src, PID))
    # ... and the samples that classify a located crossing stay distinct from the root at any magnitude of t (lemma over _probe_offset)
    R.under_contract(EV.check_probe_offset(reg, src, PID))
    # ... and the function the root finder is given for event k is event k on the dense solution (with its gradient when asked for)
    R.under_contract(EV.check_event_wrappers(reg, src, PID))
    for name in ("handle_events", "prepare_events", "OdeSystem.integrate", "DenseOutput.add_interpolant", "DenseOutput.remove_interpolant", "DenseOutput.__len__"):
        R.under_contract(src.func(IC.F, name))
    return EC.finish(R, reg, ["C08"], tier, "native event family (number of reported crossings = number of exact crossings; scales 1e-6..1e6, steep events, 1..6 events, both directions, dense on/off, crossings on step boundaries)")
