"""C17 -- interval lookup and Hermite interpolation primitives are exact.

Fully proved (level proof): bisection searches against the property's post-condition for every array
length / query, scalar-vector agreement as a lemma, Hermite end values / slopes, cubic exactness for all
cubics inside and outside the interval in either orientation, grad == derivative for all data.
"""
import copy
from fractions import Fraction
import z3

from pyvc import source, solver, mutate
from pyvc.executor import Executor, Contract, State, Ctx, Unsupported
from pyvc.values import SeqVal, to_bool
from contracts import utilities as CU
from . import common

CUBIC_GHOST = {"a": "Real", "b": "Real", "c": "Real", "d": "Real"}
P = "(a*{x}*{x}*{x} + b*{x}*{x} + c*{x} + d)"
DP = "(3*a*{x}*{x} + 2*b*{x} + c)"
CUBIC_DATA = ["self.t1 != self.t0",
              "self.p0 == " + P.format(x="self.t0"), "self.p1 == " + P.format(x="self.t1"),
              "self.m0 == " + DP.format(x="self.t0"), "self.m1 == " + DP.format(x="self.t1")]

# arbitrary data: the Hermite cubic in the shifted monomial basis, coefficients defined implicitly (no division)
HERM_GHOST = {"c2": "Real", "c3": "Real"}
HERM_DATA = ["self.t1 != self.t0",
             "c2*(self.t1-self.t0)*(self.t1-self.t0) == 3*(self.p1-self.p0) - (self.t1-self.t0)*(2*self.m0+self.m1)",
             "c3*(self.t1-self.t0)*(self.t1-self.t0)*(self.t1-self.t0) == (self.t1-self.t0)*(self.m0+self.m1) - 2*(self.p1-self.p0)"]
HQ = "(self.p0 + self.m0*(t_eval-self.t0) + c2*(t_eval-self.t0)*(t_eval-self.t0) + c3*(t_eval-self.t0)*(t_eval-self.t0)*(t_eval-self.t0))"
HDQ = "(self.m0 + 2*c2*(t_eval-self.t0) + 3*c3*(t_eval-self.t0)*(t_eval-self.t0))"


def derived(base, name, requires, ensures, ghost):
    c = copy.copy(base)
    c.requires = list(requires)
    c.ensures = list(ensures)
    c.ghost = dict(ghost)
    c.label = name
    return c


# canaries that must be refuted (description prefixes produced by pyvc.mutate on the real AST)
CANARIES = {
    "search_bisection": ["cmpflip@L264#0", "cmprev@L259#0", "const+1@L257#0"],
    "search_bisection_vec": ["cmpflip@L319#0", "cmprev@L314#0", "const+1@L311#0"],
    "CubicHermiteInterp.__call__": ["const+1@L56#0", "binswap@L58#0"],
    "CubicHermiteInterp.grad": ["const+1@L73#0", "binswap@L74#0"],
}


def new_executor(src, reg):
    ex = Executor(src, reg, prop="C17")
    ex.inline.add("__affine_transform")
    return ex


def model_inputs_bisection(ex_inputs, model):
    arr = ex_inputs["array"]
    n = model.eval(arr.length, model_completion=True).as_long()
    n = max(0, min(n, 64))
    vals = []
    for i in range(n):
        v = model.eval(z3.Select(arr.arr, i), model_completion=True)
        vals.append(common.z3_value_to_fraction(v))
    val = common.z3_value_to_fraction(model.eval(ex_inputs["val"], model_completion=True))
    return vals, val


def replay(run, ob, inputs):
    """Replay a refuted obligation natively; returns (replay_path, native_failed)."""
    fn = ob.func
    payload = dict(source=dict(function=fn))
    native = None
    try:
        if fn in ("search_bisection", "search_bisection_vec") and ob.z3model is not None:
            arr, val = model_inputs_bisection(inputs[fn], ob.z3model)
            req = dict(mode="replay", function=fn, array=[float(x).hex() for x in arr], val=float(val).hex())
            payload["inputs"] = req
            native = common.run_native("monitor/native_c17.py", req)
        elif fn.startswith("CubicHermiteInterp") and ob.z3model is not None:
            m = ob.z3model
            ins = inputs[fn]
            g = {}
            selfref = ins["self"]
            st = ob.state
            fields = st.obj(selfref).fields
            for k in ("t0", "t1", "p0", "p1", "m0", "m1"):
                g[k] = float(common.z3_value_to_fraction(m.eval(fields[k], model_completion=True))).hex()
            g["x"] = float(common.z3_value_to_fraction(m.eval(ins["t_eval"], model_completion=True))).hex()
            for k in ("a", "b", "c", "d"):
                if k in ins:
                    g[k] = float(common.z3_value_to_fraction(m.eval(ins[k], model_completion=True))).hex()
            if "a" in g:
                for k in ("p0", "p1", "m0", "m1"):
                    g.pop(k)
            req = dict(mode="replay", function=fn, inputs=g)
            payload["inputs"] = req
            if "a" in g or "c2" not in ins:
                native = common.run_native("monitor/native_c17.py", req)
    except Exception as e:          # replay failure is reported, not fatal
        payload["replay_error"] = repr(e)
    payload["native"] = native
    path = run.write_replay(ob, payload)
    failed = bool(native is not None and native.get("clause_value") is False)
    return path, failed


def check_hermite_init(reg, src, prop):
    """CubicHermiteInterp.__init__: the piece stores the six quantities it is given under the names __call__ and grad read them by --
    (t0, p0, m0) stay the data of the end t0 and (t1, p1, m1) those of the end t1, for either orientation of (t0, t1).  The contracts of
    __call__ / grad are stated over the fields; this is the link from the constructor's arguments to them (real __call__ / grad inlined)."""
    import z3
    from pyvc.executor import State, Ctx, Raised
    from pyvc.values import Ref
    fi = src.func("desolver/utilities/interpolation.py", "CubicHermiteInterp.__init__")
    ex = new_executor(src, reg)
    ex.prop = prop
    st = State()
    names = ("t0", "t1", "p0", "p1", "m0", "m1")
    vals = [z3.Real("arg_" + n) for n in names]
    ctx = Ctx(fi, None, fi.cls, tag="CubicHermiteInterp.__init__")
    paths = ex.instantiate("CubicHermiteInterp", vals, {}, st, ctx, None)
    pre = "%s/CubicHermiteInterp.__init__/" % prop
    ok_paths = [(s_, v) for s_, v in paths if not isinstance(v, Raised)]
    reg.ground(pre + "constructs", "post", "CubicHermiteInterp.__init__", len(ok_paths) == len(paths) >= 1, detail="%d paths, %d normal" % (len(paths), len(ok_paths)))
    from pyvc.values import BoundMethod
    ex.inline.update(["CubicHermiteInterp.__call__", "CubicHermiteInterp.grad", "CubicHermiteInterp.__affine_transform"])
    t0, t1, p0, p1, m0, m1 = vals
    for k, (s_, v) in enumerate(ok_paths):
        # stated through the piece's own evaluation (robust to how the fields are laid out): built from (t0, t1, p0, p1, m0, m1) it takes
        # the value p0 / p1 and the slope m0 / m1 at t0 / t1 -- the data of each end stay with that end, for either orientation
        s_.assume(t0 != t1)
        # ownership: a piece is built once and answers queries for the rest of the system's life, while its builder goes on to the next
        # step with the same buffers -- the piece holds its own copies, none of its fields is one of the caller's array objects
        shared = sorted(f for f, fv in s_.obj(v).fields.items() if any(fv is a for a in vals))
        reg.ground(pre + "piece-holds-private-copies-of-its-data#%d" % k, "frame", "CubicHermiteInterp.__init__", not shared,
                   detail="fields that are the caller's own array objects: %s" % (shared or "none"),
                   backend="executor-ownership", model=dict(shared_fields=shared, note="build a piece from ndarrays, then write into those arrays in place: the piece changes") if shared else None)
        for meth, at, want, what in (("__call__", t0, p0, "value-at-t0-is-p0"), ("__call__", t1, p1, "value-at-t1-is-p1"), ("grad", t0, m0, "slope-at-t0-is-m0"), ("grad", t1, m1, "slope-at-t1-is-m1")):
            for j, (s2, r) in enumerate(ex.call_method(BoundMethod(v, meth), [at], {}, s_.fork(), ctx, None)):
                ex.prove(s2, ctx, (r == want) if z3.is_expr(r) and not isinstance(r, Raised) else False, "post", "%s#%d.%d" % (what, k, j))
    return fi


def run(tier):
    R = common.Run("C17", "proof", tier)
    R.assume("A1", "A2", "A3", "A4")
    R.trust("z3 5.1.0 (linear integer/real arithmetic with arrays and quantifiers in the array-property fragment; NRA for the Hermite identities)",
            "pyvc executor encoding of Python (A2), cross-checked by canaries and the native enumeration",
            "element-wise lifting of search_bisection_vec (A4)")
    src = source.load_all()
    reg = solver.Registry(solver.THOROUGH_TIMEOUT_MS if tier == "thorough" else solver.QUICK_TIMEOUT_MS)
    R.add_registry(reg)
    ex = new_executor(src, reg)
    inputs = {}

    jobs = [
        ("search_bisection", CU.search_bisection),
        ("search_bisection_vec", CU.search_bisection_vec),
        ("CubicHermiteInterp.__call__", CU.hermite_call),
        ("CubicHermiteInterp.grad", CU.hermite_grad),
        # cubic exactness: data sampled from an arbitrary cubic => value and gradient are that cubic's
        ("CubicHermiteInterp.__call__", derived(CU.hermite_call, "cubic-exact", CUBIC_DATA,
                                                ["result == " + P.format(x="t_eval")], CUBIC_GHOST)),
        ("CubicHermiteInterp.grad", derived(CU.hermite_grad, "grad-cubic", CUBIC_DATA,
                                            ["result == " + DP.format(x="t_eval")], CUBIC_GHOST)),
        # arbitrary data: value is the Hermite cubic Q of the data, grad is Q'  => grad is the derivative of value
        ("CubicHermiteInterp.__call__", derived(CU.hermite_call, "hermite-cubic-of-data", HERM_DATA,
                                                ["result == " + HQ], HERM_GHOST)),
        ("CubicHermiteInterp.grad", derived(CU.hermite_grad, "grad-is-derivative", HERM_DATA,
                                            ["result == " + HDQ], HERM_GHOST)),
    ]
    try:
        R.under_contract(check_hermite_init(reg, src, "C17"))
        for fn, c in jobs:
            fi = src.func(c.file, c.func)
            R.under_contract(fi)
            label = getattr(c, "label", None)
            saved_prop = ex.prop
            if label:
                ex.prop = "C17/" + label
            ex.verify(c)
            ex.prop = saved_prop
            inputs.setdefault(fn, ex.last_inputs)
            if label:
                inputs[fn + ":" + label] = ex.last_inputs
        lemmas(ex, reg, R)
    except Unsupported as e:
        reg.undecided("C17/executor/unsupported", "unsupported", "executor", str(e))

    # ---- refuted obligations -> replay ---------------------------------------------------------
    for ob in list(reg.obligations):
        if ob.discharged or ob.result == "unknown":
            continue
        key = ob.func
        lab = ob.name.split("/")[1] if ob.name.count("/") >= 3 else None
        ins = dict(inputs)
        if lab and (ob.func + ":" + lab) in inputs:
            ins[ob.func] = inputs[ob.func + ":" + lab]
        path, failed = replay(R, ob, ins)
        R.violation(ob, path, failed)

    # ---- vacuity: canaries must be refuted ---------------------------------------------------------
    run_canaries(R, src, tier)

    # ---- bounded cross-check of executor vs CPython (never counted as proved) ----------------------
    try:
        L, G = (7, 9) if tier == "thorough" else (5, 8)
        res = common.run_native("monitor/native_c17.py", dict(mode="enum", max_len=L, grid=G))
        R.bounded.append(dict(name="native enumeration of both bisection searches against the specification",
                              bound="all strictly increasing arrays of length 1..%d over a %d-point grid, all queries on the half-step grid" % (L, G),
                              cases=res["cases"], arrays=res["arrays"], failures=res["failures"], label="bounded"))
        res2 = common.run_native("monitor/native_c17.py", dict(mode="hermite", n=200 if tier == "quick" else 2000, seed=R.seed))
        R.bounded.append(dict(name="native Hermite cubic exactness on random cubics (float64, scalar and array data)",
                              bound="%d random cubics x 5 evaluation points" % (200 if tier == "quick" else 2000),
                              cases=res2["cases"], failures=res2["failures"], label="bounded"))
        n_ok = sum(1 for o in reg.obligations if o.discharged)
        if (res["failures"] or res2["failures"]) and not R.violations:
            # E1 says proved, CPython disagrees: the engine (or assumption A1/A4) is wrong -> checker error, not a verdict
            print("CHECKER-ERROR property=C17 native enumeration disagrees with discharged proof: %r" % ((res["failures"] + res2["failures"])[:2],))
            R.write_evidence(list(R.all_obligations()), len(reg.obligations), n_ok)
            return 3
    except Exception as e:
        R.notes.append("bounded native cross-check could not run: %r" % (e,))
    R.samples.append(dict(contract="search_bisection", requires=CU.search_bisection.requires, ensures=CU.search_bisection.ensures,
                          loop_invariant=CU.search_bisection.loops[0]))
    return R.finish()


def lemmas(ex, reg, R):
    """post(r1) and post(r2) => r1 == r2: the bisection post-condition is functional, hence the scalar and the
    vector search (both proved against it) agree on every input."""
    st = State()
    arr = SeqVal(z3.Array("array", z3.IntSort(), z3.RealSort()), z3.Int("array_len"))
    val = z3.Real("val")
    r1, r2 = z3.Int("r1"), z3.Int("r2")
    st.env = dict(array=arr, val=val)
    ctx = Ctx(None, None, None, tag="lemma")
    ctx.entry = st              # the post-condition speaks of old(val): in the lemma the query is the same throughout
    st.assume(arr.length >= 1)
    for r in CU.search_bisection.requires:
        st.assume(to_bool(ex.eval_spec(r, st, ctx)))
    for res in (r1, r2):
        for e in CU.BISECTION_POST:
            st.assume(to_bool(ex.eval_spec(e, st, ctx, extra={"result": res})))
    ex.prove(st, ctx, r1 == r2, "lemma", "bisection-post-functional")
    # the specification index itself satisfies the post (non-vacuity of the post-condition)
    st2 = State()
    st2.env = dict(array=arr, val=val)
    st2.assume(arr.length >= 1)
    for r in CU.search_bisection.requires:
        st2.assume(to_bool(ex.eval_spec(r, st2, ctx)))
    reg.cover("C17/lemma/cover#post-satisfiable", "lemma",
              ex.global_axioms + st2.pc + [to_bool(ex.eval_spec(e, st2, ctx, extra={"result": r1})) for e in CU.BISECTION_POST])
    # existence of the Hermite cubic for arbitrary data: the shifted-basis coefficients used above exist whenever t1 != t0
    t0, t1, p0, p1, m0, m1 = z3.Reals("t0 t1 p0 p1 m0 m1")
    h = t1 - t0
    c2 = (3 * (p1 - p0) - h * (2 * m0 + m1)) / (h * h)
    c3 = (h * (m0 + m1) - 2 * (p1 - p0)) / (h * h * h)
    Q = lambda x: p0 + m0 * (x - t0) + c2 * (x - t0) * (x - t0) + c3 * (x - t0) * (x - t0) * (x - t0)
    dQ = lambda x: m0 + 2 * c2 * (x - t0) + 3 * c3 * (x - t0) * (x - t0)
    st3 = State()
    st3.assume(t1 != t0)
    ex.prove(st3, ctx, z3.And(Q(t0) == p0, dQ(t0) == m0), "lemma", "hermite-cubic-exists.left")
    ex.prove(st3, ctx, Q(t1) == p1, "lemma", "hermite-cubic-exists.right-value")
    ex.prove(st3, ctx, dQ(t1) == m1, "lemma", "hermite-cubic-exists.right-slope")


def run_canaries(R, src, tier):
    """Every listed canary (mechanical mutation of the real AST) must be refuted by the same contracts."""
    contracts = {"search_bisection": [CU.search_bisection], "search_bisection_vec": [CU.search_bisection_vec],
                 "CubicHermiteInterp.__call__": [CU.hermite_call, derived(CU.hermite_call, "cubic-exact", CUBIC_DATA, ["result == " + P.format(x="t_eval")], CUBIC_GHOST)],
                 "CubicHermiteInterp.grad": [CU.hermite_grad, derived(CU.hermite_grad, "grad-cubic", CUBIC_DATA, ["result == " + DP.format(x="t_eval")], CUBIC_GHOST)]}
    for fn, wanted in CANARIES.items():
        cs = contracts[fn]
        fi = src.func(cs[0].file, cs[0].func)
        muts = mutate.mutants(fi.node)
        for w in wanted:
            sel = [(d, n) for d, n in muts if d.startswith(w)]
            if not sel:
                R.canaries.append(dict(function=fn, canary=w, result="not-applicable (site no longer present in source)"))
                continue
            d, node = sel[0]
            creg = solver.Registry(5000)
            cex = new_executor(src, creg)
            killed = False
            try:
                with mutate.Mutated(fi, node):
                    for c in cs:
                        cex.verify(c)
                killed = any((not o.discharged) and o.kind != "cover" for o in creg.obligations)
            except Unsupported as e:
                killed = True
            R.canaries.append(dict(function=fn, canary=d, refuted=killed))
            if not killed:
                ob = R.registries[0].ground("C17/%s/canary-refuted:%s" % (fn, w), "canary", fn, False,
                                            backend="z3", detail="engine PROVED a weakened copy of the function: %s" % d)
                ob.result = "unknown"       # engine unsound -> nothing believed: undecided / checker error, never a violation
