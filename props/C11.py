"""C11 -- implicit methods are unconditionally stable on stiff decay.

E2: for each of the 16 implicit tables the stability function R = N/D is computed exactly (Faddeev-LeVerrier over
Fractions); obligations: (i) |R(iy)| <= 1 for every real y (Sturm root count of E(w) = |D(iy)|^2 - (1-2^-40)|N(iy)|^2
on w = y^2 > 0 plus E(0) > 0, z3 nlsat as second opinion on small degrees), (ii) all poles in the open right half-plane
(Routh-Hurwitz minors of D(-z), exact), (iii) deg N <= deg D.  The maximum principle (A8) then gives |R| <= 1 on the
whole closed left half-plane.  "The computed step agrees with R(z)" is a bounded native clause (A6).
"""
from fractions import Fraction
import multiprocessing
import z3

from pyvc import solver
from tabinv import stability as S
from . import common, e2common

PID = "C11"


def job(args):
    name, m = args
    ti, tf = e2common.tables(m)
    A = [r[1:] for r in ti]
    b = tf[0][1:]
    r = S.analyse(A, b)
    return dict(name=name, degN=r["degN"], degD=r["degD"], E=[str(c) for c in r["E"]], E0=str(r["E_at_0"]), roots=r["positive_roots_of_E"],
                minors=[str(x) for x in r["hurwitz_minors"]], N=[str(c) for c in r["N"]], D=[str(c) for c in r["D"]])


def z3_second_opinion(E, timeout_ms=5000):
    """exists w >= 0 with E(w) < 0 ?  (unsat expected)"""
    w = z3.Real("w")
    expr = z3.RealVal(0)
    for c in reversed(E):
        f = Fraction(c)
        expr = expr * w + z3.Q(f.numerator, f.denominator)
    res, backend, model, ms, _ = solver.check_sat([w >= 0, expr < 0], timeout_ms, want_model=True, try_fallbacks=False)
    return res, backend, ms


def run(tier):
    R = common.Run(PID, "proof", tier)
    R.assume("A1", "A6", "A8")
    R.assume("|R(iy)| <= 1 is proved as |D(iy)|^2 - (1 - 2^-40)|N(iy)|^2 >= 0: the factor absorbs the rounding of the float64 coefficients (for Gauss / Lobatto IIIA,B / midpoint / trapezoid |R(iy)| == 1 exactly)")
    R.assume("the map of one accepted step on y' = lambda*y is y1 = R(h*lambda)*y0: consequence of C02's step contract (stage system linear in this case) and of the nonlinear solve reaching its tolerance (A6); natively compared as a bounded clause")
    R.trust("exact Fraction arithmetic (Faddeev-LeVerrier, Sturm sequences, Routh-Hurwitz determinants) in tabinv/stability.py", "z3 nlsat as second opinion where it answers")
    reg = solver.Registry()
    R.add_registry(reg)
    d = e2common.load_tables(R)
    names = d["implicit"]
    reg.ground(PID + "/methods/all-implicit-covered", "lemma", "desolver.integrators", len(names) == 16, detail="%d implicit classes: %s" % (len(names), names))
    with multiprocessing.Pool(min(16, len(names))) as pool:
        results = pool.map(job, [(n, d["methods"][n]) for n in names])
    table = {}
    for r in results:
        n = r["name"]
        pre = "%s/%s/" % (PID, n)
        ok_e = r["roots"] == 0 and Fraction(r["E0"]) > 0 and Fraction(r["E"][-1]) > 0
        o1 = reg.ground(pre + "imaginary-axis-bounded", "class-invariant", n, ok_e, backend="exact-sturm",
                        detail="E(w) = |D(iy)|^2 - (1-2^-40)|N(iy)|^2, degree %d in w=y^2: %d roots in w>0, E(0)=%.3g, leading coefficient %.3g" % (
                            len(r["E"]) - 1, r["roots"], float(Fraction(r["E0"])), float(Fraction(r["E"][-1]))),
                        model=dict(E=r["E"]) if not ok_e else None)
        if len(r["E"]) - 1 <= (6 if tier == "quick" else 10):
            res, backend, ms = z3_second_opinion(r["E"])
            if res == "sat" and ok_e or res == "unsat" and not ok_e:
                o = reg.ground(pre + "sturm-vs-z3-agree", "lemma", n, False, backend=backend, detail="Sturm says %s, z3 says %s" % (ok_e, res))
                o.result = "unknown"          # engines disagree: nothing believed
            elif res in ("sat", "unsat"):
                reg.ground(pre + "imaginary-axis-bounded.z3", "class-invariant", n, res == "unsat", backend=backend, ms=ms,
                           detail="exists w>=0. E(w)<0 is %s" % res)
        minors = [Fraction(x) for x in r["minors"]]
        reg.ground(pre + "poles-in-right-half-plane", "class-invariant", n, all(x > 0 for x in minors), backend="exact-routh-hurwitz",
                   detail="Hurwitz minors of D(-z) (degree %d): min %.3g" % (r["degD"], float(min(minors)) if minors else 1.0),
                   model=dict(D=r["D"]) if not all(x > 0 for x in minors) else None)
        reg.ground(pre + "bounded-at-infinity", "class-invariant", n, r["degN"] <= r["degD"], backend="exact-rational",
                   detail="deg N = %d <= deg D = %d" % (r["degN"], r["degD"]))
        table[n] = dict(degN=r["degN"], degD=r["degD"], L_stable=r["degN"] < r["degD"])
    R.extra_cov["stability_functions"] = table
    # ---- E1 link between the tables and the code that runs: the stage system handed to the nonlinear solver is the defining
    #      one for every implicit class, the increment is h*sum b_i K_i, and an unconverged solve is never returned (as C02)
    try:
        from pyvc import source
        from pyvc.executor import Executor, Unsupported
        from . import C02
        src = source.load_all()
        for q in ("RungeKuttaIntegrator.algebraic_system", "RungeKuttaIntegrator.step", "RungeKuttaIntegrator.__call__"):
            R.under_contract(src.func(C02.FT, q))
        def part(label, fn):
            # each function of each method decided on its own (an undecided one is named and does not hide the others)
            try:
                return fn()
            except Unsupported as e:
                reg.undecided("%s/%s/executor-unsupported" % (PID, label), "unsupported", "executor", str(e))
        from . import intcall
        for n in names:
            part("algebraic_system[%s]" % n, lambda: C02.check_algebraic_system(C02.make_executor(src, reg), reg, src, n, d["methods"][n]))
            part("step[%s]" % n, lambda: C02.check_rk_step(C02.make_executor(src, reg), reg, src, n, d["methods"][n]))
        part("__call__[implicit]/unrolled", lambda: C02.check_call_skeleton(C02.make_executor(src, reg), reg, src, True, False))
        part("__call__[implicit,adaptive]/unrolled", lambda: C02.check_call_skeleton(C02.make_executor(src, reg), reg, src, True, True))
        for adaptive in (False, True):
            part("__call__[implicit%s]/cut-loop" % (",adaptive" if adaptive else ""), lambda: intcall.check_rk_call_unbounded(reg, src, PID, True, adaptive))          # every retry budget
        for o in reg.obligations:
            if o.name.startswith("C02/"):
                o.name = o.name.replace("C02/", PID + "/", 1)
    except Unsupported as e:
        reg.undecided(PID + "/e1-link", "unsupported", "executor", str(e))
    # ---- bounded native clause: the computed step agrees with R(z)
    try:
        nat = common.run_native("monitor/native_c11.py", dict(tier=tier, seed=R.seed, methods={r["name"]: dict(N=r["N"], D=r["D"]) for r in results}), timeout=900)
        R.bounded.append(dict(name="native: one accepted step on y'=lambda*y (real and damped-oscillatory 2x2 blocks) equals R(h*lambda)*y0 and does not grow",
                              bound=nat["bound"], cases=nat["cases"], failures=nat["failures"][:5], rejected=nat.get("rejected", 0), label="bounded"))
        if nat["failures"]:
            ob = reg.ground(PID + "/native/step-agrees-with-R", "bounded", "RungeKuttaIntegrator.step", False, backend="native-family",
                            detail="%d native disagreements" % len(nat["failures"]))
            path = R.write_replay(ob, dict(native=dict(failures=nat["failures"][:5])))
            R.violation(ob, path, True, "bounded-native")
    except Exception as e:
        R.notes.append("native stability clause could not run: %r" % (e,))
    for ob in [o for o in reg.obligations if not o.discharged and o.result != "unknown" and o.kind != "bounded"]:
        path = R.write_replay(ob, dict(identity=ob.detail, polynomials=ob.model))
        R.violation(ob, path, False)
    R.samples.append(dict(obligation="C11/<class>/imaginary-axis-bounded", meaning="forall real y: |N(iy)|^2 (1-2^-40) <= |D(iy)|^2, decided by an exact Sturm sequence"))
    return R.finish()
