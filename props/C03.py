"""C03 -- integration covers exactly the requested time span, in order.

E1: the real OdeSystem.integrate is verified against its contract for an arbitrary pre-state satisfying the representation
invariant (so any sequence of calls composes): prefix frame, strict monotonicity toward the target, no overshoot, ends within
tol_epsilon of the target, buffers never indexed out of range (growth logic), buffers trimmed to counter + 1, on normal and on
exceptional exit; with zero and with two arbitrary callbacks (which may assign dt or raise); target given or taken from tf.
The integrators' __call__ contracts used at the call site (step sign/size) are proved in props/intcall.py from the real classes.
"""
from pyvc import source, solver
from pyvc.executor import Unsupported
from . import common, integrate_core as IC, intcall

PID = "C03"


def triage(R, reg, nat, known_native_prefixes=()):
    """Refuted obligations -> VIOLATION with a native witness from the bounded family if one exists."""
    unexpected = {}
    if nat:
        known_native = {cl: e for e in R.kf.for_property(R.pid) for cl in e.get("native_clauses", [])}
        unexpected = {k: v for k, v in nat["failures"].items() if k not in known_native}
    for ob in [o for o in reg.obligations if not o.discharged and o.result != "unknown" and o.kind != "bounded"]:
        w = None
        for cl, cs in unexpected.items():
            w = dict(clause=cl, case=cs[0])
            break
        R.violation(ob, R.write_replay(ob, dict(identity=ob.detail, native=dict(witness=w))), w is not None)
    if unexpected and not R.violations:
        ob = reg.ground(R.pid + "/native/unexpected-failure", "bounded", "OdeSystem.integrate", False, backend="native-family", detail=str(sorted(unexpected)))
        R.violation(ob, R.write_replay(ob, dict(native=dict(failures={k: v[:3] for k, v in unexpected.items()}))), True, "bounded-native")
    return unexpected


def constructor_keep_keys(R, reg, src, prop):
    """solver_dict_keep_keys as the real RungeKuttaIntegrator.__init__ builds it, for every shipped Runge-Kutta class (explicit and
    implicit classes keep different sets); the constructor obligations of props/ctor.py are generated on the way."""
    from . import ctor, e2common
    d = e2common.load_tables(R)
    keep = {}
    for name in d["explicit"] + d["implicit"]:
        m = d["methods"][name]
        if m["kind"] != "rk":
            continue
        r = ctor.check_rk_init(reg, src, prop, name, m)
        if r["keep_keys"] is not None and r["flags"] is not None:
            keep.setdefault(not r["flags"]["explicit"], set()).add(r["keep_keys"])
    R.under_contract(src.func(ctor.FT, "RungeKuttaIntegrator.__init__"))
    R.under_contract(src.func(ctor.FT, "TableauIntegrator.__init__"))
    return keep


def integrator_contracts(R, reg, src, prop):
    R.under_contract(intcall.check_update_timestep(reg, src, prop))
    R.under_contract(intcall.check_implicit_aware(reg, src, prop))
    keep = constructor_keep_keys(R, reg, src, prop)
    for implicit, adaptive in ((False, False), (False, True), (True, False), (True, True)):
        for kk in sorted(keep.get(implicit, {None}), key=lambda x: sorted(x) if x else []):
            R.under_contract(intcall.check_rk_call(reg, src, prop, implicit, adaptive, keep=kk))
            # the same clauses for every retry budget: the retry loop cut by an invariant instead of unrolled
            R.under_contract(intcall.check_rk_call_unbounded(reg, src, prop, implicit, adaptive, keep=kk))
    R.under_contract(intcall.check_symplectic_call(reg, src, prop))
    R.under_contract(intcall.check_richardson_call(reg, src, prop))


def run(tier):
    R = common.Run(PID, "proof", tier)
    R.assume("A1", "A2", "A3", "A7")
    R.assume(intcall.AXIOM_TEXT)
    R.assume("states are one real per recorded step (element-wise view); 'finite and of the initial state's precision' is a floating-point/dtype statement: bounded native clause only")
    R.assume("Richardson-extrapolated wrappers: their __call__ satisfies the same I1/I2 contract (proved in C05's run: props/intcall.check_richardson_call, fixed-step basis)")
    R.assume("termination of the loop is not proved (A7); an infinite target (tf = inf) is outside this contract")
    R.trust("z3 (arrays, quantifiers, lambda arrays, linear real arithmetic)", "pyvc executor", "contracts substituted for callees are proved in this same run (helpers, integrator __call__) or are user callables (callbacks: arbitrary)")
    src = source.load_all()
    reg = solver.Registry(solver.THOROUGH_TIMEOUT_MS if tier == "thorough" else 20000)
    R.add_registry(reg)
    try:
        for fi in IC.verify_helpers(src, reg, PID):
            R.under_contract(fi)
        R.under_contract(src.func(IC.F, "OdeSystem.integrate"))
        variants = [dict(callbacks=0), dict(callbacks=2), dict(callbacks=0, t_given=False), dict(callbacks=0, status0=1)]
        for v in variants:
            label = ",".join("%s=%s" % kv for kv in sorted(v.items()))
            IC.verify_integrate(src, reg, "%s/%s" % (PID, label), **v)
        integrator_contracts(R, reg, src, PID)
    except Unsupported as e:
        reg.undecided(PID + "/executor/unsupported", "unsupported", "executor", str(e))
    nat = None
    try:
        nat = common.run_native("monitor/native_c03.py", dict(tier=tier), timeout=1500)
        R.bounded.append(dict(name="native time-grid family (start, monotone, ends at target, no overshoot, paired/finite/dtype, histories, buffer growth)",
                              bound=nat["bound"], cases=nat["cases"], failing_clauses={k: len(v) for k, v in nat["failures"].items()}, label="bounded"))
        nat["failures"] = {k: v for k, v in nat["failures"].items() if not k.startswith("implicit-fixed") and not k.startswith("fixed-step")}   # C04's clauses
    except Exception as e:
        R.notes.append("native family could not run: %r" % (e,))
    triage(R, reg, nat)
    R.samples.append(dict(contract="OdeSystem.integrate", requires=IC.REP, loop_invariant=IC.LOOP_INV, ensures=IC.POST_COMMON))
    return R.finish()
