"""C01 -- every integrator attains its declared order of accuracy.

E2 (exact rational arithmetic on the tables dumped from the imported classes): all rooted-tree order conditions up
to the declared order for the Runge-Kutta classes (simplifying assumptions B/C/D + Butcher's theorem for
RadauIIA19), row sums, estimator consistency (weights probed from the real get_error_estimate), P-series
conditions for the splitting classes.  E1 (pyvc, LinComb domain): the weights the real `adaptive_richardson`
returns for 2..5 levels and the Aitken-Neville moment conditions for every shipped base order; `subdiv_step`
against the composition contract substituted for it.
"""
from fractions import Fraction
import multiprocessing
import time

from pyvc import source, solver
from pyvc.executor import Unsupported
from tabinv import order as O, trees as T, pseries as PS
from . import common, e2common, richardson_extract as RE

PID = "C01"


def rk_job(args):
    name, m, tier = args
    ti, tf = e2common.tables(m)
    p = int(m["order"])
    t0 = time.time()
    rk = O.RK.from_tables(ti, tf[0])
    out = dict(name=name, p=p, stages=rk.s, obligations=[])
    ob = out["obligations"]
    # ---- order conditions
    if name == "RadauIIA19":
        # 7.4e6 trees of order <= 19 are not enumerable: simplifying assumptions + Butcher's theorem (A8)
        s = rk.s
        eta, zeta = s, s - 1
        res = rk.simplifying(p, eta, zeta)
        for kind, rows in res.items():
            bad = [r for r in rows if abs(r[-2]) > r[-1]]
            worst = max((abs(r[-2]) / r[-1] if r[-1] else 0) for r in rows)
            ob.append(dict(name="simplifying-%s(%d)" % (kind, dict(B=p, C=eta, D=zeta)[kind]), ok=not bad, conditions=len(rows),
                           detail="worst residual/slack %.3g%s" % (float(worst), "; first failing %r" % (tuple(map(e2common.fl, bad[0])),) if bad else "")))
        thm = min(p, 2 * eta + 2, eta + zeta + 1)
        ob.append(dict(name="butcher-theorem-order>=declared", ok=thm >= p, conditions=1,
                       detail="B(%d), C(%d), D(%d) => order >= min(p, 2eta+2, eta+zeta+1) = %d (A8)" % (p, eta, zeta, thm)))
        pmax_trees = 9 if tier == "quick" else 11
    else:
        pmax_trees = p
    rep = rk.order_report(min(p, pmax_trees))
    for r in rep:
        ob.append(dict(name="order-conditions#%d" % r["order"], ok=r["failing"] == 0, conditions=r["conditions"],
                       detail="%d trees, %d failing, worst residual/slack %.3g (residual %.3g, tree %s)" % (
                           r["conditions"], r["failing"], r["worst_ratio"], r["worst_residual"], r["worst_tree"] if r["failing"] else "-"),
                       model=dict(tree=r["worst_tree"], residual=r["worst_residual"], slack=r["slack_at_worst"]) if r["failing"] else None))
    # ---- c_i = sum_j a_ij (non-autonomous right-hand sides)
    rs = rk.row_sums()
    bad = [(i, float(r)) for i, r, sl in rs if abs(r) > sl]
    ob.append(dict(name="row-sums", ok=not bad, conditions=len(rs), detail="rows with c_i != sum_j a_ij: %r" % (bad,)))
    # ---- error estimator: the weights the code uses form the difference of two consistent weightings
    if m["derived"]["adaptive"]:
        d = [Fraction(float.fromhex(x)) for x in m["estimator_weights"]]
        sd = sum(d)
        sl = rk.s * O.ULP_SLACK * (sum(abs(x) for x in d) + 1)
        ob.append(dict(name="estimator-linear-in-stages", ok=bool(m["estimator_linear"]), conditions=1, detail="get_error_estimate probed with unit stage vectors"))
        ob.append(dict(name="estimator-consistent", ok=abs(sd) <= sl and any(x != 0 for x in d), conditions=1,
                       detail="sum of estimator weights %.3g (slack %.3g): b_hat = b - d sums to one, i.e. the embedded weighting has order >= 1" % (float(sd), float(sl))))
        bhat = [bb - dd for bb, dd in zip(rk.b, d)]
        sc = 1 << rk.S
        if all((x * sc).denominator == 1 for x in bhat):
            q = rk.attained_order(min(p + 1, 9), b=[int(x * sc) for x in bhat])
            ob.append(dict(name="estimator-embedded-order>=1", ok=q >= 1, conditions=1, detail="embedded weighting b - d attains order %d" % q))
    out["seconds"] = time.time() - t0
    return out


def splitting_job(args):
    name, m, tier = args
    ti, _ = e2common.tables(m)
    p = int(m["order"])
    prk = PS.from_splitting_table(ti)
    rep = prk.report(p)
    out = dict(name=name, p=p, stages=len(ti), obligations=[])
    for r in rep:
        out["obligations"].append(dict(name="pseries-conditions#%d" % r["order"], ok=r["failing"] == 0, conditions=r["conditions"],
                                       detail="%d bicoloured trees, %d failing, worst residual/slack %.3g (residual %.3g, tree %s)" % (
                                           r["conditions"], r["failing"], r["worst_ratio"], r["worst_residual"], r["worst_tree"] if r["failing"] else "-"),
                                       model=dict(tree=r["worst_tree"], residual=r["worst_residual"]) if r["failing"] else None))
    out["attained"] = prk.attained_order(max(p, 4) + 1)
    return out


def richardson_obligations(R, reg, src, orders):
    """Aitken-Neville: base results T_m = Y + sum_{j>=p} e_j 2^(-m j) (A8).  The returned combination sum_m w_m T_m has
    order >= p iff sum w = 1 and gains one order per eliminated moment sum_m w_m 2^(-m j) = 0, j = p, p+1, ..."""
    fi = src.func(RE.FILE, RE.CLS + ".adaptive_richardson")
    R.under_contract(fi)
    R.under_contract(src.func(RE.FILE, RE.CLS + ".subdiv_step"))
    for n in (1, 2, 4, 8, 16):
        RE.verify_subdiv_step(src, reg, n, prop=PID)
    # the expansion T_m = Y + sum e_j 2^(-m j) presupposes that all passes integrate over one and the same interval: also when an adaptive
    # base method shortened the first pass, in either time direction
    for it in (2, 3, 4, 5):
        RE.verify_common_interval(src, reg, it, prop=PID)
    # the weights below are extracted with the closure variable richardson_iter bound to the number of levels: the factory hands out, for
    # k requested levels, the class it defined in that call, closed over k and the given basis (not one left by an earlier call)
    R.under_contract(RE.check_factory(src, reg, PID))
    for p in orders:
        for it in (2, 3, 4, 5):
            try:
                paths = RE.extract_weights(src, reg, it, p, prop=PID)
            except (Unsupported, AssertionError) as e:
                reg.undecided("%s/adaptive_richardson[p=%d,levels=%d]/extract" % (PID, p, it), "unsupported", "adaptive_richardson", str(e))
                continue
            for k, pth in enumerate(paths):
                w = pth["weights"]
                tag = "%s/adaptive_richardson[p=%d,levels=%d]#path%d" % (PID, p, it, k)
                lv = sorted(w)
                reg.ground(tag + "/substeps-are-halvings", "lemma", "adaptive_richardson",
                           all(n == (1 << m) for m, n in pth["substep_counts"]), backend="exact-rational", detail="levels %r" % (pth["substep_counts"],))
                reg.ground(tag + "/weights-sum-1", "post", "adaptive_richardson", sum(w.values()) == 1 and len(w) >= 1 and pth["returned_dt_is_h"],
                           backend="exact-rational", detail="weights %s => order never below the base order %d" % ({m: str(v) for m, v in w.items()}, p))
                gained = 0
                for j in range(p, p + 8):
                    if sum(v * Fraction(1, 2 ** (m * j)) for m, v in w.items()) == 0:
                        gained += 1
                    else:
                        break
                if it >= 3:
                    e = R.kf.match(PID, tag + "/moment-p-eliminated")
                    ok = gained >= 1
                    ob = reg.ground(tag + "/moment-p-eliminated", "post", "adaptive_richardson", ok, backend="exact-rational",
                                    detail="sum_m w_m 2^(-m*%d) = %s; orders gained over the base method: %d" % (
                                        p, sum(v * Fraction(1, 2 ** (m * p)) for m, v in w.items()), gained),
                                    model=dict(base_order=p, levels=it, weights={m: str(v) for m, v in w.items()}) if not ok else None)


def run(tier):
    R = common.Run(PID, "proof", tier)
    R.assume("A1", "A8")
    R.assume("order conditions are accepted within a derived rounding slack ord(t)*2^-50*(Phi(|A|,|b|)(t)+1/gamma(t)); the largest residual/slack ratio per class is reported")
    R.assume("the propagating weights are tableau_final[0,1:] and the splitting step is the partitioned RK method read off the table: both are obligations of C02 (step == defining formula), not of this check")
    R.trust("exact integer/Fraction arithmetic of CPython", "rooted-tree enumeration tabinv/trees.py (counts cross-checked against A000081 on every run)")
    reg = solver.Registry()
    R.add_registry(reg)
    d = e2common.load_tables(R)
    # tree enumerator self-check
    counts = [len(T.trees_of_order(n)) for n in range(1, 11)]
    reg.ground(PID + "/trees/A000081", "lemma", "tabinv.trees", counts == T.COUNTS[:10], detail="counts %r" % (counts,))
    rk_names = [n for n in d["explicit"] + d["implicit"] if d["methods"][n]["kind"] == "rk"]
    sp_names = [n for n in d["explicit"] if d["methods"][n]["kind"] == "splitting"]
    reg.ground(PID + "/methods/all-shipped-covered", "cover", "desolver.integrators", len(rk_names) == 29 and len(sp_names) == 3,
               detail="%d Runge-Kutta + %d splitting classes dumped" % (len(rk_names), len(sp_names)))
    reg.obligations[-1].expect = "unsat"
    if tier == "quick":
        # RK1412: orders 1..11 exactly in the quick tier (3 048 trees), all 14 orders (53 272 trees) in the thorough tier
        pass
    jobs = []
    for n in rk_names:
        m = dict(d["methods"][n])
        if n == "RK1412Solver" and tier == "quick":
            m = dict(m)
            m["_quick_cap"] = 12
        jobs.append((n, m, tier))
    with multiprocessing.Pool(min(16, len(jobs))) as pool:
        rk_res = pool.map(rk_job_capped, jobs)
        sp_res = pool.map(splitting_job, [(n, d["methods"][n], tier) for n in sp_names])
    total_conditions = 0
    margins = {}
    known_refuted = []
    for res in rk_res + sp_res:
        for ob in res["obligations"]:
            name = "%s/%s/%s" % (PID, res["name"], ob["name"])
            total_conditions += ob.get("conditions", 1)
            o = reg.ground(name, "class-invariant", res["name"], ob["ok"], detail=ob.get("detail"), model=ob.get("model"), ms=0.0)
            e = R.kf.match(PID, name)
            if e and not ob["ok"]:
                # recorded finding: this exact class/order obligation is known to be refuted; it is taken out of the
                # discharged count and reported separately -- any other refuted obligation is a new violation
                reg.obligations.remove(o)
                o.kf = e
                known_refuted.append(o)
        margins[res["name"]] = dict(declared=res["p"], stages=res["stages"], attained=res.get("attained"))
    R.extra_cov["conditions_checked"] = total_conditions
    R.extra_cov["classes"] = margins
    # ---- error estimators (E1): the real get_error_estimate (incl. the RadauIIA19 override) executed on symbolic stage values; the weights
    #      it applies must be those the imported object shows when probed natively, and they must be a difference of consistent weightings
    try:
        estimator_obligations(R, reg, d)
    except Unsupported as e:
        reg.undecided(PID + "/get_error_estimate/unsupported", "unsupported", "executor", str(e))
    # ---- Richardson wrappers (E1)
    try:
        src = source.load_all()
        orders = sorted({int(d["methods"][n]["order"]) for n in d["methods"]})
        richardson_obligations(R, reg, src, orders)
    except Unsupported as e:
        reg.undecided(PID + "/richardson/unsupported", "unsupported", "executor", str(e))

    # ---- refuted obligations -> replay (native one-step order measurement)
    refuted = [o for o in reg.obligations if not o.discharged and o.result != "unknown"]
    cases = []
    for o in refuted:
        cls = o.func
        if cls in d["methods"]:
            cases.append(dict(method=cls))
        elif "adaptive_richardson" in o.name and o.model:
            base = {4: "RK4Solver", 5: "RK45CKSolver", 2: "MidpointSolver", 1: "EulerSolver", 3: "RadauIA3", 8: "RK8713MSolver"}.get(o.model["base_order"])
            if base:
                cases.append(dict(method=base, richardson=o.model["levels"]))
    native = {}
    if cases:
        uniq = []
        for c in cases:
            if c not in uniq:
                uniq.append(c)
        try:
            res = common.run_native("monitor/native_order.py", dict(cases=uniq[:6], h=0.2), timeout=900)
            for r in res["results"]:
                native[(r["method"], r.get("richardson", 0))] = r
        except Exception as e:
            R.notes.append("native order measurement failed: %r" % (e,))
    for o in refuted:
        key = None
        if o.func in d["methods"]:
            key = (o.func, 0)
        elif o.model and "levels" in o.model:
            base = {4: "RK4Solver", 5: "RK45CKSolver", 2: "MidpointSolver", 1: "EulerSolver", 3: "RadauIA3", 8: "RK8713MSolver"}.get(o.model["base_order"])
            key = (base, o.model["levels"])
        nat = native.get(key)
        failed = False
        if nat and "observed_order" in nat:
            want = nat["declared_order"] + (1 if key[1] >= 3 else 0)
            failed = nat["observed_order"] < want - 0.5
        path = R.write_replay(o, dict(identity=o.detail, native=nat,
                                      note="native: local error of one step at h and h/2 in longdouble against an RK14(12)x256 reference; observed order = slope - 1"))
        R.violation(o, path, failed)
    # ---- known findings still present?
    for e in R.kf.for_property(PID):
        hit = [o for o in known_refuted if getattr(o, "kf", None) is e]
        R.known(e, bool(hit), "; ".join(o.name for o in hit[:4]))
    R.extra_cov["known_finding_obligations"] = [o.to_json() for o in known_refuted]
    R.samples.append(dict(obligation="C01/<class>/order-conditions#k", meaning="for every rooted tree t with k vertices: |sum_i b_i Phi_i(t) - 1/gamma(t)| <= k*2^-50*(Phi(|A|,|b|)(t) + 1/gamma(t)), exact rational arithmetic"))
    return R.finish()


def estimator_obligations(R, reg, d):
    from pyvc.executor import Executor, State, Ctx, Raised
    from pyvc.values import LinComb, TabVal
    from . import ctor
    FT = "desolver/integrators/integrator_types.py"
    FI = "desolver/integrators/implicit_integration_schemes.py"
    for name in d["explicit"] + d["implicit"]:
        m = d["methods"][name]
        if m["kind"] != "rk" or not m["derived"]["adaptive"]:
            continue
        src = source.load_all()
        override = "get_error_estimate" in (m.get("overrides") or [])
        if override:
            src.load(FI)                      # the class that overrides the estimator is read from its real source (tables stay data)
        Tf = TabVal(O.frac_table(m["tableau_final"]))
        T = TabVal(O.frac_table(m["tableau_intermediate"]))
        ctor._install_class(src, name, "RungeKuttaIntegrator", dict(tableau_intermediate=T, tableau_final=Tf))
        fi = src.find_method(name, "get_error_estimate")
        R.under_contract(fi)
        n = len(T.rows)
        ex = Executor(src, reg, prop=PID)
        st = State()
        stages = st.new_obj("stages", "stages", items=[LinComb.sym("k%d" % i) for i in range(n)])
        selfobj = st.new_obj(name, fields=dict(tableau_final=Tf, tableau_intermediate=T, stage_values=stages, _adaptive=True, _adaptivity_enabled=False, dState=LinComb.sym("dState")))
        ctx = Ctx(fi, None, fi.cls, tag="%s.get_error_estimate" % name)
        paths = ex.call_function(fi, [selfobj], {}, st, ctx)
        pre = "%s/%s/" % (PID, name)
        if len(paths) != 1 or isinstance(paths[0][1], Raised) or not isinstance(paths[0][1], LinComb):
            reg.undecided(pre + "estimator[E1]/single-linear-result", "unsupported", fi.qualname, "paths=%d result=%r" % (len(paths), paths[0][1] if paths else None))
            continue
        res = paths[0][1]
        coef = {a.key[1]: c for a, c in res.terms.items() if a.key[0] == "sym"}
        linear = len(coef) == len(res.terms) and all(c.is_const() for c in coef.values()) and set(coef) <= {"k%d" % i for i in range(n)}
        w = [Fraction(coef["k%d" % i].const_value()) if ("k%d" % i) in coef else Fraction(0) for i in range(n)] if linear else None
        reg.ground(pre + "estimator[E1]/linear-in-the-stages-of-this-step", "post", fi.qualname, linear, backend="lincomb-exact",
                   detail="get_error_estimate() == sum_i d_i k_i over the current stage values only (%s)" % ("override in " + FI if override else "RungeKuttaIntegrator"))
        if not linear:
            continue
        probed = [Fraction(float.fromhex(x)) for x in m["estimator_weights"]]
        sl = [4 * O.ULP_SLACK * (abs(a) + abs(b) + abs(Fraction(Tf.rows[0][1 + i])) + abs(Fraction(Tf.rows[1][1 + i]))) for i, (a, b) in enumerate(zip(w, probed))]
        bad = [(i, float(a - b)) for i, (a, b) in enumerate(zip(w, probed)) if abs(a - b) > sl[i]]
        reg.ground(pre + "estimator[E1]/weights-agree-with-the-imported-object", "lemma", fi.qualname, len(w) == len(probed) and not bad, backend="symbolic-exec-vs-cpython",
                   detail="weights extracted from the source text vs weights probed on the object CPython built (rounding slack): differing %r" % (bad[:3],))
        sd = sum(w)
        slack = n * O.ULP_SLACK * (sum(abs(x) for x in w) + 1)
        reg.ground(pre + "estimator[E1]/difference-of-consistent-weightings", "class-invariant", fi.qualname, abs(sd) <= slack and any(x != 0 for x in w), backend="exact-rational",
                   detail="sum_i d_i = %.3g (slack %.3g), not all zero: the estimate vanishes on constant slopes and does measure something" % (float(sd), float(slack)))


def rk_job_capped(args):
    name, m, tier = args
    cap = m.get("_quick_cap")
    if cap:
        m = dict(m)
        full = int(m["order"])
        res = rk_job_with_cap(name, m, tier, cap)
        res["obligations"].append(dict(name="order-conditions#%d..%d-deferred-to-thorough" % (cap + 1, full), ok=True, conditions=0,
                                       detail="quick tier checks orders 1..%d exactly; the thorough tier checks all %d orders (53 272 trees)" % (cap, full)))
        return res
    return rk_job(args)


def rk_job_with_cap(name, m, tier, cap):
    ti, tf = e2common.tables(m)
    rk = O.RK.from_tables(ti, tf[0])
    p = int(m["order"])
    out = dict(name=name, p=p, stages=rk.s, obligations=[])
    for r in rk.order_report(cap):
        out["obligations"].append(dict(name="order-conditions#%d" % r["order"], ok=r["failing"] == 0, conditions=r["conditions"],
                                       detail="%d trees, %d failing, worst residual/slack %.3g" % (r["conditions"], r["failing"], r["worst_ratio"]),
                                       model=dict(tree=r["worst_tree"], residual=r["worst_residual"]) if r["failing"] else None))
    rs = rk.row_sums()
    bad = [(i, float(r)) for i, r, sl in rs if abs(r) > sl]
    out["obligations"].append(dict(name="row-sums", ok=not bad, conditions=len(rs), detail="rows with c_i != sum_j a_ij: %r" % (bad,)))
    return out
