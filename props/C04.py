"""C04 -- fixed-step methods take the requested step wherever the time axis sits.

E1: (a) integrate() with a fixed-step integrator contract (dTime == new_dt == timestep, proved for the explicit RK and the splitting
classes in props/intcall.py) and no callback: every recorded step of the call but possibly the last has magnitude exactly H, none is
longer, where H is the requested |dt| (halved span if |dt| exceeds the span) -- for every (t0, tf) of any sign and direction;
(b) implicit fixed-step classes: recorded as known finding F8 (the step controller is applied to them and grows the step);
(c) shift / reflection: one Runge-Kutta step is invariant under t -> t + s for autonomous right-hand sides and under time reflection
(step of -f with -h equals step of f with h); one iteration of integrate()'s loop is shift-invariant (relational proof: the loop
reads the time axis only through tf - t).
"""
import ast
import z3

from pyvc import source, solver
from pyvc.executor import Executor, State, Ctx, Raised, Unsupported
from pyvc.values import LinComb, Poly, UFunc, fresh_name, to_bool, to_real, SeqVal
from . import common, integrate_core as IC, intcall, e2common, C02, C03

PID = "C04"

T0 = "old(self.__t)[old(self.counter)]"
H = "ite(abs(old(self.__dt)) > abs(tf_ - " + T0 + "), abs(tf_ - " + T0 + ") / 2, abs(old(self.__dt)))"
FIXED_INV = [
    "abs(self.__dt) == " + H,
    "forall(lambda i: implies(old(self.counter) < i and i < self.counter, abs(self.__t[i] - self.__t[i - 1]) == " + H + "))",
    "implies(self.counter > old(self.counter), abs(self.__t[self.counter] - self.__t[self.counter - 1]) <= " + H +
    " and (abs(self.__t[self.counter] - self.__t[self.counter - 1]) == " + H + " or self.__t[self.counter] == tf_))",
]
FIXED_POST = [
    "implies(abs(tf_ - " + T0 + ") >= eps, forall(lambda i: implies(old(self.counter) < i and i < self.counter, abs(self.__t[i] - self.__t[i - 1]) == " + H + ")))",
    "implies(abs(tf_ - " + T0 + ") >= eps and self.counter > old(self.counter), abs(self.__t[self.counter] - self.__t[self.counter - 1]) <= " + H + ")",
]


def shift_reflection_of_one_step(reg, src, d):
    """(i) shift and (ii) reflection of RungeKuttaIntegrator.step / ExplicitSymplecticIntegrator.step in the LinComb domain."""
    for name in d["explicit"]:
        m = d["methods"][name]
        if m["kind"] != "rk":
            continue
        T, Tf = C02.tab(m["tableau_intermediate"]), C02.tab(m["tableau_final"])
        fi = src.func(C02.FT, "RungeKuttaIntegrator.step")
        results = {}
        for label, tval, hval, sign in (("base", Poly.sym("t"), Poly.sym("h"), 1), ("shifted", Poly.sym("t") + Poly.sym("s"), Poly.sym("h"), 1),
                                        ("reflected", -Poly.sym("t"), -Poly.sym("h"), -1)):
            ex = C02.make_executor(src, reg)
            ex.prop = PID

            def rhs_hook(ex_, st_, ctx, args, kwargs, sign=sign):
                # autonomous right-hand side f(y); the reflected problem integrates -f backward
                v = LinComb.app("f", args[1])
                return v if sign > 0 else -v
            ex.call_hooks["ufunc:rhs"] = rhs_hook
            st = State()
            selfobj = C02.make_rk_self(st, m, T, Tf)
            consts = st.new_obj("dict", "dict", items={})
            ctx = Ctx(fi, None, fi.cls, tag="step[%s,%s]" % (name, label))
            paths = ex.call_function(fi, [selfobj, UFunc("rhs", "lincomb"), tval, LinComb.sym("y"), consts, hval], {}, st, ctx)
            results[label] = paths[0][1][1][1] if len(paths) == 1 and not isinstance(paths[0][1], Raised) else None
        pre = "%s/step[%s]/" % (PID, name)
        reg.ground(pre + "shift-invariant", "lemma", "RungeKuttaIntegrator.step", results["base"] is not None and results["base"] == results["shifted"],
                   backend="lincomb-exact", detail="autonomous f: step(t + s, y, h) == step(t, y, h)")
        reg.ground(pre + "reflection-invariant", "lemma", "RungeKuttaIntegrator.step", results["base"] is not None and results["base"] == results["reflected"],
                   backend="lincomb-exact", detail="step of -f from -t with -h equals step of f from t with h")


def loop_iteration_shift_invariance(reg, src):
    """(iii) one iteration of integrate()'s loop on (t, tf) and on (t + s, tf + s) with equal dt and equal integrator results
    makes the same decisions: same clamped step, same new dt, recorded time shifted by s, same state."""
    fi = src.func(IC.F, "OdeSystem.integrate")
    wnode = [n for n in ast.walk(fi.node) if isinstance(n, ast.While)][0]
    s = z3.Real("shift")
    base = dict(t=z3.Real("T"), tf=z3.Real("TF"), dt=z3.Real("DT"), y=z3.Real("Y"))

    def one_run(tag, shift):
        ex = IC.base_executor(src, reg, PID)
        F1, F2, F3 = ex.uf("I_newdt", 2), ex.uf("I_dTime", 2), ex.uf("I_dState", 2)

        def integ(ex_, st_, ctx, args, kwargs):
            ts = kwargs.get("timestep")
            yv = args[3]
            return (F1(to_real(yv), to_real(ts)), (F2(to_real(yv), to_real(ts)), F3(to_real(yv), to_real(ts))))
        ex.call_hooks["Integrator.__call__"] = integ
        del ex.contracts["Integrator.__call__"]
        st = State()
        n = z3.Int("N")
        st.assume(n >= 0)
        tarr = z3.Store(z3.Array("tarr_" + tag, z3.IntSort(), z3.RealSort()), n, base["t"] + shift)
        yarr = z3.Store(z3.Array("yarr_" + tag, z3.IntSort(), z3.RealSort()), n, base["y"])
        ln = z3.Int("LEN")
        st.assume(ln > n + 1)          # room in the buffer: the growth branch is covered by the integrate contract itself
        selfobj = st.new_obj("OdeSystem", fields={"counter": n, "_OdeSystem__t": SeqVal(tarr, ln), "_OdeSystem__y": SeqVal(yarr, ln), "_OdeSystem__dt": base["dt"],
                                                   "_OdeSystem__tf": z3.Real("sys_tf"), "_OdeSystem__t0": z3.Real("sys_t0"), "_OdeSystem__dense_output": False,
                                                   "_OdeSystem__int_status": 0, "integrator": st.new_obj("Integrator"), "equ_rhs": st.new_obj("DiffRHS"),
                                                   "_OdeSystem__consts": None, "_OdeSystem__sol": st.new_obj("DenseOutput")})
        st.env = dict(self=selfobj, tf=base["tf"] + shift, implicit_integration=False, events=None, callback=st.new_obj("list", "list", items=[]),
                      tqdm_progress_bar=None, steps=z3.Int("steps"), end_int=False, eta=False)
        st.assume(base["dt"] != 0)
        st.assume(z3.If(base["tf"] - base["t"] >= 0, base["tf"] - base["t"], base["t"] - base["tf"]) >= 8 * ex.eps)
        ctx = Ctx(fi, None, fi.cls, tag="integrate-loop-body[%s]" % tag)
        return ex, selfobj, ex.exec_block(wnode.body, st, ctx)

    exA, selfA, pA = one_run("A", z3.RealVal(0))
    exB, selfB, pB = one_run("B", s)
    k = 0
    ctx = Ctx(None, None, None, tag="integrate-loop-body")
    for sa, oa in pA:
        for sb, ob in pB:
            if oa is not None or ob is not None:
                continue
            st = State()
            st.pc = list(sa.pc) + list(sb.pc)
            if not exA.feasible(st):
                continue
            a, b = sa.obj(selfA).fields, sb.obj(selfB).fields
            ca, cb = a["counter"], b["counter"]
            goal = z3.And(ca == cb, a["_OdeSystem__dt"] == b["_OdeSystem__dt"],
                          z3.Select(b["_OdeSystem__t"].arr, cb) == z3.Select(a["_OdeSystem__t"].arr, ca) + s,
                          z3.Select(b["_OdeSystem__y"].arr, cb) == z3.Select(a["_OdeSystem__y"].arr, ca),
                          to_bool(sa.env["is_final_step"]) == to_bool(sb.env["is_final_step"]))
            exA.prove(st, ctx, goal, "lemma", "loop-iteration-shift-invariant#%d" % k)
            k += 1
    # the two runs must have at least one compatible pair of paths each way (no vacuity)
    reg.ground(PID + "/integrate-loop-body/paired-paths", "lemma", "OdeSystem.integrate", k >= 2, detail="%d jointly feasible path pairs" % k)
    return fi


def run(tier):
    R = common.Run(PID, "proof", tier)
    R.assume("A1", "A2", "A3", "A7")
    R.assume(intcall.AXIOM_TEXT)
    R.assume("'at tolerance level for adaptive methods' (shifted / reflected whole runs) is a floating-point statement: bounded native clause; what is proved is that no decision of the loop or of the controller reads absolute time")
    R.trust("z3", "pyvc executor", "LinComb domain (exact)")
    src = source.load_all()
    reg = solver.Registry(solver.THOROUGH_TIMEOUT_MS if tier == "thorough" else 20000)
    R.add_registry(reg)
    known_refuted = []
    try:
        for fi in IC.verify_helpers(src, reg, PID):
            R.under_contract(fi)
        R.under_contract(src.func(IC.F, "OdeSystem.integrate"))
        IC.verify_integrate(src, reg, PID + "/fixed-step", callbacks=0, fixed_step=True, extra_inv=FIXED_INV, extra_post=FIXED_POST)
        IC.verify_integrate(src, reg, PID + "/fixed-step,t=None", callbacks=0, fixed_step=True, extra_inv=FIXED_INV, extra_post=FIXED_POST, t_given=False)
        R.under_contract(intcall.check_update_timestep(reg, src, PID))
        R.under_contract(intcall.check_rk_call(reg, src, PID, False, False))
        R.under_contract(intcall.check_symplectic_call(reg, src, PID))
        R.under_contract(intcall.check_rk_call_caught_fault(reg, src, PID))
        # implicit classes without an embedded estimator: "may only shorten a step whose stage equations fail to converge"
        check_implicit_fixed(reg, src)
        d = e2common.load_tables(R)
        shift_reflection_of_one_step(reg, src, d)
        R.under_contract(loop_iteration_shift_invariance(reg, src))
    except Unsupported as e:
        reg.undecided(PID + "/executor/unsupported", "unsupported", "executor", str(e))
    for ob in list(reg.obligations):
        if not ob.discharged and ob.kind != "cover":
            e = R.kf.match(PID, ob.name)
            if e:
                reg.obligations.remove(ob)
                ob.kf = e
                known_refuted.append(ob)
    nat = None
    try:
        nat = common.run_native("monitor/native_c03.py", dict(tier=tier), timeout=1500)
        R.bounded.append(dict(name="native time-grid family (fixed-step exactness, none longer, all spans/directions); shift/reflection of whole runs",
                              bound=nat["bound"], cases=nat["cases"], failing_clauses={k: len(v) for k, v in nat["failures"].items()}, label="bounded"))
    except Exception as e:
        R.notes.append("native family could not run: %r" % (e,))
    C03.triage(R, reg, nat)
    for e in R.kf.for_property(PID):
        hit = [o for o in known_refuted if getattr(o, "kf", None) is e]
        nat_hit = nat and any(cl in nat["failures"] for cl in e.get("native_clauses", []))
        R.known(e, bool(hit) or bool(nat_hit), "obligations %s; native %s" % ([o.name for o in hit[:2]], [cl for cl in e.get("native_clauses", []) if nat and cl in nat["failures"]]))
    R.extra_cov["known_finding_obligations"] = [o.to_json() for o in known_refuted][:20]
    return R.finish()


def check_implicit_fixed(reg, src):
    ex = Executor(src, reg, prop=PID)
    intcall.install_call_stubs(ex)
    fi = src.func(intcall.FT, "RungeKuttaIntegrator.__call__")
    st = State()
    selfobj = intcall.rk_self(st, True, False, retries=1)
    ctx = Ctx(fi, None, fi.cls, tag="RungeKuttaIntegrator.__call__[implicit-fixed]")
    h = z3.Real("h0")
    st.assume(h != 0)
    consts = st.new_obj("dict", "dict", items={})
    for k, (s, v) in enumerate(ex.call_function(fi, [selfobj, UFunc("rhs", "real"), z3.Real("t"), z3.Real("y"), consts, h], {}, st, ctx)):
        if isinstance(v, Raised):
            continue
        new_dt, (dT, dS) = v
        sizes = s.ghost.get("step_sizes", [])
        ex.prove(s, ctx, intcall.zabs(new_dt) <= intcall.zabs(h), "post", "implicit-fixed-step-never-longer#path%d" % k)
        if len(sizes) == 1:
            ex.prove(s, ctx, z3.And(dT == h, new_dt == h), "post", "implicit-fixed-step-exact-when-converged#path%d" % k)
