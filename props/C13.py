"""C13 -- results do not depend on call history; reset restores the initial state.

E1: (i) reset() is executed symbolically from an arbitrary run-state and must establish, for every run-state attribute, the value
__init__ gives it as a function of the settings; frame completeness: the set W of attributes written outside __init__ is computed
from the AST and every member must be classified as a setting or as run-state (an unclassified attribute is UNDECIDED, not a
violation); (ii) integrate(t) with |t - t_current| < eps changes nothing (integrate's contract); (iii) __init__ stores a clone of y0
and no method writes through y0 / constants (syntactic frame obligations); (iv) determinism: the functions under contract read no
clock or random source.  Split-span agreement 'within tolerance' is a floating-point statement: bounded native family.
"""
import ast
import z3

from pyvc import source, solver
from pyvc.executor import Executor, State, Ctx, Raised, Unsupported
from pyvc.values import SeqVal, Opaque, Ref, UFunc, ModuleRef
from . import common, integrate_core as IC, C03

PID = "C13"
F = "desolver/differential_system.py"

SETTINGS = {"__tf", "__t0", "__method", "__rtol", "__atol", "__consts", "staggered_mask", "__dense_output", "__dt0", "dim", "device",
            "__inferred_backend", "__array_con_kwargs", "equ_rhs"}
RUN_STATE = {"counter", "__t", "__y", "__sol", "__dt", "__int_status", "__events", "integrator"}
ALIASES = {"dt": "__dt", "__t[...]": "__t", "__y[...]": "__y", "__array_con_kwargs[...]": "__array_con_kwargs"}


def write_set(src):
    text, tree = src.load(F)
    cls = [n for n in tree.body if isinstance(n, ast.ClassDef) and n.name == "OdeSystem"][0]
    W = {}
    for fn in cls.body:
        if not isinstance(fn, ast.FunctionDef):
            continue
        for n in ast.walk(fn):
            tg = n.targets if isinstance(n, ast.Assign) else ([n.target] if isinstance(n, (ast.AugAssign, ast.AnnAssign)) else [])
            for t in tg:
                for x in ast.walk(t):
                    if isinstance(x, ast.Attribute) and isinstance(x.value, ast.Name) and x.value.id == "self" and isinstance(x.ctx, ast.Store):
                        W.setdefault(x.attr, set()).add(fn.name)
                    if isinstance(x, ast.Subscript) and isinstance(x.value, ast.Attribute) and isinstance(x.value.value, ast.Name) and x.value.value.id == "self":
                        W.setdefault(x.value.attr + "[...]", set()).add(fn.name)
    return W


def check_reset(reg, src, prop, status0=2, label=""):
    """reset() from an arbitrary run state: any number n >= 0 of recorded steps (a fault inside the very first step leaves n == 0), the
    status of the last call `status0` (terminated by an event, or the exception object of a failed call)."""
    fi = src.func(F, "OdeSystem.reset")
    for dense in (False, True):
        ex = Executor(src, reg, prop=prop)
        ex.inline.update(["OdeSystem.__trim_soln_space", "OdeSystem.__fix_dt_dir", "OdeSystem.initialise_integrator", "DiffRHS.__setattr__"])
        made = []

        def new_integrator(ex_, st_, ctx, args, kwargs):
            r = st_.new_obj("Integrator", fields=dict(fresh=True, final_rhs=None, kwargs=dict(kwargs), dim=args[1] if len(args) > 1 else None))
            made.append(r)
            return r
        ex.call_hooks["MethodClass.__call__"] = new_integrator
        st = State()
        n = z3.Int("n_run")
        st.assume(n >= 0)
        t_arr, y_arr = z3.Array("t_run", z3.IntSort(), z3.RealSort()), z3.Array("y_run", z3.IntSort(), z3.RealSort())
        method = st.new_obj("MethodClass", fields=dict(symplectic=False, is_implicit=ModuleRef("property-object")))
        old_integ = st.new_obj("Integrator", fields=dict(fresh=False, dState=Opaque("dS"), dTime=Opaque("dT"), final_rhs=Opaque("cached")))
        rhs = st.new_obj("DiffRHS", fields=dict(rhs=UFunc("f", "opaque"), nfev=z3.Int("nfev_run"), njev=z3.Int("njev_run"), equ_repr="<str>", md_repr="<str>"))
        old_sol = st.new_obj("DenseOutput", fields=dict(t_eval=Opaque("te"), y_interpolants=Opaque("yi")))
        events = st.new_obj("list", "list", items=[Opaque("ev1")])
        tf, t0, dt0 = z3.Real("tf"), z3.Real("t0"), z3.Real("dt0")
        st.assume(tf != t0)
        st.assume(dt0 != 0)
        fields = {"counter": n, "_OdeSystem__t": SeqVal(t_arr, n + 1), "_OdeSystem__y": SeqVal(y_arr, n + 1), "_OdeSystem__sol": old_sol, "_OdeSystem__dt": z3.Real("dt_run"),
                  "_OdeSystem__int_status": status0, "_OdeSystem__events": events, "integrator": old_integ, "equ_rhs": rhs,
                  "_OdeSystem__tf": tf, "_OdeSystem__t0": t0, "_OdeSystem__method": method, "_OdeSystem__rtol": Opaque("rtol"), "_OdeSystem__atol": Opaque("atol"),
                  "_OdeSystem__consts": None, "staggered_mask": None, "_OdeSystem__dense_output": dense, "_OdeSystem__dt0": dt0, "dim": (), "device": None,
                  "_OdeSystem__inferred_backend": "numpy", "_OdeSystem__array_con_kwargs": None}
        settings_before = {k: v for k, v in fields.items() if k.replace("_OdeSystem", "") in SETTINGS}
        selfobj = st.new_obj("OdeSystem", fields=fields)
        ctx = Ctx(fi, None, fi.cls, tag="OdeSystem.reset[dense=%s%s]" % (dense, label))
        paths = ex.call_function(fi, [selfobj], {}, st, ctx)
        pre = "%s/%s/" % (prop, ctx.tag)
        for k, (s, v) in enumerate(paths):
            if isinstance(v, Raised):
                reg.ground(pre + "no-exception#%d" % k, "post-exc", "reset", False, detail=repr(v.exc))
                continue
            o = s.obj(selfobj).fields
            ex.prove(s, ctx, z3.And(o["counter"] == 0, o["_OdeSystem__t"].length == 1, o["_OdeSystem__y"].length == 1,
                                    z3.Select(o["_OdeSystem__t"].arr, 0) == z3.Select(t_arr, 0), z3.Select(o["_OdeSystem__y"].arr, 0) == z3.Select(y_arr, 0)),
                     "post", "trajectory-is-the-initial-point#%d" % k)
            want_dt = z3.If((z3.If(dt0 > 0, 1, z3.If(dt0 < 0, -1, 0))) != (z3.If(tf - t0 > 0, 1, z3.If(tf - t0 < 0, -1, 0))), -dt0, dt0)
            ex.prove(s, ctx, o["_OdeSystem__dt"] == want_dt, "post", "dt-is-the-initial-step-oriented-toward-tf#%d" % k)
            sol = o["_OdeSystem__sol"]
            solf = s.obj(sol).fields if isinstance(sol, Ref) else {}
            yi = solf.get("y_interpolants")
            reg.ground(pre + "dense-output-is-fresh-and-empty#%d" % k, "post", "reset", isinstance(sol, Ref) and sol != old_sol and solf.get("t_eval") is None
                       and isinstance(yi, Ref) and s.obj(yi).items == [], backend="symbolic-exec")
            nf = s.obj(o["equ_rhs"]).fields["nfev"]
            reg.ground(pre + "nfev-zero#%d" % k, "post", "reset", isinstance(nf, int) and nf == 0, backend="symbolic-exec", detail="nfev after reset: %r" % (nf,))
            reg.ground(pre + "status-not-run#%d" % k, "post", "reset", o["_OdeSystem__int_status"] == 0 and not isinstance(o["_OdeSystem__int_status"], bool), backend="symbolic-exec")
            ev = o["_OdeSystem__events"]
            reg.ground(pre + "events-cleared#%d" % k, "post", "reset", isinstance(ev, Ref) and s.obj(ev).items == [], backend="symbolic-exec")
            integ = o["integrator"]
            fresh = isinstance(integ, Ref) and integ != old_integ and s.obj(integ).fields.get("fresh") is True
            kw = s.obj(integ).fields.get("kwargs", {}) if fresh else {}
            reg.ground(pre + "integrator-is-new-with-current-settings#%d" % k, "post", "reset", fresh and kw.get("atol") is fields["_OdeSystem__atol"] and kw.get("rtol") is fields["_OdeSystem__rtol"]
                       and s.obj(integ).fields.get("final_rhs") is None and "dState" not in s.obj(integ).fields and "dTime" not in s.obj(integ).fields, backend="symbolic-exec",
                       detail="fresh integrator built by self.__method(self.dim, atol=..., rtol=...): no cached slopes, no controller memory, no dState/dTime carried over")
            if fresh and isinstance(sol, Ref) and isinstance(yi, Ref) and isinstance(ev, Ref) and prop == PID:
                RESET_SUMMARIES.append((dense, dict(counter=o["counter"], status=o["_OdeSystem__int_status"], n_events=len(s.obj(ev).items),
                                                    sol=(solf.get("t_eval"), len(s.obj(yi).items)), integrator_kwargs=sorted(kw.keys()),
                                                    carries_dState="dState" in s.obj(integ).fields)))
            changed = [k2 for k2, v2 in settings_before.items() if o.get(k2) is not v2 and not (z3.is_expr(v2) and z3.is_expr(o.get(k2)) and v2.eq(o.get(k2)))]
            reg.ground(pre + "settings-untouched#%d" % k, "frame", "reset", not changed, backend="symbolic-exec", detail="settings changed by reset: %r" % (changed,))
    return fi


RESET_SUMMARIES = []


def reset_vs_constructor(reg, init_records):
    """Relational obligation over the two symbolic executions: every run-state attribute has the same shape after reset() as after the
    constructor (same clause names are proved for both: trajectory = initial point, dt = the initial step oriented toward tf, fresh
    empty DenseOutput, status 0, no events, new integrator from the settings).  The one deliberate difference is reported: the
    constructor has evaluated the right-hand side once (shape probe, counted: nfev == 1), reset() zeroes the counter."""
    def summary_init(r):
        s, o = r["state"], r["fields"]
        integ = s.obj(o["integrator"]).fields
        return dict(counter=o["counter"], status=o["_OdeSystem__int_status"], n_events=len(s.obj(o["_OdeSystem__events"]).items),
                    sol=(s.obj(o["_OdeSystem__sol"]).fields.get("t_eval"), len(s.obj(s.obj(o["_OdeSystem__sol"]).fields["y_interpolants"]).items)),
                    integrator_kwargs=sorted(integ.get("kwargs", {}).keys()), carries_dState="dState" in integ)
    for dense in (False, True):
        inits = [summary_init(r) for r in init_records if r["dense"] is dense]
        resets = [x for d, x in RESET_SUMMARIES if d is dense]
        ok = bool(inits) and bool(resets) and all(a == b for a in inits for b in resets)
        reg.ground("%s/OdeSystem.reset[dense=%s]/run-state-equals-what-the-constructor-builds" % (PID, dense), "post", "OdeSystem.reset", ok, backend="symbolic-exec (relational)",
                   detail="constructor: %r; reset: %r" % (inits[:1], resets[:1]))


def frame_completeness(reg, src):
    W = write_set(src)
    unclassified, run_written = [], set()
    for attr, fns in W.items():
        a = ALIASES.get(attr, attr)
        if fns <= {"__init__"}:
            continue
        if a in RUN_STATE:
            run_written.add(a)
        elif a not in SETTINGS:
            unclassified.append((attr, sorted(fns)))
    if unclassified:
        # an attribute the sidecar does not know: it is run state -- and a violation -- if integrate() (transitively) both writes and
        # reads it while reset() (transitively) never writes it: what one run leaves there steers the next run after a reset.  Anything
        # else (a new setting, a diagnostic that is only written) cannot be classified from the code: undecided.
        text, tree = src.load(F)
        cls = [n for n in tree.body if isinstance(n, ast.ClassDef) and n.name == "OdeSystem"][0]
        meths = {}
        for fn in cls.body:
            if isinstance(fn, ast.FunctionDef):
                meths.setdefault(fn.name, []).append(fn)

        def reach(root):
            seen, todo = set(), [root]
            while todo:
                m = todo.pop()
                if m in seen or m not in meths:
                    continue
                seen.add(m)
                for fn in meths[m]:
                    for x in ast.walk(fn):
                        if isinstance(x, ast.Attribute) and isinstance(x.value, ast.Name) and x.value.id == "self" and x.attr in meths:
                            todo.append(x.attr)
            return seen

        def touches(ms, attr, store):
            base = attr[:-5] if attr.endswith("[...]") else attr
            for m in ms:
                for fn in meths[m]:
                    for x in ast.walk(fn):
                        if isinstance(x, ast.Attribute) and isinstance(x.value, ast.Name) and x.value.id == "self" and x.attr == base:
                            if not store and isinstance(x.ctx, ast.Load):
                                return True
                            if store and isinstance(x.ctx, ast.Store):
                                return True
                    if store:
                        for x in ast.walk(fn):
                            if isinstance(x, ast.Subscript) and isinstance(x.ctx, ast.Store) and isinstance(x.value, ast.Attribute) and isinstance(x.value.value, ast.Name) \
                                    and x.value.value.id == "self" and x.value.attr == base:
                                return True
                            if isinstance(x, ast.Call) and isinstance(x.func, ast.Attribute) and x.func.attr in ("append", "update", "clear", "pop", "insert", "extend", "setdefault") \
                                    and isinstance(x.func.value, ast.Attribute) and isinstance(x.func.value.value, ast.Name) and x.func.value.value.id == "self" and x.func.value.attr == base:
                                return True
            return False
        run_ms, reset_ms = reach("integrate"), reach("reset")
        stale = [(a, fns) for a, fns in unclassified if touches(run_ms, a, True) and touches(run_ms, a, False) and not touches(reset_ms, a, True)]
        rest = [(a, fns) for a, fns in unclassified if (a, fns) not in stale]
        if stale:
            reg.ground(PID + "/OdeSystem.reset/state-that-integrate-writes-and-reads-is-re-established", "frame", "OdeSystem.reset", False, backend="ast-dataflow",
                       detail="attributes written and read by integrate() (transitively) that reset() never writes: %r -- what a run leaves there steers the run after reset()" % (stale,))
        if rest:
            reg.undecided(PID + "/OdeSystem/frame-completeness", "frame", "OdeSystem", "attributes written outside __init__ that the sidecar does not classify: %r" % (rest,))
    else:
        reg.ground(PID + "/OdeSystem/frame-completeness", "frame", "OdeSystem", run_written <= RUN_STATE, backend="ast-scan",
                   detail="written outside __init__: run-state %r (each re-established by reset), settings %r" % (sorted(run_written), sorted(set(ALIASES.get(a, a) for a in W) & SETTINGS)))


def aliasing_and_determinism(reg, src):
    text, tree = src.load(F)
    cls = [n for n in tree.body if isinstance(n, ast.ClassDef) and n.name == "OdeSystem"][0]
    init = [f for f in cls.body if isinstance(f, ast.FunctionDef) and f.name == "__init__"][0]
    y_assign = [ast.unparse(n.value) for n in ast.walk(init) if isinstance(n, ast.Assign) and any(ast.unparse(t) == "self.__y" for t in n.targets)]
    reg.ground(PID + "/OdeSystem.__init__/initial-state-is-cloned", "frame", "OdeSystem.__init__", len(y_assign) == 1 and "clone(y0)" in y_assign[0], backend="ast-scan",
               detail="self.__y = %s" % (y_assign,))
    # no method stores into / mutates the caller's y0 or constants
    bad = []
    for n in ast.walk(cls):
        if isinstance(n, (ast.Assign, ast.AugAssign)):
            tg = n.targets if isinstance(n, ast.Assign) else [n.target]
            for t in tg:
                for x in ast.walk(t):
                    if isinstance(x, ast.Subscript) and ast.unparse(x.value) in ("y0", "constants", "self.constants", "self.__consts"):
                        bad.append("line %d: %s" % (n.lineno, ast.unparse(n)[:60]))
        if isinstance(n, ast.Call) and isinstance(n.func, ast.Attribute) and n.func.attr in ("update", "pop", "clear", "setdefault", "popitem") and \
                ast.unparse(n.func.value) in ("constants", "self.constants", "self.__consts"):
            bad.append("line %d: %s" % (n.lineno, ast.unparse(n)[:60]))
    reg.ground(PID + "/OdeSystem/no-write-through-y0-or-constants", "frame", "OdeSystem", not bad, backend="ast-scan", detail="offending statements: %r" % (bad,))
    # determinism: no clock / random source in the modules under contract (BlockTimer is a user-facing timing utility, not used by the solvers)
    offenders = []
    for rel in source.ALL_FILES:
        t2, tr2 = src.load(rel)
        for n in ast.walk(tr2):
            if isinstance(n, ast.Call):
                name = ast.unparse(n.func)
                if name.startswith(("random.", "numpy.random", "np.random", "time.", "datetime.", "os.urandom")):
                    owner = [f.name for f in ast.walk(tr2) if isinstance(f, ast.ClassDef) and f.lineno <= n.lineno <= f.end_lineno]
                    if "BlockTimer" not in owner:
                        offenders.append("%s:%d %s" % (rel, n.lineno, name))
    reg.ground(PID + "/package/no-clock-or-random-source", "frame", "desolver/*", not offenders, backend="ast-scan", detail="%r" % (offenders,))


def run(tier):
    R = common.Run(PID, "proof", tier)
    R.assume("A1", "A2", "A3", "A5")
    R.assume("bit-for-bit reproducibility additionally needs numpy/scipy to be deterministic (assumed); 'within tolerance otherwise' (split spans) is a bounded native clause")
    R.assume("the Jacobian cache of DiffRHS is not reset by reset(); by C16's contract jac(t, y) does not depend on the cache, so results are unaffected")
    R.trust("z3", "pyvc executor", "CPython ast")
    src = source.load_all()
    reg = solver.Registry(solver.THOROUGH_TIMEOUT_MS if tier == "thorough" else 20000)
    R.add_registry(reg)
    try:
        R.under_contract(check_reset(reg, src, PID))
        # what "the value __init__ gives it" is: the real constructor, executed symbolically, against the same clauses
        from . import ctor
        fi_init, init_records = ctor.check_ode_init(reg, src, PID)
        R.under_contract(fi_init)
        reset_vs_constructor(reg, init_records)
        # the setting operations of the histories: each changes its setting (and what depends on it) and nothing of the run state
        for fi in ctor.check_setters(reg, src, PID) + ctor.check_method_ops(reg, src, PID):
            R.under_contract(fi)
        frame_completeness(reg, src)
        aliasing_and_determinism(reg, src)
        for fi in IC.verify_helpers(src, reg, PID):
            R.under_contract(fi)
        R.under_contract(src.func(IC.F, "OdeSystem.integrate"))
        # (ii) the early return: a call made when already at the target changes nothing; and the per-call contract for arbitrary pre-states
        IC.verify_integrate(src, reg, PID + "/integrate", callbacks=0)
        IC.verify_integrate(src, reg, PID + "/integrate,status=1", callbacks=0, status0=1)
    except Unsupported as e:
        reg.undecided(PID + "/executor/unsupported", "unsupported", "executor", str(e))
    nat = None
    try:
        nat = common.run_native("monitor/native_c13.py", dict(tier=tier), timeout=1500)
        R.bounded.append(dict(name="native histories: split spans, repeated calls, reset after runs/events/failures/method and tolerance changes vs a fresh system (bit-for-bit), caller's y0/constants untouched",
                              bound=nat["bound"], cases=nat["cases"], failing_clauses={k: len(v) for k, v in nat["failures"].items()}, label="bounded"))
    except Exception as e:
        R.notes.append("native family could not run: %r" % (e,))
    C03.triage(R, reg, nat)
    for e in R.kf.for_property(PID):
        nat_hit = nat and any(cl in nat["failures"] for cl in e.get("native_clauses", []))
        R.known(e, bool(nat_hit), "native clauses %s" % ([cl for cl in e.get("native_clauses", []) if nat and cl in nat["failures"]],))
    return R.finish()
