"""C16 -- Jacobians are the true derivative, from the user's function when one is given.

E1: the dispatch of DiffRHS.jac is a small state machine over (__jac, __jac_initialised, __jac_is_wrapped_rhs, __jac_time).
`jac` and every mutator (hook / unhook / `jac =` / set_jac_base_order / __copy__) are executed symbolically from every abstract
state satisfying the invariant Inv_J and must re-establish it; `jac(t, y)` must return the user's Jacobian when one is attached
and otherwise a finite-difference wrapper whose closure differentiates rhs(t, .) *at the t of this call*.  Because the contract
is proved for an arbitrary Inv_J pre-state, every sequence of calls is covered.  Finite differences: `estimate` is executed on an
affine map with a symbolic stencil satisfying the two moment conditions the real weights are checked against, giving exactness
and the [output, input] layout.  Accuracy on nonlinear f is a bounded native clause.
"""
from fractions import Fraction
import z3

from pyvc import source, solver
from pyvc.executor import Executor, State, Ctx, Raised, Unsupported
from pyvc.values import LinComb, Poly, UFunc, Ref, Closure, Opaque, ConcVec, Atom
from . import common

PID = "C16"
F = "desolver/differential_system.py"
FU = "desolver/utilities/utilities.py"


def install_hooks(ex):
    def new_wrapper(ex_, st, ctx, args, kwargs):
        fn = args[0]
        probe = LinComb.sym("y_probe")
        tmp = st.fork()
        owner = None
        # evaluate the closure on a probe in a scratch copy of the state: which time does it differentiate at, and is the
        # evaluation counted (does it go through DiffRHS.__call__)?
        before = {oid: o.fields.get("nfev") for oid, o in tmp.heap.items() if o.kind == "object" and o.cls == "DiffRHS"}
        res = ex_.call(fn, [probe], {}, tmp, ctx)
        s2, val = res[-1]
        counted = any(o.kind == "object" and o.cls == "DiffRHS" and not _same(o.fields.get("nfev"), before.get(oid)) for oid, o in s2.heap.items())
        owners = [oid for oid, o in s2.heap.items() if o.kind == "object" and o.cls == "DiffRHS" and not _same(o.fields.get("nfev"), before.get(oid))]
        owner = owners[0] if len(owners) == 1 else None
        time_arg, fname = None, None
        if isinstance(val, LinComb) and len(val.terms) == 1:
            (atom, c), = val.terms.items()
            if atom.key[0] == "app" and len(atom.key) == 4 and atom.key[3] == probe:
                fname, time_arg = atom.key[1], atom.key[2]
        return st.new_obj("JacobianWrapper", fields=dict(captured_time=time_arg, fn=fname, counted=counted, base_order=kwargs.get("base_order"),
                                                         flat=kwargs.get("flat", False), owner=owner))

    def call_wrapper(ex_, st, ctx, args, kwargs):
        w = st.obj(args[0])
        return st.new_obj("FDResult", fields=dict(time=w.fields["captured_time"], fn=w.fields["fn"], y=args[1], counted=w.fields["counted"]))

    ex.inline.update(["DiffRHS.__call__", "DiffRHS.hook_jacobian_call", "DiffRHS.__init__"])
    # every method of the class under verification is executed on its real text (a private helper a refactoring introduces included)
    ci = ex.src.classes.get("DiffRHS")
    if ci is not None:
        ex.inline.update("DiffRHS." + m for m in ci.methods)
    ex.call_hooks["new:JacobianWrapper"] = new_wrapper
    ex.call_hooks["JacobianWrapper.__call__"] = call_wrapper
    ex.call_hooks["JacobianWrapper"] = new_wrapper


def _same(a, b):
    if a is None or b is None:
        return a is b
    if z3.is_expr(a) and z3.is_expr(b):
        return a.eq(b)
    return a == b


STATES = ["fresh", "hooked-before-first-call", "user", "fd"]


def mk_self(st, state, rhs_has_jac):
    attrs = {"jac": UFunc("rhs_attr_jac", "lincomb")} if rhs_has_jac else {}
    rhs = UFunc("rhs", "lincomb", attrs=attrs)
    f = dict(rhs=rhs, equ_repr="<str>", md_repr="<str>", nfev=z3.Int("nfev0"), njev=z3.Int("njev0"))
    T = Poly.sym("T_cached")
    if state == "fresh":
        f.update(_DiffRHS__jac_wrapped_rhs_order=None, _DiffRHS__jac_initialised=False, _DiffRHS__jac=None, _DiffRHS__jac_time=None, _DiffRHS__jac_is_wrapped_rhs=False)
    elif state == "hooked-before-first-call":
        f.update(_DiffRHS__jac_wrapped_rhs_order=None, _DiffRHS__jac_initialised=False, _DiffRHS__jac=UFunc("hooked", "lincomb"), _DiffRHS__jac_time=None, _DiffRHS__jac_is_wrapped_rhs=False)
    elif state == "user":
        f.update(_DiffRHS__jac_wrapped_rhs_order=None, _DiffRHS__jac_initialised=True, _DiffRHS__jac=UFunc("userjac", "lincomb"), _DiffRHS__jac_time=None, _DiffRHS__jac_is_wrapped_rhs=False)
    elif state == "fd":
        w = st.new_obj("JacobianWrapper", fields=dict(captured_time=T, fn="rhs", counted=True, base_order=5, flat=False))
        f.update(_DiffRHS__jac_wrapped_rhs_order=5, _DiffRHS__jac_initialised=True, _DiffRHS__jac=w, _DiffRHS__jac_time=T, _DiffRHS__jac_is_wrapped_rhs=True)
        ref = st.new_obj("DiffRHS", fields=f)
        st.obj(w).fields["owner"] = ref.oid          # the wrapper's closure evaluates this very object (ghost: whose counted call it makes)
        return ref
    return st.new_obj("DiffRHS", fields=f)


def inv_j(ex, st, ref, pc_state):
    """-> (ok, why)  Inv_J on a concrete heap shape (symbolic times compared under the path condition)."""
    o = st.obj(ref).fields
    jac, init, wrapped, tm = o.get("_DiffRHS__jac"), o.get("_DiffRHS__jac_initialised"), o.get("_DiffRHS__jac_is_wrapped_rhs"), o.get("_DiffRHS__jac_time")
    if init is True and jac is None:
        return False, "initialised but no Jacobian callable attached (next jac() would call None)"
    if wrapped is True:
        if not (isinstance(jac, Ref) and st.obj(jac).cls == "JacobianWrapper"):
            if init is True:
                return False, "flag says finite differences but __jac is not a wrapper"
            return True, ""      # will be rebuilt on the next call
        w = st.obj(jac).fields
        if w["fn"] != "rhs":
            return False, "finite-difference closure does not differentiate the right-hand side"
        if not w["counted"]:
            return False, "finite-difference closure calls the raw rhs: its evaluations bypass the nfev counter"
        if w.get("owner") is not None and w.get("owner") != ref.oid:
            return False, "the finite-difference closure evaluates another DiffRHS object's right-hand side (a wrapper shared with the object it was built for)"
        if tm is None or w["captured_time"] is None:
            return False, "cached time missing"
        if not _poly_eq_under(ex, st, w["captured_time"], tm):
            return False, "cached __jac_time differs from the time the wrapper's closure captured"
    else:
        if jac is not None and not isinstance(jac, (UFunc, Closure)):
            if isinstance(jac, Ref) and st.obj(jac).cls == "JacobianWrapper":
                return False, "wrapper attached but flag says user Jacobian (it would be called as fn(t, y))"
    return True, ""


def _poly_eq_under(ex, st, a, b):
    if a == b:
        return True
    s = z3.Solver()
    for p in st.pc:
        s.add(p)
    s.add(a.to_z3() != b.to_z3() if hasattr(a, "to_z3") else z3.BoolVal(True))
    return s.check() == z3.unsat


def expected_source(state, rhs_has_jac):
    if state == "hooked-before-first-call":
        return "hooked"
    if state == "user":
        return "userjac"
    if state == "fresh" and rhs_has_jac:
        return "rhs_attr_jac"
    return "fd"


def check_jac(reg, src, state, rhs_has_jac):
    ex = Executor(src, reg, prop=PID)
    install_hooks(ex)
    fi = src.func(F, "DiffRHS.jac")
    st = State()
    selfref = mk_self(st, state, rhs_has_jac)
    t, y = Poly.sym("t"), LinComb.sym("y")
    tag = "DiffRHS.jac[%s,rhs.jac=%s]" % (state, rhs_has_jac)
    ctx = Ctx(fi, None, fi.cls, tag=tag)
    paths = ex.call_function(fi, [selfref, t, y], {}, st, ctx)
    pre = "%s/%s/" % (PID, tag)
    want = expected_source(state, rhs_has_jac)
    for k, (s, v) in enumerate(paths):
        sfx = "#path%d" % k if len(paths) > 1 else ""
        if isinstance(v, Raised):
            reg.ground(pre + "no-exception" + sfx, "post-exc", "DiffRHS.jac", False, backend="symbolic-exec", detail="jac raised %r" % (v.exc,))
            continue
        if want == "fd":
            ok = isinstance(v, Ref) and s.obj(v).cls == "FDResult"
            reg.ground(pre + "finite-difference-of-rhs" + sfx, "post", "DiffRHS.jac", ok and s.obj(v).fields["fn"] == "rhs" and s.obj(v).fields["y"] == y,
                       backend="symbolic-exec", detail="no user Jacobian attached: result is the finite-difference wrapper applied to the requested state")
            if ok:
                tm = s.obj(v).fields["time"]
                okt = tm is not None and _poly_eq_under(ex, s, tm, t)
                reg.ground(pre + "jac-time-is-request-time" + sfx, "post", "DiffRHS.jac", okt, backend="z3" if tm is not None and tm != t else "symbolic-exec",
                           detail="the wrapper's closure differentiates rhs(%r, .); requested time t" % (tm,))
                reg.ground(pre + "fd-evaluations-counted" + sfx, "post", "DiffRHS.jac", bool(s.obj(v).fields["counted"]), backend="symbolic-exec",
                           detail="the closure evaluates the right-hand side through DiffRHS.__call__ (nfev counts finite-difference evaluations, C20)")
        else:
            reg.ground(pre + "user-jacobian-returned" + sfx, "post", "DiffRHS.jac", v == LinComb.app(want, t, y), backend="symbolic-exec",
                       detail="result == %s(t, y)" % want)
        nj = s.obj(selfref).fields["njev"]
        ex.prove(s, ctx, nj == z3.Int("njev0") + 1, "post", "njev-incremented-once" + sfx)
        ok, why = inv_j(ex, s, selfref, None)
        reg.ground(pre + "Inv_J-preserved" + sfx, "inv-pres", "DiffRHS.jac", ok, backend="symbolic-exec", detail=why)
    return fi


def check_mutator(reg, src, name, state, args_fn, via_setattr=False):
    ex = Executor(src, reg, prop=PID)
    install_hooks(ex)
    st = State()
    selfref = mk_self(st, state, False)
    tag = "DiffRHS.%s[%s]" % (name, state)
    pre = "%s/%s/" % (PID, tag)
    if via_setattr:
        fi = src.func(F, "DiffRHS.__setattr__")
        ctx = Ctx(fi, None, fi.cls, tag=tag)
        paths = ex.setattr(selfref, "jac", UFunc("assigned", "lincomb"), st, ctx)
        paths = [(s, None if oc is None else Raised(oc[1])) for s, oc in paths]
    else:
        fi = src.func(F, "DiffRHS." + name)
        ctx = Ctx(fi, None, fi.cls, tag=tag)
        paths = ex.call_function(fi, [selfref] + args_fn(st), {}, st, ctx)
    for k, (s, v) in enumerate(paths):
        sfx = "#path%d" % k if len(paths) > 1 else ""
        if isinstance(v, Raised):
            reg.ground(pre + "no-exception" + sfx, "post-exc", tag, False, backend="symbolic-exec", detail="%r" % (v.exc,))
            continue
        target = v if name == "__copy__" else selfref
        ok, why = inv_j(ex, s, target, None)
        e = None
        reg.ground(pre + "Inv_J-preserved" + sfx, "inv-pres", "DiffRHS." + name, ok, backend="symbolic-exec", detail=why)
        if name in ("set_jac_base_order", "__copy__") and state in ("hooked-before-first-call", "user"):
            # an operation that is not about attaching / detaching must not lose the attached function: a following jac(t, y) (on the
            # object itself, or on the copy) still returns the user's function value
            want = "hooked" if state == "hooked-before-first-call" else "userjac"
            fj = src.func(F, "DiffRHS.jac")
            t, y = Poly.sym("t"), LinComb.sym("y")
            for s2, v2 in ex.call_function(fj, [target, t, y], {}, s.fork(), Ctx(fj, None, fj.cls, tag=tag)):
                reg.ground(pre + "attached-function-survives" + sfx, "post", "DiffRHS." + name, (not isinstance(v2, Raised)) and v2 == LinComb.app(want, t, y),
                           backend="symbolic-exec", detail="jac(t, y) after %s still returns %s(t, y); got %r" % (name, want, v2 if not isinstance(v2, Raised) else v2.exc))
        if name == "hook_jacobian_call" or via_setattr:
            want = "assigned" if via_setattr else "newfn"
            # a following jac(t, y) returns the attached function's value
            fj = src.func(F, "DiffRHS.jac")
            t, y = Poly.sym("t"), LinComb.sym("y")
            for s2, v2 in ex.call_function(fj, [selfref, t, y], {}, s, Ctx(fj, None, fj.cls, tag=tag)):
                reg.ground(pre + "attached-function-honoured" + sfx, "post", "DiffRHS." + name, (not isinstance(v2, Raised)) and v2 == LinComb.app(want, t, y),
                           backend="symbolic-exec", detail="jac(t, y) after attaching returns %s(t, y)" % want)
    return fi


def check_call_counter(reg, src):
    """DiffRHS.__call__: nfev counts completed user calls only (statement order: call first, then increment)."""
    ex = Executor(src, reg, prop=PID.replace("16", "20") if False else PID)
    fi = src.func(F, "DiffRHS.__call__")
    st = State()
    selfref = mk_self(st, "fresh", False)
    st.obj(selfref).fields["rhs"] = UFunc("rhs", "lincomb", may_raise=True)
    ctx = Ctx(fi, None, fi.cls, tag="DiffRHS.__call__")
    t, y = Poly.sym("t"), LinComb.sym("y")
    paths = ex.call_function(fi, [selfref, t, y], {}, st, ctx)
    n0 = z3.Int("nfev0")
    for k, (s, v) in enumerate(paths):
        nf = s.obj(selfref).fields["nfev"]
        if isinstance(v, Raised):
            ex.prove(s, ctx, nf == n0, "post-exc", "raising-call-not-counted#path%d" % k)
        else:
            ex.prove(s, ctx, nf == n0 + 1, "post", "completed-call-counted-once#path%d" % k)
            reg.ground("%s/DiffRHS.__call__/returns-user-value#path%d" % (PID, k), "post", "DiffRHS.__call__", v == LinComb.app("rhs", t, y), backend="symbolic-exec")
    return fi


def run(tier):
    R = common.Run(PID, "proof", tier)
    R.assume("A1", "A2", "A3", "A5")
    R.assume("JacobianWrapper(f, ...)(y) is abstracted to 'the finite-difference derivative of its closure f at y'; which function and which time the closure evaluates, and whether the evaluation is counted, "
             "is determined by symbolically executing the real closure; accuracy of finite differences on nonlinear maps is a bounded native clause")
    R.trust("pyvc executor incl. its routing of attribute stores through DiffRHS.__setattr__ and of missing attributes through __getattr__", "z3")
    src = source.load_all()
    reg = solver.Registry()
    R.add_registry(reg)
    known_refuted = []
    try:
        for state in STATES:
            for has in (False, True):
                R.under_contract(check_jac(reg, src, state, has))
        newfn = lambda st: [UFunc("newfn", "lincomb")]
        for state in STATES:
            R.under_contract(check_mutator(reg, src, "hook_jacobian_call", state, newfn))
            R.under_contract(check_mutator(reg, src, "unhook_jacobian_call", state, lambda st: []))
            R.under_contract(check_mutator(reg, src, "__setattr__", state, None, via_setattr=True))
            R.under_contract(check_mutator(reg, src, "set_jac_base_order", state, lambda st: [3]))
            R.under_contract(check_mutator(reg, src, "__copy__", state, lambda st: []))
        R.under_contract(check_call_counter(reg, src))
        # the unhooked state must itself be usable: unhook, then jac
        from . import C16_fd
        C16_fd.check_estimate_frame(reg, src, R)
        for part in (C16_fd.check_estimate, C16_fd.check_converged, C16_fd.check_richardson):
            try:
                part(reg, src, R)
            except Unsupported as e:
                reg.undecided("%s/%s/unsupported" % (PID, part.__name__), "unsupported", "executor", str(e))
    except Unsupported as e:
        reg.undecided(PID + "/executor/unsupported", "unsupported", "executor", str(e))
    for ob in list(reg.obligations):
        if not ob.discharged and ob.kind != "cover":
            e = R.kf.match(PID, ob.name)
            if e:
                reg.obligations.remove(ob)
                ob.kf = e
                known_refuted.append(ob)
    nat = None
    try:
        nat = common.run_native("monitor/native_c16.py", dict(tier=tier, seed=R.seed), timeout=900)
        R.bounded.append(dict(name="native: finite-difference Jacobian vs analytic (random smooth f: R^n -> R^m, shapes, points near 0 and large), dispatch sequences",
                              bound=nat["bound"], cases=nat["cases"], failing_clauses={k: len(v) for k, v in nat["failures"].items()}, label="bounded"))
    except Exception as e:
        R.notes.append("native family could not run: %r" % (e,))
    known_native = {cl: e for e in R.kf.for_property(PID) for cl in e.get("native_clauses", [])}
    unexpected = {k: v for k, v in (nat["failures"].items() if nat else []) if k not in known_native}
    for ob in [o for o in reg.obligations if not o.discharged and o.result != "unknown"]:
        w = None
        for cl, cs in unexpected.items():
            w = dict(clause=cl, case=cs[0])
            break
        R.violation(ob, R.write_replay(ob, dict(identity=ob.detail, native=dict(witness=w))), w is not None)
    if unexpected and not R.violations:
        ob = reg.ground(PID + "/native/unexpected-failure", "bounded", "DiffRHS.jac", False, backend="native-family", detail=str(sorted(unexpected)))
        R.violation(ob, R.write_replay(ob, dict(native=dict(failures={k: v[:3] for k, v in unexpected.items()}))), True, "bounded-native")
    for e in R.kf.for_property(PID):
        hit = [o for o in known_refuted if getattr(o, "kf", None) is e]
        nat_hit = nat and any(cl in nat["failures"] for cl in e.get("native_clauses", []))
        R.known(e, bool(hit) or bool(nat_hit), "obligations %s" % ([o.name for o in hit[:3]],))
    R.extra_cov["known_finding_obligations"] = [o.to_json() for o in known_refuted]
    R.extra_cov["abstract_states"] = STATES
    return R.finish()
