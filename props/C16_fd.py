"""Finite-difference part of C16: JacobianWrapper.estimate on an affine map, symbolic stencil.

`estimate` is executed symbolically for f(y) = M y + c (M, c, y, dy symbolic) with the node positions the real
get_finite_difference_weights returns and *symbolic* weights constrained by the two moment conditions
sum w_k = 0 and sum w_k x_k = 1 (substituted, so they hold identically).  Result: every column idx of the returned array is
M e_idx -- exact for affine maps, entry [i, j] = d f_i / d y_j.  The real weights are checked against the two moment conditions
as ground obligations (exact rational arithmetic, derived rounding slack).
"""
from fractions import Fraction

from pyvc.executor import Executor, State, Ctx, Raised, Unsupported
from pyvc.values import Poly, ConcVec, UFunc, Ref
from tabinv.order import ULP_SLACK
from . import common

PID = "C16"
FU = "desolver/utilities/utilities.py"


def constrained_weights(nodes):
    n = len(nodes)
    w = [None] * n
    free = [Poly.sym("w%d" % k) for k in range(n)]
    # sum_k w_k (x_k - x_0) = 1  ->  w_1
    rest = Poly.const(0)
    for k in range(2, n):
        rest = rest + free[k] * (nodes[k] - nodes[0])
        w[k] = free[k]
    w[1] = (Poly.const(1) - rest).div_const(nodes[1] - nodes[0])
    w[0] = Poly.const(0)
    for k in range(1, n):
        w[0] = w[0] - w[k]
    return w


def check_estimate(reg, src, R):
    nat = common.run_native("monitor/native_c16.py", dict(mode="stencils"))
    fi = src.func(FU, "JacobianWrapper.estimate")
    R.under_contract(fi)
    for st_info in nat["stencils"]:
        bo = st_info["base_order"]
        nodes = [Fraction(float.fromhex(x)) for x in st_info["nodes"]]
        wts = [Fraction(float.fromhex(x)) for x in st_info["weights"]]
        pre = "%s/JacobianWrapper[base_order=%d]/" % (PID, bo)
        s0 = sum(wts)
        s1 = sum(w * x for w, x in zip(wts, nodes))
        sl = 8 * len(wts) * ULP_SLACK * (sum(abs(w) for w in wts) + 1)
        reg.ground(pre + "stencil-moment-0", "class-invariant", "get_finite_difference_weights", abs(s0) <= sl, detail="sum w = %.3g (slack %.3g)" % (float(s0), float(sl)))
        reg.ground(pre + "stencil-moment-1", "class-invariant", "get_finite_difference_weights", abs(s1 - 1) <= sl, detail="sum w x - 1 = %.3g" % float(s1 - 1))
        for (m, n), flat in (((2, 2), False), ((3, 2), False), ((1, 1), True), ((2, 3), True)):
            ex = Executor(src, reg, prop=PID)
            M = [[Poly.sym("M%d%d" % (i, j)) for j in range(n)] for i in range(m)]
            c = [Poly.sym("c%d" % i) for i in range(m)]

            def affine(ex_, st_, ctx, args, kwargs, M=M, c=c, m=m, n=n):
                y = args[0]
                return ConcVec([sum((M[i][j] * y.items[j] for j in range(n)), c[i]) for i in range(m)])
            ex.call_hooks["ufunc:aff"] = affine
            st = State()
            selfobj = st.new_obj("JacobianWrapper", fields=dict(rhs=UFunc("aff", "opaque"), adaptive=True, flat=flat,
                                                             nodal_points=ConcVec(nodes), weights=ConcVec(constrained_weights(nodes))))
            y = ConcVec([Poly.sym("y%d" % j) for j in range(n)])
            ctx = Ctx(fi, None, fi.cls, tag="JacobianWrapper.estimate[base_order=%d,%dx%d,flat=%s]" % (bo, m, n, flat))
            paths = ex.call_function(fi, [selfobj, y], dict(dy=Poly.sym("dy")), st, ctx)
            tag = pre + "estimate[%dx%d,flat=%s]/" % (m, n, flat)
            if len(paths) != 1 or isinstance(paths[0][1], Raised):
                reg.undecided(tag + "single-path", "unsupported", "estimate", "paths=%d" % len(paths))
                continue
            s, v = paths[0]
            if (m, n) == (1, 1) and flat:
                ok = v == M[0][0]
            else:
                rows = s.obj(v).items if isinstance(v, Ref) else None
                ok = rows is not None and all(rows[i][j] == M[i][j] for i in range(m) for j in range(n))
            reg.ground(tag + "affine-exact-and-layout", "post", "JacobianWrapper.estimate", bool(ok), backend="poly-exact",
                       detail="for f(y) = M y + c the estimate is exactly M, entry [i, j] = d f_i / d y_j, for every y, dy, every stencil with sum w = 0, sum w x = 1")


def check_converged(reg, src, R):
    """JacobianWrapper.check_converged(initial_state, diff, prev_error): the error estimate is max_i |diff_i| and the
    extrapolation is declared converged exactly when it is not (above tolerance and still decreasing)."""
    import z3
    from pyvc.values import to_bool
    fi = src.func(FU, "JacobianWrapper.check_converged")
    R.under_contract(fi)
    ex = Executor(src, reg, prop=PID)
    st = State()
    atol, rtol, prev = z3.Real("atol"), z3.Real("rtol"), z3.Real("prev_error")
    st.assume(atol > 0)
    st.assume(rtol > 0)
    selfobj = st.new_obj("JacobianWrapper", fields=dict(atol=atol, rtol=rtol))
    d = [z3.Real("d0"), z3.Real("d1"), z3.Real("d2")]
    x = [z3.Real("x0"), z3.Real("x1"), z3.Real("x2")]
    ctx = Ctx(fi, None, fi.cls, tag="JacobianWrapper.check_converged")
    paths = ex.call_function(fi, [selfobj, ConcVec(x), ConcVec(d), prev], {}, st, ctx)
    absd = [z3.If(v >= 0, v, -v) for v in d]
    err = absd[0]
    for v in absd[1:]:
        err = z3.If(v > err, v, err)
    tol = [atol + rtol * z3.If(v >= 0, v, -v) for v in x]
    rel = tol[0]
    for v in tol[1:]:
        rel = z3.If(v > rel, v, rel)
    for k, (s, v) in enumerate(paths):
        e, conv = v
        cb = to_bool(conv) if not isinstance(conv, bool) else z3.BoolVal(conv)
        ex.prove(s, ctx, e == err, "post", "error-estimate-is-max-abs-diff#%d" % k)
        ex.prove(s, ctx, cb == z3.Not(z3.And(err > rel, err < prev)), "post", "converged-iff-below-tolerance-or-stalled#%d" % k)


def check_richardson(reg, src, R):
    """JacobianWrapper.richardson / adaptive_richardson / __call__ on an affine map: `estimate` is replaced by the contract proved above
    (exactly M, whatever the step), and the real extrapolation code must hand back exactly M again -- the Aitken-Neville combinations
    have weights summing to one and never divide by zero -- for every number of Richardson levels the constructor can produce, adaptive or
    not.  The Jacobian is carried as the flat vector of its entries (the extrapolation is element-wise)."""
    import z3
    from pyvc.values import Opaque
    names = ("JacobianWrapper.richardson", "JacobianWrapper.adaptive_richardson", "JacobianWrapper.__call__")
    for q in names:
        R.under_contract(src.func(FU, q))
    M = ConcVec([Poly.sym("M%d" % k) for k in range(4)])
    for base_order in (2, 5):
        for iters in sorted({0, 1, 2, 3, 5, 16 - base_order}):
            for adaptive in (True, False):
                ex = Executor(src, reg, prop=PID)
                ex.inline.update(["JacobianWrapper.richardson", "JacobianWrapper.adaptive_richardson", "JacobianWrapper.check_converged"])
                calls = []

                def estimate(ex_, st_, ctx, args, kwargs):
                    calls.append(kwargs.get("dy"))
                    return M
                ex.call_hooks["JacobianWrapper.estimate"] = estimate
                st = State()
                atol, rtol = z3.Real("atol"), z3.Real("rtol")
                st.assume(atol > 0)
                st.assume(rtol > 0)
                selfobj = st.new_obj("JacobianWrapper", fields=dict(rhs=UFunc("aff", "opaque"), base_order=base_order, richardson_iter=iters, order=base_order + iters,
                                                                 adaptive=adaptive, flat=False, atol=atol, rtol=rtol))
                fields0 = dict(st.obj(selfobj).fields)
                fi = src.func(FU, "JacobianWrapper.__call__")
                tag = "JacobianWrapper.__call__[base_order=%d,levels=%d,%s]" % (base_order, iters, "adaptive" if adaptive else "fixed")
                ctx = Ctx(fi, None, fi.cls, tag=tag)
                y = ConcVec([Poly.sym("y0"), Poly.sym("y1")])
                try:
                    paths = ex.call_function(fi, [selfobj, y], {}, st, ctx)
                except Unsupported as e:
                    reg.undecided("%s/%s/executes" % (PID, tag), "unsupported", "JacobianWrapper.__call__", str(e))
                    continue
                pre = "%s/%s/" % (PID, tag)
                ok_paths = [(s, v) for s, v in paths if not isinstance(v, Raised)]
                reg.ground(pre + "returns", "post", "JacobianWrapper.__call__", len(ok_paths) == len(paths) >= 1, backend="symbolic-exec",
                           detail="%d paths, %d raising: %r" % (len(paths), len(paths) - len(ok_paths), [v.exc for s, v in paths if isinstance(v, Raised)][:2]))
                for k, (s, v) in enumerate(ok_paths):
                    reg.ground(pre + "affine-exact-after-extrapolation#%d" % k, "post", "JacobianWrapper.__call__", isinstance(v, ConcVec) and list(v.items) == list(M.items),
                               backend="poly-exact", detail="every estimate is M => the extrapolated value is M (combination weights sum to one, denominators non-zero); %d estimates used" % len(calls))
                    f = s.obj(selfobj).fields
                    extra = sorted(set(f) - set(fields0) - {"order"})
                    reg.ground(pre + "wrapper-settings-untouched#%d" % k, "frame", "JacobianWrapper.__call__",
                               f.get("base_order") == base_order and f.get("richardson_iter") == iters and f.get("adaptive") is adaptive and f.get("rhs") is not None and not extra,
                               backend="symbolic-exec", detail="only `order` (a report of the levels used) may change; nothing is kept on the wrapper from one evaluation to the next: attributes written %r" % (extra,))


def check_estimate_frame(reg, src, R):
    """JacobianWrapper.estimate keeps no state: it reads the wrapper's settings and writes no attribute of the wrapper -- nothing an earlier
    evaluation (another point, another shape, another time) computed can reach a later one through the wrapper."""
    import ast
    fi = src.func(FU, "JacobianWrapper.estimate")
    stores = []
    for n in ast.walk(fi.node):
        if isinstance(n, ast.Attribute) and isinstance(n.value, ast.Name) and n.value.id == "self" and isinstance(n.ctx, (ast.Store, ast.Del)):
            stores.append("line %d: self.%s" % (n.lineno, n.attr))
        if isinstance(n, ast.Subscript) and isinstance(n.ctx, ast.Store) and isinstance(n.value, ast.Attribute) and isinstance(n.value.value, ast.Name) and n.value.value.id == "self":
            stores.append("line %d: self.%s[...]" % (n.lineno, n.value.attr))
        if isinstance(n, ast.Call) and isinstance(n.func, ast.Name) and n.func.id == "setattr":
            stores.append("line %d: setattr(...)" % n.lineno)
    reg.ground(PID + "/JacobianWrapper.estimate/writes-no-attribute-of-the-wrapper", "frame", "JacobianWrapper.estimate", not stores, backend="ast-frame",
               detail="attribute stores in estimate: %r" % (stores,))
