"""Finite-difference part of C16: JacobianWrapper.estimate on an affine map, symbolic stencil.

`estimate` is executed symbolically for f(y) = M y + c (M, c, y, dy symbolic) with the node positions the real
get_finite_difference_weights returns and *symbolic* weights constrained by the two moment conditions
sum w_k = 0 and sum w_k x_k = 1 (substituted, so they hold identically).  Result: every column idx of the returned array is
M e_idx -- exact for affine maps, entry [i, j] = d f_i / d y_j.  The real weights are checked against the two moment conditions
as ground obligations (exact rational arithmetic, derived rounding slack).
"""
from fractions import Fraction

from pyvc.executor import Executor, State, Ctx, Raised, Unsupported
from pyvc.values import Poly, ConcVec, UFunc, Ref
from tabinv.order import ULP_SLACK
from . import common

PID = "C16"
FU = "desolver/utilities/utilities.py"


def constrained_weights(nodes):
    n = len(nodes)
    w = [None] * n
    free = [Poly.sym("w%d" % k) for k in range(n)]
    # sum_k w_k (x_k - x_0) = 1  ->  w_1
    rest = Poly.const(0)
    for k in range(2, n):
        rest = rest + free[k] * (nodes[k] - nodes[0])
        w[k] = free[k]
    w[1] = (Poly.const(1) - rest).div_const(nodes[1] - nodes[0])
    w[0] = Poly.const(0)
    for k in range(1, n):
        w[0] = w[0] - w[k]
    return w


def check_estimate(reg, src, R):
    nat = common.run_native("monitor/native_c16.py", dict(mode="stencils"))
    fi = src.func(FU, "JacobianWrapper.estimate")
    R.under_contract(fi)
    for st_info in nat["stencils"]:
        bo = st_info["base_order"]
        nodes = [Fraction(float.fromhex(x)) for x in st_info["nodes"]]
        wts = [Fraction(float.fromhex(x)) for x in st_info["weights"]]
        pre = "%s/JacobianWrapper[base_order=%d]/" % (PID, bo)
        s0 = sum(wts)
        s1 = sum(w * x for w, x in zip(wts, nodes))
        sl = 8 * len(wts) * ULP_SLACK * (sum(abs(w) for w in wts) + 1)
        reg.ground(pre + "stencil-moment-0", "class-invariant", "get_finite_difference_weights", abs(s0) <= sl, detail="sum w = %.3g (slack %.3g)" % (float(s0), float(sl)))
        reg.ground(pre + "stencil-moment-1", "class-invariant", "get_finite_difference_weights", abs(s1 - 1) <= sl, detail="sum w x - 1 = %.3g" % float(s1 - 1))
        for (m, n), flat in (((2, 2), False), ((3, 2), False), ((1, 1), True), ((2, 3), True)):
            ex = Executor(src, reg, prop=PID)
            M = [[Poly.sym("M%d%d" % (i, j)) for j in range(n)] for i in range(m)]
            c = [Poly.sym("c%d" % i) for i in range(m)]

            def affine(ex_, st_, ctx, args, kwargs, M=M, c=c, m=m, n=n):
                y = args[0]
                return ConcVec([sum((M[i][j] * y.items[j] for j in range(n)), c[i]) for i in range(m)])
            ex.call_hooks["ufunc:aff"] = affine
            st = State()
            selfobj = st.new_obj("JacobianWrapper", fields=dict(rhs=UFunc("aff", "opaque"), adaptive=True, flat=flat,
                                                             nodal_points=ConcVec(nodes), weights=ConcVec(constrained_weights(nodes))))
            y = ConcVec([Poly.sym("y%d" % j) for j in range(n)])
            ctx = Ctx(fi, None, fi.cls, tag="JacobianWrapper.estimate[base_order=%d,%dx%d,flat=%s]" % (bo, m, n, flat))
            paths = ex.call_function(fi, [selfobj, y], dict(dy=Poly.sym("dy")), st, ctx)
            tag = pre + "estimate[%dx%d,flat=%s]/" % (m, n, flat)
            if len(paths) != 1 or isinstance(paths[0][1], Raised):
                reg.undecided(tag + "single-path", "unsupported", "estimate", "paths=%d" % len(paths))
                continue
            s, v = paths[0]
            if (m, n) == (1, 1) and flat:
                ok = v == M[0][0]
            else:
                rows = s.obj(v).items if isinstance(v, Ref) else None
                ok = rows is not None and all(rows[i][j] == M[i][j] for i in range(m) for j in range(n))
            reg.ground(tag + "affine-exact-and-layout", "post", "JacobianWrapper.estimate", bool(ok), backend="poly-exact",
                       detail="for f(y) = M y + c the estimate is exactly M, entry [i, j] = d f_i / d y_j, for every y, dy, every stencil with sum w = 0, sum w x = 1")


def check_converged(reg, src, R):
    """JacobianWrapper.check_converged(initial_state, diff, prev_error): the error estimate is max_i |diff_i| and the
    extrapolation is declared converged exactly when it is not (above tolerance and still decreasing)."""
    import z3
    from pyvc.values import to_bool
    fi = src.func(FU, "JacobianWrapper.check_converged")
    R.under_contract(fi)
    ex = Executor(src, reg, prop=PID)
    st = State()
    atol, rtol, prev = z3.Real("atol"), z3.Real("rtol"), z3.Real("prev_error")
    st.assume(atol > 0)
    st.assume(rtol > 0)
    selfobj = st.new_obj("JacobianWrapper", fields=dict(atol=atol, rtol=rtol))
    d = [z3.Real("d0"), z3.Real("d1"), z3.Real("d2")]
    x = [z3.Real("x0"), z3.Real("x1"), z3.Real("x2")]
    ctx = Ctx(fi, None, fi.cls, tag="JacobianWrapper.check_converged")
    paths = ex.call_function(fi, [selfobj, ConcVec(x), ConcVec(d), prev], {}, st, ctx)
    absd = [z3.If(v >= 0, v, -v) for v in d]
    err = absd[0]
    for v in absd[1:]:
        err = z3.If(v > err, v, err)
    tol = [atol + rtol * z3.If(v >= 0, v, -v) for v in x]
    rel = tol[0]
    for v in tol[1:]:
        rel = z3.If(v > rel, v, rel)
    for k, (s, v) in enumerate(paths):
        e, conv = v
        cb = to_bool(conv) if not isinstance(conv, bool) else z3.BoolVal(conv)
        ex.prove(s, ctx, e == err, "post", "error-estimate-is-max-abs-diff#%d" % k)
        ex.prove(s, ctx, cb == z3.Not(z3.And(err > rel, err < prev)), "post", "converged-iff-below-tolerance-or-stalled#%d" % k)
