"""C02 -- one step equals the Runge-Kutta update defined by the method's coefficients.

E1 in the LinComb domain (free vector space over uninterpreted rhs applications): the real `compute_step`,
`RungeKuttaIntegrator.step`, `algebraic_system`, `ExplicitSymplecticIntegrator.step` are executed symbolically for
every shipped table (loops over the concrete number of stages are unrolled: a loop-free harness over symbolic
(t, y, h) and an uninterpreted right-hand side is a complete proof for that configuration) and compared with an
independently written specification of the Runge-Kutta / drift-kick formulas.  `RungeKuttaIntegrator.__call__` is
executed over its control skeleton to show that an unconverged implicit step is never returned.
"""
from fractions import Fraction
import os
import z3

from pyvc import source, solver
from pyvc.executor import Executor, State, Ctx, Raised, Unsupported
from pyvc.values import LinComb, Poly, UFunc, TabVal, ConcVec, BlockVec, Opaque, Ref, fresh_name
from tabinv import order as O
from . import common, e2common

PID = "C02"
FT = "desolver/integrators/integrator_types.py"
FC = "desolver/integrators/components/runge_kutta_methods.py"


def tab(hex_rows):
    return TabVal(O.frac_table(hex_rows))


def new_stage_array(st, n, prefix="stale"):
    return st.new_obj("stages", "stages", items=[LinComb.sym("%s%d" % (prefix, i)) for i in range(n)])


def has_stale(v):
    """Does a LinComb (recursively through rhs arguments) mention a stale stage atom?"""
    memo = {}

    def atom_stale(a):
        if a.key[0] == "sym":
            return a.key[1].startswith("stale")
        if a.id not in memo:
            memo[a.id] = False
            memo[a.id] = any(arg_stale(x) for x in a.key[2:])
        return memo[a.id]

    def arg_stale(x):
        if isinstance(x, LinComb):
            return any(atom_stale(a) for a in x.terms)
        if isinstance(x, BlockVec):
            return any(arg_stale(b) for b in x.blocks)
        if isinstance(x, tuple):
            return any(arg_stale(y) for y in x)
        return False
    return arg_stale(v)


def rk_spec(T, b, t, y, h, explicit):
    """Independent specification: k_i = f(t + c_i h, y + h sum_j a_ij k_j) for explicit rows (j < i)."""
    n = len(T.rows)
    k = []
    for i in range(n):
        acc = LinComb.zero()
        for j in range(i):
            acc = acc + k[j].scale(h * T.rows[i][1 + j])
        k.append(LinComb.app("rhs", t + h * T.rows[i][0], y + acc))
    dstate = LinComb.zero()
    for i in range(n):
        dstate = dstate + k[i].scale(h * b[i])
    return k, dstate


def explicit_rows(T):
    return [i for i, row in enumerate(T.rows) if all(x == 0 for x in row[1 + i:])]


def make_executor(src, reg):
    ex = Executor(src, reg, prop=PID)
    ex.inline.update(["compute_step"])
    ex.inline_private_methods = True
    return ex


def check_compute_step(ex, reg, src, name, T):
    fi = src.func(FC, "compute_step")
    st = State()
    n = len(T.rows)
    stages = new_stage_array(st, n)
    t, h, y = Poly.sym("t"), Poly.sym("h"), LinComb.sym("y")
    consts = st.new_obj("dict", "dict", items={})
    ctx = Ctx(fi, None, None, tag="compute_step[%s]" % name)
    paths = ex.call_function(fi, [UFunc("rhs", "lincomb"), t, y, h, stages, stages, T, consts], {}, st, ctx)
    pre = "%s/compute_step[%s]/" % (PID, name)
    if len(paths) != 1 or isinstance(paths[0][1], Raised):
        reg.undecided(pre + "single-path", "unsupported", "compute_step", "%d paths" % len(paths))
        return
    s, (out, dstate, last_rhs) = paths[0]
    items = s.obj(out).items if isinstance(out, Ref) else list(out.items)
    ks, _ = rk_spec(T, [0] * n, t, y, h, True)
    expl = explicit_rows(T)
    fully_explicit = len(expl) == n
    bad = [i for i in expl if fully_explicit and items[i] != ks[i]]
    reg.ground(pre + "stage-equation", "post", "compute_step", not bad and out == stages, backend="lincomb-exact",
               detail="explicit table: out[..., i] == rhs(t + c_i h, y + h sum_{j<i} a_ij out[..., j]) for all %d stages; failing stages %r" % (n, bad) if fully_explicit
               else "implicit table (%d of %d rows explicit): compute_step only supplies the initial guess" % (len(expl), n))
    if fully_explicit:
        reg.ground(pre + "stale-columns-unread", "frame", "compute_step", not any(has_stale(x) for x in items) and not has_stale(dstate),
                   backend="lincomb-exact", detail="no value left in the stage buffer by an earlier call enters any stage of this call")
        last = LinComb.zero()
        for j in range(n - 1):
            last = last + ks[j].scale(h * T.rows[n - 1][1 + j])
        reg.ground(pre + "returns-last-row", "post", "compute_step", dstate == last and last_rhs == ks[n - 1], backend="lincomb-exact",
                   detail="returned (intermediate_dstate, intermediate_rhs) are those of the last table row")
    writes = s.ghost.get("stage_writes", [])
    reg.ground(pre + "frame-one-column-per-stage", "frame", "compute_step", [w[1] for w in writes] == list(range(n)), backend="lincomb-exact",
               detail="stage writes in order: %r" % ([w[1] for w in writes],))


def make_rk_self(st, m, T, Tf, extra=None, sd_keys=()):
    n = len(T.rows)
    items = dict(tau1=Poly.sym("tau1"), niter1=0, newton_prec1=Poly.sym("np1"), newton_iterations=32)
    for k in sd_keys:
        # whatever else the real constructor puts into solver_dict holds an arbitrary value left by earlier steps
        items.setdefault(k, Opaque("stale_" + k))
    sd = st.new_obj("dict", "dict", items=items)
    fields = dict(stage_values=new_stage_array(st, n), tableau_intermediate=T, tableau_final=Tf, atol=Poly.sym("atol"), rtol=Poly.sym("rtol"),
                  solver_dict=sd, _explicit=m["derived"]["explicit"], _fsal=m["derived"]["fsal"], _adaptive=m["derived"]["adaptive"],
                  _adaptivity_enabled=False, numel=2, initial_rhs=LinComb.sym("cached_initial_rhs"), final_rhs=None,
                  dTime=None, dState=None, _requires_high_precision=False)
    fields["_RungeKuttaIntegrator__rhs_jac"] = Opaque("rhs_jac")
    if extra:
        fields.update(extra)
    return st.new_obj("RungeKuttaIntegrator", fields=fields)


def check_rk_step(ex, reg, src, name, m, sd_keys=()):
    T, Tf = tab(m["tableau_intermediate"]), tab(m["tableau_final"])
    n = len(T.rows)
    b = list(Tf.rows[0][1:])
    fi = src.func(FT, "RungeKuttaIntegrator.step")
    st = State()
    selfobj = make_rk_self(st, m, T, Tf, sd_keys=[k for k in sd_keys if k not in ("newton_iteration_success",)])
    t, h, y = Poly.sym("t"), Poly.sym("h"), LinComb.sym("y")
    consts = st.new_obj("dict", "dict", items={})
    implicit = not m["derived"]["explicit"]
    calls = []

    def nl_roots(ex_, st_, ctx, args, kwargs):
        # assumed contract of nonlinear_roots (A6; its own behaviour is C15): returns (root, (success, niter, nfev, njev, prec))
        root = st_.new_obj("stages", "stages", items=[LinComb.sym("K%d" % i) for i in range(n)])
        succ, prec = z3.Bool(fresh_name("nl_success")), Opaque("prec")
        calls.append(dict(f=args[0], x0=args[1], kwargs=kwargs, root=root, success=succ, prec=prec))
        return (root, (succ, 5, 0, 0, prec))

    ex.call_hooks["nonlinear_roots"] = nl_roots
    ctx = Ctx(fi, None, fi.cls, tag="RungeKuttaIntegrator.step[%s]" % name)
    paths = ex.call_function(fi, [selfobj, UFunc("rhs", "lincomb"), t, y, consts, h], {}, st, ctx)
    pre = "%s/step[%s]/" % (PID, name)
    normal = [(s, v) for s, v in paths if not isinstance(v, Raised)]
    if not normal:
        reg.undecided(pre + "paths", "unsupported", "step", "no normal path")
        return
    flags0 = {f: st.obj(selfobj).fields.get(f) for f in ("_explicit", "_fsal", "_adaptive", "_adaptivity_enabled", "tableau_intermediate", "tableau_final", "atol", "rtol")}
    for k, (s, v) in enumerate(normal):
        ts, (dTime, dState) = v
        o = s.obj(selfobj)
        suffix = "" if len(normal) == 1 else "#path%d" % k
        if isinstance(dState, Opaque) or isinstance(dTime, Opaque):
            # the increment went through an operation the executor does not model: nothing can be said (never a violation)
            reg.undecided(pre + "dState-formula" + suffix, "unsupported", "step", "the returned increment is an unmodelled value (%r)" % (dState,))
            continue
        reg.ground(pre + "frame-flags-tables-and-tolerances-untouched" + suffix, "frame", "step", all(o.fields.get(f) is flags0[f] or o.fields.get(f) == flags0[f] for f in flags0), backend="symbolic-exec",
                   detail="step() leaves _explicit, _fsal, _adaptive, _adaptivity_enabled, the tables and atol / rtol as they were (the retry logic of __call__ relies on it)")
        if not implicit:
            ks, spec = rk_spec(T, b, t, y, h, True)
            reg.ground(pre + "dState-formula" + suffix, "post", "step", dState == spec and o.fields["dState"] == spec, backend="lincomb-exact",
                       detail="dState == h*sum_i b_i k_i with k_i = rhs(t + c_i h, y + h sum_{j<i} a_ij k_j), b = tableau_final[0,1:]%s" % (
                           " (FSAL branch: needs tableau_intermediate[-1,1:] == b)" if m["derived"]["fsal"] else ""))
            reg.ground(pre + "dTime-is-timestep" + suffix, "post", "step", dTime == h and ts == h, backend="lincomb-exact")
            reg.ground(pre + "final-rhs-at-step-end" + suffix, "post", "step", o.fields["final_rhs"] == LinComb.app("rhs", t + h, y + spec),
                       backend="lincomb-exact", detail="final_rhs == rhs(t + dTime, y + dState)%s" % (" (FSAL branch: needs c_last == 1)" if m["derived"]["fsal"] else ""))
            reg.ground(pre + "stale-stage-values-unread" + suffix, "frame", "step", not has_stale(dState) and not has_stale(o.fields["final_rhs"]), backend="lincomb-exact")
        else:
            K = [LinComb.sym("K%d" % i) for i in range(n)]
            spec = LinComb.zero()
            for i in range(n):
                spec = spec + K[i].scale(h * b[i])
            c = calls[-1] if calls else None
            reg.ground(pre + "stage-values-are-solver-root" + suffix, "post", "step", c is not None and list(s.obj(o.fields["stage_values"]).items) == K
                       if isinstance(o.fields["stage_values"], Ref) else (c is not None and list(o.fields["stage_values"].items) == K), backend="lincomb-exact",
                       detail="stage_values == reshape(root returned by nonlinear_roots)")
            reg.ground(pre + "dState-formula" + suffix, "post", "step", dState == spec, backend="lincomb-exact", detail="dState == h*sum_i b_i K_i")
            reg.ground(pre + "dTime-is-timestep" + suffix, "post", "step", dTime == h, backend="lincomb-exact")
            reg.ground(pre + "final-rhs-at-step-end" + suffix, "post", "step", o.fields["final_rhs"] == LinComb.app("rhs", t + h, y + spec), backend="lincomb-exact")
            # the solver is handed the defining stage system and the tolerance-checked flag is what the caller sees
            ok_f = c is not None and getattr(c["f"], "name", None) == "algebraic_system"
            reg.ground(pre + "solver-called-on-stage-system" + suffix, "pre@callsite", "step", ok_f and "additional_args" in c["kwargs"], backend="syntactic",
                       detail="nonlinear_roots(self.algebraic_system, ..., additional_args=(rhs, t, y, h, constants))")
            # the tolerance the stage system is solved to (and the acceptance test compares with) is computed from this call's state and the
            # integrator's atol / rtol -- not from anything an earlier step left behind (data-flow clause over the unmodelled norms)
            from pyvc.values import deps_of
            tol_deps = deps_of(c["kwargs"].get("tol")) if c is not None else None
            if tol_deps is None:
                reg.undecided(pre + "solver-tolerance-is-a-function-of-this-step" + suffix, "post", "step", "dependencies of the tolerance expression are not tracked: %r" % (c["kwargs"].get("tol") if c else None,))
            else:
                reg.ground(pre + "solver-tolerance-is-a-function-of-this-step" + suffix, "post", "step", tol_deps <= {"atol", "rtol", "y"} and {"rtol", "y"} <= tol_deps, backend="dataflow",
                           detail="tol handed to nonlinear_roots depends on %r (allowed: atol, rtol and the state of this call)" % (sorted(tol_deps),))
            flag = s.obj(o.fields["solver_dict"]).items.get("newton_iteration_success")
            # flag must imply the solver's own success flag (so success => solver claims |F| <= tol, C15) and the prec < tol test
            okflag = False
            if c is not None and z3.is_expr(flag):
                sol = z3.Solver()
                sol.add(flag, z3.Not(c["success"]))
                okflag = sol.check() == z3.unsat
            # ... and the test `prec < desired_tol` is made between the residual *this* solve reported and the tolerance it was given (not a
            # value an earlier solve left in solver_dict): among the conjuncts of the flag is the comparison of exactly these two objects
            judged = False
            if c is not None and z3.is_expr(flag):
                for name_, (op_, a_, b_) in ex.cmp_log.items():
                    this_pair = (op_ in ("Lt", "LtE") and a_ is c["prec"] and b_ is c["kwargs"].get("tol")) or (op_ in ("Gt", "GtE") and b_ is c["prec"] and a_ is c["kwargs"].get("tol"))
                    if this_pair:
                        sol = z3.Solver()
                        sol.add(flag, z3.Not(z3.Bool(name_)))
                        judged = judged or sol.check() == z3.unsat
            reg.ground(pre + "success-flag-implies-this-solve-met-its-tolerance" + suffix, "post", "step", judged, backend="z3+dataflow",
                       detail="solver_dict['newton_iteration_success'] => (prec returned by this call of nonlinear_roots) < (tol handed to it)")
            reg.ground(pre + "success-flag-implies-solver-success" + suffix, "post", "step", okflag, backend="z3",
                       detail="solver_dict['newton_iteration_success'] => nonlinear_roots success (and the prec < desired_tol test)")
    return selfobj


def check_algebraic_system(ex, reg, src, name, m, plain_fields=None):
    T, Tf = tab(m["tableau_intermediate"]), tab(m["tableau_final"])
    n = len(T.rows)
    fi = src.func(FT, "RungeKuttaIntegrator.algebraic_system")
    st = State()
    selfobj = make_rk_self(st, m, T, Tf)
    if plain_fields is None:
        # called from another property's check: the constructor is executed here only to learn which plain fields it creates
        try:
            from . import ctor
            plain_fields = ctor.check_rk_init(solver.Registry(), src, PID, name, m).get("plain_fields")
        except Exception:
            plain_fields = None
    for k_, v_ in (plain_fields or {}).items():
        st.obj(selfobj).fields.setdefault(k_, v_)
    K = ConcVec([LinComb.sym("K%d" % i) for i in range(n)])
    t, h, y = Poly.sym("t"), Poly.sym("h"), LinComb.sym("y")
    consts = st.new_obj("dict", "dict", items={})
    ctx = Ctx(fi, None, fi.cls, tag="algebraic_system[%s]" % name)
    paths = ex.call_function(fi, [selfobj, K, UFunc("rhs", "lincomb"), t, y, h, consts], {}, st, ctx)
    pre = "%s/algebraic_system[%s]/" % (PID, name)
    want = []
    for i in range(n):
        acc = LinComb.zero()
        for j in range(n):
            acc = acc + K.items[j].scale(h * T.rows[i][1 + j])
        want.append(K.items[i] - LinComb.app("rhs", t + h * T.rows[i][0], y + acc))
    if not paths:
        reg.undecided(pre + "paths", "unsupported", "algebraic_system", "no path")
    for k, (s_, res) in enumerate(paths):
        got = list(res.items) if isinstance(res, ConcVec) else None
        reg.ground(pre + "defining-stage-system" + ("#path%d" % k if len(paths) > 1 else ""), "post", "algebraic_system", (not isinstance(res, Raised)) and got == want, backend="lincomb-exact",
                   detail="F(K)_i == K_i - rhs(t + c_i h, y + h sum_j a_ij K_j) for all %d stages (fully implicit sum over all j), on every path" % n)
        if isinstance(res, Raised):
            continue
        # ... and again on the same object with another step size, time, state and stage values: the residual is that of the *second* call's
        # arguments (nothing the first evaluation left on the object -- scaled coefficients, stage states -- enters it)
        K2 = ConcVec([LinComb.sym("L%d" % i) for i in range(n)])
        t2, h2, y2 = Poly.sym("t2"), Poly.sym("h2"), LinComb.sym("y2")

        def spec2(t_, h_):
            out = []
            for i in range(n):
                acc = LinComb.zero()
                for j in range(n):
                    acc = acc + K2.items[j].scale(h_ * T.rows[i][1 + j])
                out.append(K2.items[i] - LinComb.app("rhs", t_ + h_ * T.rows[i][0], y2 + acc))
            return out
        want2 = spec2(t2, h2)

        def agrees(s2, got2):
            # equality of residual vectors is decided syntactically (exact polynomial identity); on a path whose condition identifies the
            # second call's step size or time with the first's (a cache keyed on *exact* equality is correct), compare modulo that identity
            if got2 == want2:
                return True
            sol = z3.Solver()
            sol.add(*[c for c in s2.pc if z3.is_expr(c)])
            same = {}
            for a_, b_ in ((h2, h), (t2, t)):
                sol.push()
                sol.add(a_.to_z3() != b_.to_z3())
                same[a_] = sol.check() == z3.unsat
                sol.pop()
            return any(same.values()) and got2 == spec2(t if same[t2] else t2, h if same[h2] else h2)
        saved, ex.opaque_nondet = getattr(ex, "opaque_nondet", False), True
        try:
            again = ex.call_function(fi, [selfobj, K2, UFunc("rhs", "lincomb"), t2, y2, h2, consts], {}, s_.fork(), ctx)
        finally:
            ex.opaque_nondet = saved
        for k2, (s2, res2) in enumerate(again):
            got2 = list(res2.items) if isinstance(res2, ConcVec) else None
            reg.ground(pre + "second-evaluation-on-the-same-object-uses-its-own-arguments#%d.%d" % (k, k2), "post", "algebraic_system", got2 is not None and agrees(s2, got2), backend="lincomb-exact",
                       detail="after F(K; t, y, h) the same object evaluates F(L; t2, y2, h2) == L_i - rhs(t2 + c_i h2, y2 + h2 sum_j a_ij L_j)")


def check_call_skeleton(ex, reg, src, implicit, adaptive):
    """RungeKuttaIntegrator.__call__ over its control skeleton: `step`, `update_timestep`, `get_error_estimate` replaced by
    havocking stubs that set the Newton flag nondeterministically.  Obligation: on every normal return of an implicit
    method the last executed step had newton_iteration_success true; every retry is issued with min(new, old) step."""
    fi = src.func(FT, "RungeKuttaIntegrator.__call__")
    ex.fork_unrolled_guards = True          # a retry loop written as `while <symbolic verdict> and <concrete counter test>` is followed on both outcomes
    st = State()
    sd = st.new_obj("dict", "dict", items=dict(redo_count=0, num_step_retries=2))
    keep = frozenset(["redo_count", "num_step_retries", "safety_factor", "order", "atol", "rtol"])
    fields = dict(solver_dict=sd, solver_dict_keep_keys=keep, final_rhs=None, _explicit=not implicit, _fsal=False, _adaptive=adaptive, _adaptivity_enabled=False,
                  stage_values=Opaque("sv"), atol=Opaque("atol"), rtol=Opaque("rtol"), dTime=None, dState=None, _requires_high_precision=False,
                  initial_state=None, initial_time=None, initial_rhs=None)
    fields["_RungeKuttaIntegrator__rhs_jac"] = Opaque("jac")
    selfobj = st.new_obj("RungeKuttaIntegrator", fields=fields)
    steps = []

    def step_stub(ex_, st_, ctx, args, kwargs):
        flag = z3.Bool(fresh_name("newton_ok"))
        st_.obj(st_.obj(args[0]).fields["solver_dict"]).items["newton_iteration_success"] = flag
        st_.ghost["last_newton"] = flag
        st_.ghost["n_steps"] = st_.ghost.get("n_steps", 0) + 1
        ts = args[5]
        st_.ghost.setdefault("step_sizes", []).append(ts)
        return (ts, (ts, LinComb.sym("dState%d" % st_.ghost["n_steps"])))

    def upd_stub(ex_, st_, ctx, args, kwargs):
        return (z3.Real(fresh_name("new_dt")), z3.Bool(fresh_name("redo")))

    ex.call_hooks["RungeKuttaIntegrator.step"] = step_stub
    ex.call_hooks["RungeKuttaIntegrator.update_timestep"] = upd_stub
    ex.call_hooks["RungeKuttaIntegrator.get_error_estimate"] = lambda ex_, st_, ctx, args, kwargs: Opaque("err")
    ctx = Ctx(fi, None, fi.cls, tag="RungeKuttaIntegrator.__call__[%s]" % ("implicit" if implicit else ("adaptive" if adaptive else "explicit-fixed")))
    h = z3.Real("h0")
    consts = st.new_obj("dict", "dict", items={})
    rhs = UFunc("rhs", "lincomb")
    paths = ex.call_function(fi, [selfobj, rhs, Poly.sym("t"), LinComb.sym("y"), consts, h], {}, st, ctx)
    pre = "%s/__call__[%s]/" % (PID, ctx.tag.split("[")[1][:-1])
    n_ret = n_raise = 0
    for k, (s, v) in enumerate(paths):
        if isinstance(v, Raised):
            n_raise += 1
            continue
        n_ret += 1
        if implicit:
            flag = s.ghost.get("last_newton")
            ex.prove(s, ctx, flag if flag is not None else False, "post", "unconverged-never-returned#path%d" % k)
        if not implicit and not adaptive:
            ts = v[0]
            ex.prove(s, ctx, ts == h, "post", "fixed-step-returns-requested-timestep#path%d" % k)
    reg.ground(pre + "paths-explored", "cover", "__call__", n_ret >= 1, detail="%d returning paths, %d raising paths (FailedToMeetTolerances after the retry budget)" % (n_ret, n_raise))
    reg.obligations[-1].expect = "unsat"
    return fi


def check_splitting(ex, reg, src, name, m, separable=False):
    T = tab(m["tableau_intermediate"])
    n = len(T.rows)
    fi = src.func(FT, "ExplicitSymplecticIntegrator.step")
    st = State()
    one, zero = Poly.const(1), Poly.const(0)
    t, h = Poly.sym("t"), Poly.sym("h")
    # the integrator object is in an arbitrary earlier state: whatever it cached at the end of a previous call (slopes, end time -- here
    # adversarially *equal* to this call's start time --, end state of another trajectory) must not enter this step
    fields = dict(tableau_intermediate=T, dState=BlockVec([LinComb.sym("stale_q"), LinComb.sym("stale_p")]), dTime=None, initial_rhs=None,
                  drift_mask=BlockVec([one, zero]), kick_mask=BlockVec([zero, one]),
                  final_rhs=BlockVec([LinComb.sym("stale_end_slope_q"), LinComb.sym("stale_end_slope_p")]), final_time=t,
                  final_state=BlockVec([LinComb.sym("other_q"), LinComb.sym("other_p")]), initial_state=None, initial_time=None)
    selfobj = st.new_obj("ExplicitSymplecticIntegrator", fields=fields)
    y = BlockVec([LinComb.sym("q"), LinComb.sym("p")])
    consts = st.new_obj("dict", "dict", items={})
    rhs = UFunc("rhs", "block", attrs=dict(nblocks=2))
    ctx = Ctx(fi, None, fi.cls, tag="ExplicitSymplecticIntegrator.step[%s]" % name)
    ex.annihilations = []
    paths = ex.call_function(fi, [selfobj, rhs, t, y, consts, h], {}, st, ctx)
    zeroed, ex.annihilations = ex.annihilations, None
    pre = "%s/symplectic-step[%s]/" % (PID, name)
    if len(paths) != 1 or isinstance(paths[0][1], Raised):
        reg.undecided(pre + "single-path", "unsupported", "step", "paths=%d" % len(paths))
        return None
    s, v = paths[0]
    dT, (dT2, dS) = v
    # specification: fold over the rows (c, d): kick/drift with coefficients (d on the kick block, c on the drift block),
    # the sub-step's slope evaluated at the state and time reached so far; time advances by the drift coefficient
    cur_t, acc = t, BlockVec([LinComb.zero(), LinComb.zero()])
    for row in T.rows:
        f = BlockVec(LinComb.app("rhs.%d" % k, cur_t, y + acc) for k in range(2))
        acc = BlockVec([acc.blocks[0] + f.blocks[0].scale(h * row[1]), acc.blocks[1] + f.blocks[1].scale(h * row[2])])
        cur_t = cur_t + h * row[1]
    if isinstance(dS, Opaque) or (isinstance(dS, BlockVec) and any(isinstance(b_, Opaque) for b_ in dS.blocks)):
        # the increment went through an operation the executor does not model: nothing can be said (never a violation)
        reg.undecided(pre + "composition-of-drift-and-kick", "unsupported", "step", "the returned increment is an unmodelled value (%r)" % (dS,))
        return None
    reg.ground(pre + "composition-of-drift-and-kick", "post", "step", dS == acc and dT == h and dT2 == h, backend="lincomb-exact",
               detail="dState == fold over the %d table rows of (drift c_i h on the position block, kick d_i h on the momentum block), stage time t + h*sum_{j<i} c_j" % n)
    reg.ground(pre + "stale-dState-unread", "frame", "step", not has_stale(dS), backend="lincomb-exact", detail="`self.dState *= 0.0` clears the previous step's increment")
    # ... and on the float side (below A1): the buffer an earlier call left may hold inf / nan (an overflowing or undefined right-hand side in
    # a rejected or aborted attempt); `x * 0` keeps them, so the old increment must be discarded by a store, not by arithmetic on it
    bad = [ln for x, ln in zeroed if (has_stale(x) if isinstance(x, LinComb) else any(has_stale(b_) for b_ in getattr(x, "blocks", getattr(x, "items", []))))]
    reg.ground(pre + "stale-dState-discarded-not-multiplied-by-zero", "frame", "step", not bad, backend="symbolic-exec (dataflow)",
               detail="lines where a value left by an earlier call is multiplied by the constant 0 (nan * 0 = nan: a non-finite entry survives into this step): %s" % (bad or "none"))
    return dS


def run(tier):
    R = common.Run(PID, "proof", tier)
    R.assume("A1", "A2", "A3", "A5", "A6")
    R.assume("array-valued data live in the free vector space over uninterpreted applications rhs(t, y) (LinComb domain): equality is decided exactly by polynomial identity of coefficients; array shapes/dtypes are not modelled")
    R.assume("the solvers behind nonlinear_roots are external to this property (whether their success means a small residual is C15); what step() relies on -- the reported precision is the residual norm at the returned point, on every branch of the real front end -- is proved in this run")
    R.trust("pyvc executor (A2) and its LinComb/ConcVec/TabVal domains", "tables dumped from the imported classes", "exact Fraction/polynomial arithmetic")
    reg = solver.Registry()
    R.add_registry(reg)
    d = e2common.load_tables(R)
    src = source.load_all()
    for f, q in ((FC, "compute_step"), (FT, "RungeKuttaIntegrator.step"), (FT, "RungeKuttaIntegrator.algebraic_system"),
                 (FT, "RungeKuttaIntegrator.__call__"), (FT, "ExplicitSymplecticIntegrator.step"), (FT, "RungeKuttaIntegrator.__init__"),
                 (FT, "TableauIntegrator.__init__")):
        R.under_contract(src.func(f, q))
    try:
        def part(label, fn):
            # every function of every method is decided on its own: a construct the executor cannot follow in one of them (undecided, named)
            # must not hide what the others find
            try:
                return fn()
            except Unsupported as e:
                reg.undecided("%s/%s/executor-unsupported" % (PID, label), "unsupported", "executor", str(e))
                return None
        for name in d["explicit"] + d["implicit"]:
            m = d["methods"][name]
            if m["kind"] == "rk":
                # the branch flags (_explicit, _fsal, _adaptive) step() dispatches on are the defining predicates of the tables: proved
                # from the real constructor, and equal to what the imported object carries
                from . import ctor
                built = part("__init__[%s]" % name, lambda: ctor.check_rk_init(reg, src, PID, name, m)) or {}
                part("compute_step[%s]" % name, lambda: check_compute_step(make_executor(src, reg), reg, src, name, tab(m["tableau_intermediate"])))
                part("step[%s]" % name, lambda: check_rk_step(make_executor(src, reg), reg, src, name, m, sd_keys=built.get("solver_dict_keys") or ()))
                if not m["derived"]["explicit"]:
                    part("algebraic_system[%s]" % name, lambda: check_algebraic_system(make_executor(src, reg), reg, src, name, m, plain_fields=built.get("plain_fields")))
            else:
                part("symplectic-step[%s]" % name, lambda: check_splitting(make_executor(src, reg), reg, src, name, m))
        from . import intcall
        for implicit, adaptive in ((True, False), (True, True), (False, True), (False, False)):
            lbl = "implicit" if implicit else ("adaptive" if adaptive else "explicit-fixed")
            # each of the two views of the retry logic is decided on its own: a rewrite of the loop that one of them cannot follow
            # (undecided) must not hide what the other one finds
            try:
                ex = make_executor(src, reg)
                check_call_skeleton(ex, reg, src, implicit, adaptive)
            except Unsupported as e:
                reg.undecided("%s/__call__[%s]/unrolled-skeleton-unsupported" % (PID, lbl), "unsupported", "executor", str(e))
            try:
                # ... and for every retry budget (retry loop cut by an invariant, props/intcall.py)
                intcall.check_rk_call_unbounded(reg, src, PID, implicit, adaptive)
            except Unsupported as e:
                reg.undecided("%s/__call__[%s]/cut-loop-unsupported" % (PID, lbl), "unsupported", "executor", str(e))
    except Unsupported as e:
        reg.undecided(PID + "/executor/unsupported", "unsupported", "executor", str(e))
    # ---- the consumer side of the nonlinear solve: step() accepts iff `success and prec < desired_tol`; that `prec` is the residual norm at the
    #      returned point on every branch of the real nonlinear_roots front end (its solvers by the contracts proved in C15) is proved here too
    try:
        from . import C15
        R.under_contract(C15.check_front_end(reg, src))
        for o in reg.obligations:
            if o.name.startswith("C15/"):
                o.name = o.name.replace("C15/", PID + "/", 1)
    except Unsupported as e:
        reg.undecided(PID + "/nonlinear_roots/unsupported", "unsupported", "executor", str(e))
    # ---- bounded native clause: stage residual of the implicit solve
    try:
        nat = common.run_native("monitor/native_c02.py", dict(tier=tier, seed=R.seed), timeout=1200)
        R.bounded.append(dict(name="native: accepted steps satisfy the stage equations (implicit: residual vs tolerance; explicit/splitting: against a reference implementation of the formulas)",
                              bound=nat["bound"], cases=nat["cases"], failures=nat["failures"][:5], label="bounded"))
        if nat["failures"]:
            ob = reg.ground(PID + "/native/stage-equations", "bounded", "step", False, backend="native-family", detail="%d native failures" % len(nat["failures"]))
            R.violation(ob, R.write_replay(ob, dict(native=dict(failures=nat["failures"][:5]))), True, "bounded-native")
    except Exception as e:
        R.notes.append("native stage-residual clause could not run: %r" % (e,))
    for ob in [o for o in reg.obligations if not o.discharged and o.result != "unknown" and o.kind != "bounded"]:
        path = R.write_replay(ob, dict(identity=ob.detail, note="LinComb identity refuted: the symbolic result of the real function differs from the specification"))
        R.violation(ob, path, False)
    R.samples.append(dict(obligation="C02/step[RK4Solver]/dState-formula", meaning="symbolic execution of the real step() with uninterpreted rhs equals h*sum b_i k_i, k_i = rhs(t+c_i h, y + h sum a_ij k_j)"))
    return R.finish()
