"""E1 on the Richardson wrapper: symbolically execute the real `adaptive_richardson` (LinComb domain, sub-step results
T_m as atoms) and read off the weights of the returned combination; verify `subdiv_step` against the contract that
was substituted for it."""
from fractions import Fraction
import z3

from pyvc.executor import Executor, State, Ctx, Raised, Unsupported
from pyvc.values import LinComb, Poly, UFunc, Atom, fresh_name

FILE = "desolver/integrators/integrator_types.py"
CLS = "generate_richardson_integrator.RichardsonExtrapolatedIntegrator"
FT = "desolver/integrators/integrator_types.py"


def _grid_hooks(ex):
    def getitem(ex_, st, ctx, ref, idx):
        o = st.obj(ref)
        if idx not in o.fields:
            return LinComb.zero()
        return o.fields[idx]

    def setitem(ex_, st, ctx, ref, idx, v):
        st.obj(ref).fields[idx] = v
    ex.call_hooks["getitem:Grid"] = getitem
    ex.call_hooks["setitem:Grid"] = setitem


def extract_weights(src, reg, richardson_iter, p, prop="C01"):
    """-> list of dicts(path, weights {m: Fraction}, diff_weights, levels_used) one per path (check_converged outcomes)"""
    ex = Executor(src, reg, prop=prop)
    _grid_hooks(ex)
    fi = src.func(FILE, CLS + ".adaptive_richardson")
    st = State()
    grid = st.new_obj("Grid")
    sdict = st.new_obj("dict", "dict", items={})
    selfobj = st.new_obj("RichardsonExtrapolatedIntegrator",
                         fields=dict(richardson_iter=richardson_iter, stage_values=grid, solver_dict=sdict, basis_order=Fraction(p)))
    calls = []

    def subdiv(ex_, st_, ctx, args, kwargs):
        _self, int_num, rhs, t, y, timestep, constants, num_intervals = args
        calls.append((int_num, num_intervals))
        return (timestep, (timestep, LinComb.sym("T%d" % int_num)))      # (dtstep is not used by the caller beyond level 0)

    def conv(ex_, st_, ctx, args, kwargs):
        return (args[2], z3.Bool(fresh_name("t_conv")))

    ex.call_hooks["RichardsonExtrapolatedIntegrator.subdiv_step"] = subdiv
    ex.call_hooks["RichardsonExtrapolatedIntegrator.check_converged"] = conv
    ctx = Ctx(fi, None, fi.cls, tag="adaptive_richardson[iter=%d,p=%d]" % (richardson_iter, p))
    h = Poly.sym("h")
    consts = st.new_obj("dict", "dict", items={})
    paths = ex.call_function(fi, [selfobj, UFunc("rhs", "lincomb"), Poly.sym("t"), LinComb.sym("y"), consts, h], {}, st, ctx)
    out = []
    for s, v in paths:
        if isinstance(v, Raised):
            raise Unsupported("adaptive_richardson raised symbolically: %r" % (v.exc,))
        ts, (dt, dy), diff = v
        w = {}
        for atom, c in dy.terms.items():
            assert atom.key[0] == "sym" and atom.key[1].startswith("T") and c.is_const(), (atom, c)
            w[int(atom.key[1][1:])] = c.const_value()
        dw = {int(a.key[1][1:]): c.const_value() for a, c in diff.terms.items()}
        out.append(dict(weights=w, diff_weights=dw, returned_dt_is_h=(dt == h), trace=[b for _, b in s.trace],
                        substep_counts=sorted(set(calls))))
    return out


def verify_subdiv_step(src, reg, num_intervals, prop="C01"):
    """subdiv_step(int_num, rhs, t0, y0, h, consts, n) == n chained base steps of size h/n starting at (t0, y0):
    returns (h/n, (h, sum of the n increments)), k-th base call at (t0 + k*h/n, y0 + previous increments)."""
    ex = Executor(src, reg, prop=prop)
    fi = src.func(FILE, CLS + ".subdiv_step")
    st = State()
    basis = st.new_obj("BasisIntegrator")
    blist = st.new_obj("list", "list", items=[basis])
    selfobj = st.new_obj("RichardsonExtrapolatedIntegrator", fields=dict(basis_integrators=blist))
    log = []

    def base_call(ex_, st_, ctx, args, kwargs):
        _self, rhs, t, y, constants, dt = args
        log.append((t, y, dt))
        return (dt, (dt, LinComb.app("Phi", t, y, dt)))

    def base_dense(ex_, st_, ctx, args, kwargs):
        return ("t_interp", "interp")

    ex.call_hooks["BasisIntegrator.__call__"] = base_call
    ex.call_hooks["BasisIntegrator.dense_output"] = base_dense
    ctx = Ctx(fi, None, fi.cls, tag="subdiv_step[n=%d]" % num_intervals)
    h, t0, y0 = Poly.sym("h"), Poly.sym("t"), LinComb.sym("y")
    consts = st.new_obj("dict", "dict", items={})
    paths = ex.call_function(fi, [selfobj, 0, UFunc("rhs", "lincomb"), t0, y0, h, consts, num_intervals], {}, st, ctx)
    assert len(paths) == 1
    s, v = paths[0]
    dtstep, (dt_now, dstate_now) = v
    # independent specification of the composition
    spec_t, spec_y, total = t0, y0, LinComb.zero()
    ok_chain = len(log) == num_intervals
    hn = h.div_const(num_intervals)
    for k in range(min(len(log), num_intervals)):
        t_k, y_k, dt_k = log[k]
        ok_chain = ok_chain and (t_k == spec_t) and (y_k == spec_y) and (dt_k == hn)
        inc = LinComb.app("Phi", spec_t, spec_y, hn)
        total = total + inc
        spec_t = spec_t + hn
        spec_y = spec_y + inc
    name = "%s/subdiv_step/" % prop
    reg.ground(name + "chained-base-steps[n=%d]" % num_intervals, "post", "subdiv_step", bool(ok_chain), backend="lincomb-exact",
               detail="k-th base call starts at (t + k*h/n, y + sum of previous increments) with step h/n")
    reg.ground(name + "covers-interval[n=%d]" % num_intervals, "post", "subdiv_step", bool(dt_now == h and dtstep == hn), backend="lincomb-exact",
               detail="accumulated time %r (expected h), returned sub-step %r" % (dt_now, dtstep))
    reg.ground(name + "increment-is-composition[n=%d]" % num_intervals, "post", "subdiv_step", bool(dstate_now == total), backend="lincomb-exact")
    lists_ok = True
    reg.ground(name + "interpolants-one-per-substep[n=%d]" % num_intervals, "post", "subdiv_step",
               len(s.obj(s.obj(selfobj).fields["_RichardsonExtrapolatedIntegrator__interpolants"]).items) == num_intervals, backend="lincomb-exact")
    return fi


def verify_common_interval(src, reg, richardson_iter, prop="C01"):
    """adaptive_richardson over a base method that may shorten the step (an adaptive base: its contract is sign kept, |dTime| <= |step|):
    every pass of the extrapolation table covers the same interval -- the one the first, undivided pass actually covered -- in both time
    directions, and that interval is what is returned.  (Defect F32: the comparison that adopts the shortened step was signed, so in
    decreasing time the finer passes kept the requested step.)"""
    ex = Executor(src, reg, prop=prop)
    _grid_hooks(ex)
    fi = src.func(FILE, CLS + ".adaptive_richardson")
    st = State()
    grid = st.new_obj("Grid")
    sdict = st.new_obj("dict", "dict", items={})
    selfobj = st.new_obj("RichardsonExtrapolatedIntegrator", fields=dict(richardson_iter=richardson_iter, stage_values=grid, solver_dict=sdict, basis_order=Fraction(4)))
    h = z3.Real("h_req")
    st.assume(h != 0)
    covered0 = z3.Real("covered_by_first_pass")
    st.assume(z3.And(z3.Implies(h > 0, z3.And(covered0 > 0, covered0 <= h)), z3.Implies(h < 0, z3.And(covered0 < 0, covered0 >= h))))
    asked = []

    def subdiv(ex_, st_, ctx, args, kwargs):
        _self, int_num, rhs, t, y, timestep, constants, num_intervals = args
        st_.ghost.setdefault("asked", []).append((int_num, timestep))          # per path
        if int_num == 0:
            return (timestep, (covered0, LinComb.sym("T0")))          # the base method covered `covered0` of the requested step
        return (timestep, (timestep, LinComb.sym("T%d" % int_num)))

    def conv(ex_, st_, ctx, args, kwargs):
        return (args[2], z3.Bool(fresh_name("t_conv")))
    ex.call_hooks["RichardsonExtrapolatedIntegrator.subdiv_step"] = subdiv
    ex.call_hooks["RichardsonExtrapolatedIntegrator.check_converged"] = conv
    ctx = Ctx(fi, None, fi.cls, tag="adaptive_richardson[iter=%d,adaptive-base]" % richardson_iter)
    consts = st.new_obj("dict", "dict", items={})
    paths = ex.call_function(fi, [selfobj, UFunc("rhs", "lincomb"), z3.Real("t"), LinComb.sym("y"), consts, h], {}, st, ctx)
    n = 0
    for k, (s, v) in enumerate(paths):
        if isinstance(v, Raised):
            reg.ground("%s/%s/no-exception#%d" % (prop, ctx.tag, k), "post-exc", "adaptive_richardson", False, detail=repr(v.exc))
            continue
        n += 1
        ts, (dt, dy), diff = v
        finer = [z3.Real("dummy") == z3.Real("dummy")]
        goals = [dt == covered0, ts == covered0]
        # the finer passes were asked for exactly that interval
        for lvl, req in s.ghost.get("asked", []):
            if lvl > 0:
                goals.append(req == covered0)
        ex.prove(s, ctx, z3.And(*goals), "post", "all-passes-cover-the-interval-the-first-pass-covered#%d" % k)
    reg.ground("%s/%s/paths-explored" % (prop, ctx.tag), "lemma", "adaptive_richardson", n >= 1, detail="%d paths" % n)
    return fi


def check_factory(src, reg, prop, levels=(2, 3, 4, 5)):
    """generate_richardson_integrator(basis, k): on every returning path the result is the class this call defined, closed over the basis
    and the number of levels it was asked for -- not a class an earlier call (with other arguments) left somewhere.  The real factory is
    executed; the class body is not (its methods are under contract on their own, with the closure bound to the same k)."""
    from pyvc.values import ModuleRef, Ref
    fi = src.func(FT, "generate_richardson_integrator")
    for k in levels:
        ex = Executor(src, reg, prop=prop)
        ex.local_classes = True
        st = State()
        basis = ModuleRef("desolver.integrators.<some basis integrator class>")
        ctx = Ctx(fi, None, None, tag="generate_richardson_integrator[levels=%d]" % k)
        tag = "%s/%s/" % (prop, ctx.tag)
        try:
            paths = ex.call_function(fi, [basis, k], {}, st, ctx)
        except Unsupported as e:
            reg.undecided(tag + "executes", "unsupported", "generate_richardson_integrator", str(e))
            continue
        rets = [(s, v) for s, v in paths if not isinstance(v, Raised)]
        bad = []

        def flat(x):
            return [y for e in x for y in flat(e)] if isinstance(x, (tuple, list)) else [x]

        def determines(key):
            # does a cache key fix both arguments?  (the basis by identity, the number of levels by value)
            items = flat(key)
            return any(e is basis for e in items) and any(isinstance(e, int) and not isinstance(e, bool) and e == k for e in items)

        def is_this_class(s, v):
            f = s.obj(v).fields if isinstance(v, Ref) and s.obj(v).cls == "<local class>" else None
            return f is not None and f["__class_statement__"] == CLS and f["__closure__"].get("richardson_iter") == k and f["__closure__"].get("basis_integrator") is basis
        for j, (s, v) in enumerate(rets):
            if is_this_class(s, v):
                continue
            from pyvc.values import Opaque
            if isinstance(v, Opaque) and v.tag.split("!")[0] == "module_state":
                # a class read back from a module-level container (a cache of generated classes).  Module invariant, established at the
                # store site of this very function: an entry is stored under a key built from the arguments, its value being the class
                # defined in that call.  A hit then returns a class closed over the same arguments iff the key fixes *both* arguments.
                reads = [kv for nm, kv in ex.module_reads]
                stores = [(kv, val) for nm, kv, val in ex.module_stores]
                keyed = bool(reads) and all(determines(kv) for kv in reads) and bool(stores) and all(determines(kv) for kv, _ in stores)
                if keyed:
                    continue
                bad.append("path %d returns an entry of a module-level container whose key does not fix both the basis and the number of levels (keys read: %r)" % (j, reads))
                continue
            f = s.obj(v).fields if isinstance(v, Ref) and s.obj(v).cls == "<local class>" else None
            bad.append("path %d returns %r" % (j, v if f is None else {a: f["__closure__"].get(a) for a in ("richardson_iter", "basis_integrator")}))
        reg.ground(tag + "returns-the-class-defined-in-this-call-for-the-requested-levels", "post", "generate_richardson_integrator", bool(rets) and not bad,
                   backend="symbolic-exec", detail="%d returning paths; %s" % (len(rets), "; ".join(bad) or "each returns the class statement closed over richardson_iter = %d and the given basis" % k))
    return fi
