"""C09 -- a terminal event stops the integration exactly at the event.

E1: the real OdeSystem.integrate with events of which some are terminal (props/integrate_events.py), every mix for n = 1, 2:
  handle_events cuts its list after the first terminal event in integration order (proved on its real text, props/events.py);
  in the terminal branch the step is rolled back, its interpolant dropped, and self.integrate(root) -- integrate's own contract,
  proved in this run for events None -- lands within 8 eps of the root, never beyond it, with the buffers trimmed to the landing
  point; post-condition when the status is 2: the last record of __events is the terminal event, every earlier record of this
  call is non-terminal and not later, the last recorded time is within 8 eps of the event time, nothing is kept beyond it
  (len(t) == counter + 1), status 2 (reported as success by OdeSystem.success); without a terminal event the status is 1 and the run
  ends at its target.  Continuation: the post-state satisfies the representation invariant the next call requires (trajectory
  buffers, step interpolants ordered with the newest piece ending at or before the current time), so the same contract applies to
  the later call.
Bounded (native): last state on the event surface, dense output kept and ordered up to the event, continuation reaches the end,
infinite target times.
"""
from pyvc import source, solver
from . import common, evcommon as EC, integrate_events as IE, integrate_core as IC

PID = "C09"


def run(tier):
    R = common.Run(PID, "proof", tier)
    R.assume("A1", "A2", "A3", "A4", "A7")
    for a in EC.ASSUME_EVENTS:
        R.assume(a)
    R.assume("'exactly at the event' is 'within 8 eps (tol_epsilon) of the event time, never beyond it': integrate()'s own stopping test; under A1 nothing finer can be stated")
    R.assume("'the last state is on the event surface' (g(t_last, y_last) ~ 0) needs the re-integrated state to agree with the interpolant the root was found on: numerical analysis; bounded native clause only")
    R.assume("infinite target times are verified for n = 1 terminal event in both directions (the contract then has no target: the only normal exit is the terminal stop); an infinite target without a terminal event does not terminate (A7)")
    R.trust("z3", "pyvc executor", "contracts of DenseOutput proved in C06")
    src = source.load_all()
    reg = solver.Registry(solver.THOROUGH_TIMEOUT_MS if tier == "thorough" else 30000)
    R.add_registry(reg)
    jobs = [dict(fn="props.events:job_handle_events", label="%s/handle_events[n=%d]" % (PID, n), kwargs=dict(prop=PID, n=n)) for n in (1, 2)]
    cfgs = EC.configs(tier, "terminal")
    for n, terms, d, dense in cfgs:
        jobs.extend(IE.event_jobs(PID, n, terms, d, dense))
    # infinite target times: integrate(+-inf) runs until a terminal event ends it
    for d in (1, -1):
        jobs.append(dict(fn="props.integrate_events:job_events", label="%s/%s" % (PID, IE.config_label(1, (True,), d, 0, False, True)),
                         kwargs=dict(prop=PID, n=1, terminals=[True], direction=d, infinite=True)))
    # the same stop from a system whose earlier call failed (its exception object is still stored as the status): status 2 all the same
    jobs.append(dict(fn="props.integrate_events:job_events", label="%s/%s,after-a-failure" % (PID, IE.config_label(1, (True,), 1)),
                     kwargs=dict(prop=PID, n=1, terminals=[True], direction=1, after_failure=True)))
    jobs.extend(IE.recursive_jobs(PID, cfgs))
    jobs.append(dict(fn="props.integrate_events:job_status", label=PID + "/status", kwargs=dict(prop=PID)))
    EC.obligations_of(reg, R, jobs)
    for name in ("handle_events", "prepare_events", "OdeSystem.integrate", "OdeSystem.success", "OdeSystem.integration_status", "DenseOutput.add_interpolant", "DenseOutput.remove_interpolant"):
        R.under_contract(src.func(IC.F, name))
    return EC.finish(R, reg, ["C09"], tier, "native event family (terminal stop: last time = event time, last state on the surface, one terminal event, earlier non-terminal ones kept, status, dense output ordered up to the event, continuation to the end; both directions, finite and infinite targets)")
