"""Sidecar contracts for desolver/differential_system.py."""
from pyvc.executor import Contract

F = "desolver/differential_system.py"

# abstract view of an OdeSystem used by __getitem__/__len__: recorded grid (t_i, y_i), i = 0..counter
def ode_self(dense):
    return ("obj", "OdeSystem", {"counter": "Int", "_OdeSystem__t": "Seq[Real]", "_OdeSystem__y": "Seq[Real]",
                                 "_OdeSystem__dense_output": ("const", dense), "_OdeSystem__sol": ("obj", "DenseOutput", {})})

REP = ["self.counter >= 0", "len(self.__t) == self.counter + 1", "len(self.__y) == self.counter + 1"]
INCREASING = "forall(lambda i, j: implies(0 <= i and i < j and j <= self.counter, self.__t[i] < self.__t[j]))"
DECREASING = "forall(lambda i, j: implies(0 <= i and i < j and j <= self.counter, self.__t[i] > self.__t[j]))"
NORM = "ite(index < 0, index + self.counter + 1, index)"

getitem_int = Contract(
    F, "OdeSystem.__getitem__",
    sorts={"self": ode_self(False), "index": "Int"},
    requires=REP,
    ensures=["-(self.counter + 1) <= index and index <= self.counter",
             "result.t == self.__t[" + NORM + "] and result.y == self.__y[" + NORM + "]",
             "result.event is None"],
    ensures_exc=["is_exc(exc, 'IndexError')", "index > self.counter or index < -(self.counter + 1)"],
    result=("obj", "StateTuple", {"t": "Real", "y": "Real", "event": "None"}),
    may_raise=True, exc_kinds=("IndexError",),
    serves=["C19", "C18"])
getitem_int.label = "int-index"

getitem_time = Contract(
    F, "OdeSystem.__getitem__",
    sorts={"self": ode_self(False), "index": "Real"},
    requires=REP,          # any recorded grid: forward, backward, after continuation
    ensures=[
        # the returned pair is a recorded sample ...
        "exists(lambda j: 0 <= j and j <= self.counter and result.t == self.__t[j] and result.y == self.__y[j])",
        # ... and no recorded time is nearer to the query
        "forall(lambda i: implies(0 <= i and i <= self.counter, abs(result.t - index) <= abs(self.__t[i] - index)))"],
    ensures_exc=["False"],
    serves=["C19"])
getitem_time.label = "time-nearest"

getitem_dense = Contract(
    F, "OdeSystem.__getitem__",
    sorts={"self": ode_self(True), "index": "Real"},
    requires=REP,
    ensures=["result.t == index", "result.y == dense_solution(index)"],
    ensures_exc=["False"],
    serves=["C19"])
getitem_dense.label = "time-dense"

getitem_slice = Contract(
    F, "OdeSystem.__getitem__",
    sorts={"self": ode_self(False), "index": ("slice", "Real", "Real", ("const", None))},
    requires=REP + [INCREASING],
    ensures=["implies(index.start <= self.__t[0] and index.stop >= self.__t[self.counter], result.t.lo == 0 and result.t.hi == self.counter + 1 and result.t.step == 1 "
             "and result.y.lo == 0 and result.y.hi == self.counter + 1 and result.y.step == 1)",
             # in general: the slice is the contiguous run of samples from the first one >= start to the first one >= stop (inclusive)
             "result.t.lo == result.y.lo and result.t.hi == result.y.hi"],
    ensures_exc=["False"],
    serves=["C19"])
getitem_slice.label = "time-slice[increasing]"

length = Contract(F, "OdeSystem.__len__", sorts={"self": ode_self(False)}, requires=REP, ensures=["result == self.counter + 1"], serves=["C19"])
length.label = "len"
