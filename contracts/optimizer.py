"""Sidecar contracts for desolver/utilities/optimizer.py (Brent root finders)."""
from pyvc.executor import Contract

F = "desolver/utilities/optimizer.py"

TOLV = "ite(tol < eps, eps, tol)"        # the tolerance the code actually uses (tol clipped from below by D.epsilon)
SC = "apply(f, bounds[0]) * apply(f, bounds[1]) < 0"      # strict sign change over the bracket
# width a converged bracket may have: the requested tolerance, but never less than the spacing of floats at the bracket (a
# tolerance of one D.epsilon is below that spacing for |x| >= 4: an absolute test can then never be met -- repaired defect F9b)
WIDTH = lambda tol: "abs(b - a) <= max(" + tol + ", eps * max(abs(a), abs(b)))"

BRENT_INV = [
    "fa == apply(f, a) and fb == apply(f, b)",
    "between(a, bounds[0], bounds[1]) and between(b, bounds[0], bounds[1])",
    "abs(fb) <= abs(fa)",
    "implies(apply(f, bounds[0]) * apply(f, bounds[1]) <= 0, fa * fb <= 0)",
    "3 <= numiter and numiter <= 63",
    "implies(conv, fb == 0 or " + WIDTH("tol") + ")",
    "tol == " + TOLV.replace("tol", "old(tol)") if False else "tol >= eps",
]

# result = (root, success)           [return_interval False]
brentsroot = Contract(
    F, "brentsroot",
    sorts={"f": ("uf", "f", "real"), "bounds": ("tuple", "Real", "Real"), "tol": "Real",
           "verbose": ("const", False), "return_interval": ("const", False)},
    requires=[],
    ensures=[
        # P1 the returned point lies inside the bracket
        "between(result[0], bounds[0], bounds[1])",
        # P4 success => |f(root)| <= tol
        "implies(result[1], abs(apply(f, result[0])) <= " + TOLV + " or (defined('conv') and fa * fb <= 0 and " + WIDTH(TOLV) + "))",
        # P2 sign change + loop left through its convergence test => a sign change lies within tol of the root
        "implies(defined('conv') and " + SC + " and conv, fb == 0 or (fa * fb <= 0 and " + WIDTH(TOLV) + " and result[0] == b))",
        # cap exit: still a sign change between the returned end points (both inside the bracket)
        "implies(defined('conv') and " + SC + ", fa * fb <= 0 and result[0] == b and between(a, bounds[0], bounds[1]))",
        # P5 sign change + converged => success reported, whatever the scale of f
        "implies(defined('conv') and " + SC + " and conv, result[1])",
    ],
    result=("tuple", "Real", "Bool"),
    loops={0: {"invariant": BRENT_INV[:6] + ["tol >= eps"], "variant": "64 - numiter"}},
    abstract=["s"],
    serves=["C14", "C08"])

# ---- vectorised solver: verified as the scalar program of one element (A4) --------------------------------
VEC_INV = [
    "fa == apply(f, a) and fb == apply(f, b)",
    "between(a, bounds[0], bounds[1]) and between(b, bounds[0], bounds[1])",
    "abs(fb) <= abs(fa)",
    "not_conv == (not conv)",
    "implies(conv, fa * fb < 0)",
    "implies(" + SC + ", fa * fb <= 0)",
    "3 <= numiter and implies(conv, numiter <= 64)",
    "implies(" + SC + " and not conv, fb == 0 or " + WIDTH("tol") + " or numiter >= 64)",
    "tol >= eps",
    "implies(true_conv, abs(fb) <= tol or (fa * fb <= 0 and " + WIDTH("tol") + "))",
    "implies(" + SC + " and not conv and numiter < 64, true_conv)",
    "implies(apply(f, bounds[0]) * apply(f, bounds[1]) >= 0, not conv)",
    "implies(apply(f, bounds[0]) * apply(f, bounds[1]) > 0, fa * fb > 0)",
]
VEC_TRUE_CONV_OLD = "true_conv == (abs(fb) <= tol)"

brentsrootvec = Contract(
    F, "brentsrootvec",
    sorts={"f": ("uf", "f", "real"), "bounds": ("tuple", "Real", "Real"), "tol": "Real",
           "verbose": ("const", False), "return_interval": ("const", False), "accepts_mask": ("const", False)},
    requires=[],
    ensures=[
        "between(result[0], bounds[0], bounds[1])",
        "implies(result[1], abs(apply(f, result[0])) <= " + TOLV + " or (fa * fb <= 0 and " + WIDTH(TOLV) + "))",
        "implies(" + SC + " and numiter < 64, fb == 0 or (fa * fb <= 0 and " + WIDTH(TOLV) + " and result[0] == b))",
        "implies(" + SC + ", fa * fb <= 0 and result[0] == b and between(a, bounds[0], bounds[1]))",
        "implies(" + SC + " and numiter < 64, result[1])",
        "implies(apply(f, bounds[0]) * apply(f, bounds[1]) > 0 and result[1], abs(apply(f, result[0])) <= " + TOLV + ")",
    ],
    result=("tuple", "Real", "Bool"),
    lifted=True,
    loops={0: {"invariant": VEC_INV}},
    abstract=["s"],
    serves=["C14", "C08", "C07"])

import copy as _copy
# the `isinstance(f, list)` front end (the form handle_events uses): projected on one element, f = [f_i]
# ownership: the caller still holds the arrays it passed as the bracket (it may hand the same bracket to the next call) -- frame clause
brentsrootvec.borrowed = ("bounds",)
brentsrootvec_list = _copy.copy(brentsrootvec)
brentsrootvec_list.sorts = dict(brentsrootvec.sorts)
brentsrootvec_list.sorts["f"] = ("list", ("uf", "f", "real"))
brentsrootvec_list.label = "list-front-end"
