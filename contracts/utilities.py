"""Sidecar contracts for desolver/utilities/utilities.py and interpolation.py (nothing is written into /repo)."""
from pyvc.executor import Contract

F = "desolver/utilities/utilities.py"
FI = "desolver/utilities/interpolation.py"

SORTED_STRICT = "forall(lambda i, j: implies(0 <= i and i < j and j < len(array), array[i] < array[j]))"

# the post-condition is the property's own words: index of the first element not smaller than the query,
# clipped to the last index
BISECTION_POST = [
    "0 <= result and result < len(array)",
    "forall(lambda k: implies(0 <= k and k < result, array[k] < old(val)))",
    "array[result] >= old(val) or result == len(array) - 1",
]     # old(val): the query *as given* -- the functions rebind `val` (asarray), and a conversion that changes its value must not go unnoticed

search_bisection = Contract(
    F, "search_bisection",
    sorts={"array": "Seq[Real]", "val": "Real"},
    requires=["len(array) >= 1", SORTED_STRICT],
    ensures=BISECTION_POST,
    result="Int",
    loops={0: {"invariant": ["0 <= jlower and jlower < jupper and jupper <= len(array) - 1",
                             "array[jlower] <= val and val <= array[jupper]"],
               "variant": "jupper - jlower"}},
    serves=["C17", "C06", "C19"])

search_bisection_vec = Contract(
    F, "search_bisection_vec",
    sorts={"array": "Seq[Real]", "val": "Real"},
    requires=["len(array) >= 1", SORTED_STRICT],
    ensures=BISECTION_POST,
    result="Int",
    lifted=True,
    loops={0: {"invariant": ["0 <= jlower and jlower <= jupper and jupper <= len(array) - 1",
                             "array[jlower] < val or jlower == 0",
                             "val <= array[jupper] or jupper == len(array) - 1",
                             "not_conv == (jupper - jlower > 1)"],
               "variant": "jupper - jlower", "variant_while": "not_conv"}},
    serves=["C17", "C06"])

# dtype provenance (A1 treats values as reals; *which* array's type a value is converted to is still tracked): the query keeps its own type
search_bisection_vec.dtypes = {"array": "array", "val": "query"}

HERMITE_SELF = ("obj", "CubicHermiteInterp", {"t0": "Real", "t1": "Real", "p0": "Real", "p1": "Real", "m0": "Real", "m1": "Real"})

hermite_call = Contract(
    FI, "CubicHermiteInterp.__call__",
    sorts={"self": HERMITE_SELF, "t_eval": "Real"},
    requires=["self.t1 != self.t0"],
    ensures=["implies(t_eval == self.t0, result == self.p0)",
             "implies(t_eval == self.t1, result == self.p1)"],
    result="Real", serves=["C17", "C06"])

hermite_grad = Contract(
    FI, "CubicHermiteInterp.grad",
    sorts={"self": HERMITE_SELF, "t_eval": "Real"},
    requires=["self.t1 != self.t0"],
    ensures=["implies(t_eval == self.t0, result == self.m0)",
             "implies(t_eval == self.t1, result == self.m1)"],
    result="Real", serves=["C17", "C06"])

ALL = {c.short if "." not in c.func else c.func: c for c in
       (search_bisection, search_bisection_vec, hermite_call, hermite_grad)}
